#!/usr/bin/env python3
"""Regenerates /verif/MANIFEST.json from the table below (kept as a script so the manifest stays valid and consistent)."""
import json, sys
NA = {
 "C10": "identifier parsing is a pure, synchronous function of one string: no schedule, clock, fault, peer or history can change its result, so simulation would be input generation only (panic-freedom of the same entry points is covered by C17)",
 "C11": "Matrix-URI format/parse round trip is a pure function of one value or one string; nothing for a scheduler or fault injector to vary (panic-freedom covered by C17)",
 "C12": "push evaluation is a pure function of (ruleset, event, room context); the only stateful aspect, how the ruleset got its order, is C13 (panic-freedom of pattern matching covered by C17)",
 "C14": "sanitizer output depends only on the input HTML and the config value; its internal hash containers are used for look-ups only, so not even hash order is a factor; no interleaving, time or fault enters (crash/stack safety on deep or malformed HTML covered by C17)",
 "C15": "idempotence/preservation are algebraic facts about the same pure function; applying it twice is not a history a scheduler can vary",
 "C16": "request/response conversion and path selection are pure functions of (value, metadata, version set); ruma has no connection, retry, negotiation or caching logic whose timing could matter; exhaustive version-subset enumeration is bounded model checking, not seeded search (panic-freedom of incoming conversions covered by C17)",
 "C18": "typed (de)serialization is a pure function of one JSON text; key order is part of the input, not a schedule (panic-freedom covered by C17)",
 "C19": "string<->enum conversion is a pure function of one string; forward compatibility quantifies over strings, not over time or peers",
}
PENDING = "not claimed yet: the simulation engine for this property is still under construction (planned as claimed, see DESIGN.md §0/§7)"
CHECKS = {}
def chk(pid, engine, text, note, technique, design_ref):
    CHECKS[pid] = {
        "property_id": pid,
        "quick_cmd": f"./check {pid} quick",
        "thorough_cmd": f"./check {pid} thorough",
        "evidence_file": f"/verif/evidence/{pid}.json",
        "replay_cmd_template": "./check replay {path}",
        "engine": engine,
        "level_claimed": {"category": "exploration", "text": text, "design_ref": design_ref},
        "level_note": note,
        "technique": technique,
    }

chk("C13", "pushsim",
    "Seeded deterministic simulation of one account's push ruleset edited by 1-3 devices over a lossy, duplicating, reordering transport with retries and server crash/restart through the JSON form; every applied operation on the real Ruleset is judged against an independent ordered-list model (no panic, error => unchanged, placement, uniqueness, outcome class). Sampling, not proof; plus an exhaustive walk of all operation sequences up to length 2 (quick) / 3 (thorough) over a small alphabet, reported separately.",
    "Trusted: the rpush list model (DESIGN §5/A.9) as the meaning of the documented placement semantics; override-list placement without .m.rule.master first, and self-anchored inserts are judged only for panic-freedom, atomicity and uniqueness; an insert whose `before` anchor is not below its `after` anchor must fail with the set unchanged.",
    "deterministic simulation (seeded schedule + fault injection: drop/dup/delay/retry/crash-restart) with reference-model oracle; tape minimisation and replay",
    "DESIGN.md §5, §7 C13")

SIMFED_NOTE = "Trusted: the reference models of DESIGN.md Appendix A (refmodel crate, no ruma code), ed25519-dalek for Ed25519 itself, and the stub homeserver glue; inputs outside the spec-decidable envelope (DESIGN §4.5) are generated but not judged. Known findings (known_findings.json) are stepped over, everything else is still judged."
SIMFED_TECH = "deterministic simulation of a multi-server federation (seeded discrete-event scheduler; faults: drop/dup/delay/reorder, partition/heal, stall, crash/restart with lost/flipped disk writes, clock skew/freeze/jump, respell/corrupt/tamper/relay-redact, Byzantine servers, per-run hash seeds) with reference-model oracles; tape minimisation and exact replay"
def fed(pid, what):
    chk(pid, "simfed", what + " Seeded sampling of histories and fault sequences, not proof.", SIMFED_NOTE, SIMFED_TECH, f"DESIGN.md §4, §7 {pid}")

fed("C01", "Every PDU text a Ruma node ingests (respelled by the transport: key order, whitespace, escape spellings, duplicate keys; produced by Ref/Byz peers) must parse to the value the rj model parses and re-serialise to rj's canonical bytes; parse-back equality; value-level probes incl. non-representable numbers that must be refused. The key-order/spelling clause is decided by the respell fault; breadth of values is workload sampling.")
fed("C02", "Signing flows between servers and an identity server (1-3 signers in tape order, real and model signers mixed, cross-verification; an entity's second key id is a rotated key or an alias of the same key bytes), tamper classes on signed objects (content / signature bit / key bit / key id / unsigned only / respelling / extra entity) judged against rsig in both directions, and snapshot comparison after every failing sign_json.")
fed("C03", "Every PDU creation, countersigning and receipt in room versions 1-11 is judged against rsig+rredact+rsigners: hash_and_sign_event bytes, verify_event result class (All / Signatures / error) for clean, respelled, tampered-by-class, relay-redacted and reloaded-after-crash copies, required signers incl. v1-2 foreign event IDs and restricted-join countersignatures.")
fed("C04", "Redaction at every place a node redacts (inside sign/verify/hash, on hash mismatch, relay-redact chains of 1-3 hops, entry point chosen by the tape) plus observer probes over every special event type with specified and unspecified keys, compared with the rredact table for versions 1-11 (obtained through RoomVersionId); entry-point agreement, idempotence, redacted_because. The (version,type,key) table coverage itself is workload sampling.")
fed("C05", "Every server derives each event's ID independently on receipt, after restart and from relay-redacted copies; IDs, content hashes and reference hashes are compared with rsha/rb64/rredact; tamper classes decide which changes must move the hash; boundary-size events are sized with the reference encoder to 65535±{0,1,2} bytes and must be refused exactly above the limit - by hashing, signing and (inflated after signing) by verify_event; unsigned-only tampers incl. a redacted_because on an unredacted copy must not move the ID.")
fed("C06", "Every resolve call of a Ruma node is repeated with permuted state-set and auth-chain-set order under fresh per-map hash keys (getrandom seam), on cooperative threads with their own hash seeds interleaved at fetch_event granularity, with single/identical-set identity probes, with an unrelated resolution in between (the twin of the room: same room ID and event IDs, users rotated; on this thread or first on a new thread), and with one event missing from the store (same outcome for every argument order, never a panic); every event's accept/reject verdict and state-before map are compared across all nodes however they learned the DAG (delivery order, partitions, restarts recomputing from disk). Oracle is equality, no reference model.")
fed("C07", "Every resolve call a Ruma node makes while processing a federation history with partitions, delays, frozen/skewed clocks and Byzantine stale-auth events (plus tape-chosen subset resolutions) is compared with the literal rsr2 model; the exposed lexicographical_topological_sort is compared with a reference Kahn sort on arising auth sub-DAGs with tape-chosen tie-prone keys.")
fed("C08", "Every auth_check a Ruma node performs on history-reached states, K Byzantine candidate events per probed state (with synthetic membership and power-levels overrides widening the sender×target×threshold product), and every iterative-auth step inside resolution are compared accept/reject with the rauth model for room versions 1-11; evidence reports the (version, kind, verdict, rule) cell histogram. Samples the abstract product space; does not enumerate it.")
fed("C09", "auth_types_for_event is compared with rsel as sets on every created or probed event (all memberships, third-party-invite and restricted-join contents, malformed contents); recorded state reads of auth_check must lie inside the selection; re-running auth_check after removing/replacing/adding state entries outside the selection must not change the verdict.")
fed("C20", "On history-reached power-levels events (fields absent, string levels before v10, users around thresholds) each helper (ban/kick/unban/invite a given user, change a given user's level, send message/state type, room notification, effective level) is compared with the real auth_check verdict on the minimal corresponding event from a joined actor (and the real push condition / state-res level for the last two); room versions 3-11.")

chk("C17", "crashsim",
    "Seeded deterministic simulation of long-lived worker processes fed fault-damaged wire data (byte- and structure-level mutations of valid seeds, 200-600 deliveries per worker in quick, 500-2000 in thorough) at 130 entry points that consume remote-controlled data (identifiers, URIs, headers, base64, typed events and what an application does with them, push, signatures/redaction/keys, HTML, 66 endpoint conversions, state-res over damaged PDUs); observables are exactly those the property names: panic payload, abort/signal/exit (incl. stack exhaustion on an 8 MiB stack), hang (60 s watchdog, confirmed twice in isolation), canary drift (a fixed battery of well-formed calls must keep its recorded outputs after every rejected input), and history dependence (every other delivery repeated at once on a brand-new thread, six to ten deliveries per session repeated alone in a fresh bare process: same complete outcome). No functional oracle, hence no reference model to get wrong. Sampling, not proof.",
    "Trusted: the supervisor/worker harness; bounds: inputs <= ~70 KB, JSON nesting <= 128, HTML nesting <= 1000, 8 MiB stack, 60 s watchdog; state-res entry points reject cyclic explicit event-id graphs (a server accepts an event only after its auth events; not producible by a peer from room v3 on); ruma crates built with default features plus canonical-json, api/client/server, html/matrix, ring-compat (unstable-* code is not compiled and not claimed).",
    "deterministic simulation with fault injection on wire data (seeded mutation sequences against long-lived processes; crash/abort/hang/poisoning detection; tape minimisation and replay)",
    "DESIGN.md §6, §7 C17")

ALL = [f"C{n:02d}" for n in range(1, 21)]
def main():
    man = {
        "version": 1,
        "setup_cmd": "./check build",
        "hooks": {
            "guard": "ruma_verif",
            "enable": "none needed: no hook was added to /repo; all seams are existing ones (Event trait, fetch_event/fetch_state closures, KeyPair trait, plain-value APIs, libc getrandom symbol interposed in the simulator binaries)",
            "baseline_off_cmd": "cd /repo && RUSTUP_TOOLCHAIN=1.88.0 cargo test --workspace --no-fail-fast --offline",
            "source_commits": [],
            "add_only": True,
        },
        "engines": [
            {"name": "pushsim", "path": "/verif/sim/pushsim", "serves_properties": ["C13"], "kind_free_text": "discrete-event simulation of devices/transport/server around the real ruma_common::push::Ruleset; rpush reference model"},
            {"name": "crashsim", "path": "/verif/sim/crashsim", "serves_properties": ["C17"], "kind_free_text": "supervisor + long-lived worker processes fed fault-damaged wire data; panic/abort/stack/hang/canary-drift detection"},
            {"name": "simfed", "path": "/verif/sim/simfed", "serves_properties": ["C01","C02","C03","C04","C05","C06","C07","C08","C09","C20"], "kind_free_text": "simulated Matrix federation: homeserver stubs around real ruma calls, Ref and Byzantine servers, lossy transport, crash/restart, clock faults, hash-order seam; independent reference models as oracles"},
        ],
        "checks": [CHECKS[p] for p in ALL if p in CHECKS],
        "not_applicable": [{"property_id": p, "reason": NA.get(p, PENDING)} for p in ALL if p not in CHECKS],
        "notes": "All checks: ./check <ID> quick|thorough (cwd /verif). Default VERIF_SEED=20261002; exit 0 held / 1 violation / 2 harness error. Known findings: /verif/known_findings.json. Seeded breaking changes used to test the machinery: /verif/seeded/.",
    }
    json.dump(man, open("/verif/MANIFEST.json", "w"), indent=1)
    print("checks:", [c["property_id"] for c in man["checks"]])
main()
