//! Simulated clients (DESIGN §4.3) and Byzantine servers (§4.4): building, hashing, signing and
//! sending events.

use std::collections::BTreeMap;
use std::rc::Rc;

use refmodel::rauth::{self, Selection};
use refmodel::revent::{self, HashResult, SignResult};
use refmodel::rj::{self, J};
use refmodel::rsr2::StateSet;
use serde_json::json;

use crate::conv;
use crate::gen::{self, View};
use crate::node::short_id;
use crate::real::{self, Outcome};
use crate::sim::{clip, view_of, Kind, Ledger, Msg, Sim};

#[derive(Default, Clone)]
pub struct Draft {
    pub ty: String,
    pub sender: String,
    pub state_key: Option<String>,
    pub content: J,
    pub redacts: Option<String>,
    pub prev: Option<Vec<String>>,
    pub auth: Option<Vec<String>>,
    pub ts: Option<i64>,
    pub depth: Option<i64>,
    /// server that countersigns (restricted join: the authorising user's server)
    pub countersign: Option<usize>,
    pub label: String,
    /// size the hashed form of the event to exactly this many bytes (boundary-size events)
    pub pad_target: Option<usize>,
    /// v1-2 only: mint the event id under another server's name (Byzantine)
    pub foreign_id_server: Option<String>,
    /// Byzantine: replace `hashes.sha256` by this value and sign the result correctly
    pub bad_hash: Option<String>,
}

fn o(pairs: Vec<(&str, J)>) -> J {
    J::Obj(pairs.into_iter().map(|(k, v)| (k.to_string(), v)).collect())
}

impl<'a> Sim<'a> {
    pub fn server_of(&self, user: &str) -> Option<usize> {
        let s = revent::server_of_user(user)?;
        self.servers.iter().position(|x| x.name == s)
    }

    fn model_key(&self, n: usize) -> revent::SignKey {
        revent::SignKey::from_seed(self.servers[n].seed, &self.servers[n].key_version)
    }

    /// Hash and sign `j` as server `n`: real call on Ruma nodes with the model next to it
    /// (I-sign / I-evsig / I-hash), model only elsewhere. Returns false if creation was refused.
    pub fn sign_event_as(&mut self, n: usize, j: &mut J) -> bool {
        let v = self.cfg.v;
        let name = self.servers[n].name.clone();
        let mkey = self.model_key(n);
        let before = j.clone();
        let model = revent::hash_and_sign_event(j, &name, &mkey, v);
        if self.servers[n].kind != Kind::Ruma {
            return matches!(model, HashResult::Ok(()));
        }
        let Some(mut obj) = conv::j_to_obj(&before) else { return false };
        // redaction first, so that a wrong redaction cell is attributed to C04, not to the signature
        let which = self.t.below(3);
        let rr = real::redact_via(&obj, &self.rules.clone(), None, which);
        self.check_redact(&before, &rr, &revent::redact(&before, v), which, "before-signing");
        if self.stop() {
            return false;
        }
        let Some(kp) = self.servers[n].kp.as_ref() else { return false };
        let real = real::hash_and_sign_event(&name, kp, &mut obj, &self.rules);
        let ty = before.get("type").and_then(|t| t.as_str()).unwrap_or("?").to_string();
        if let Some(p) = real.panic() {
            self.violate("C03", format!("rsig/panic.hash_and_sign_event.{ty}"), json!({"oracle":"rsig","panic":p,"event":clip(&rj::canonical(&before))}));
            return false;
        }
        match (&real, &model) {
            (Outcome::Ok(()), HashResult::Ok(())) => {
                let rj_ = conv::obj_to_j(&obj);
                if rj_.get("hashes") != j.get("hashes") {
                    self.violate(
                        "C05",
                        "rsha/content-hash".into(),
                        json!({"oracle":"rsha","event":clip(&rj::canonical(&before)),"real":rj::canonical(rj_.get("hashes").unwrap_or(&J::Null)),"expected":rj::canonical(j.get("hashes").unwrap_or(&J::Null)),
                               "hashed_bytes":clip(&revent::content_hash_input(&before))}),
                    );
                    return false;
                }
                if rj_ != *j {
                    let k = crate::sim::diff_key(&rj_, j);
                    self.violate(
                        "C03",
                        format!("rsig/hash_and_sign_event.{k}.{ty}"),
                        json!({"oracle":"rsig+rredact","room_version":v,"event":clip(&rj::canonical(&before)),"real":clip(&rj::canonical(&rj_)),"expected":clip(&rj::canonical(j))}),
                    );
                    return false;
                }
                self.bump("sign.event-compared");
                true
            }
            (Outcome::Err(_), HashResult::TooLarge(_)) => {
                self.bump("size.refused-above-limit");
                self.flag("c05.boundary");
                false
            }
            (Outcome::Ok(()), HashResult::TooLarge(nbytes)) => {
                self.violate("C05", "rsha/size-limit.accepted".into(), json!({"oracle":"rsha","hashed_bytes":nbytes,"limit":65535}));
                false
            }
            (Outcome::Err(e), HashResult::Ok(())) => {
                let len = revent::content_hash_input(&before).len();
                let sig = if len > 65_000 { "rsha/size-limit.refused-below-limit".to_string() } else { format!("rsig/hash_and_sign_event.refused.{ty}") };
                self.violate(if len > 65_000 { "C05" } else { "C03" }, sig, json!({"oracle":"rsig","real_error":e,"hashed_bytes":len,"event":clip(&rj::canonical(&before))}));
                false
            }
            _ => false,
        }
    }

    /// Auth events for a new event: the selection, looked up in the node's current state.
    fn select_auth(&mut self, n: usize, d: &Draft, state: &StateSet) -> Option<Vec<String>> {
        let v = self.cfg.v;
        let sel = rauth::select(&d.ty, &d.sender, d.state_key.as_deref(), &d.content, v);
        if self.servers[n].kind == Kind::Ruma {
            let real = real::auth_types(&d.ty, &d.sender, d.state_key.as_deref(), &conv::j_to_cj(&d.content), &self.rules.authorization);
            self.judge_selection(&d.ty, &d.sender, d.state_key.as_deref(), &d.content, &real, &sel);
            if self.stop() {
                return None;
            }
        }
        match sel {
            Selection::Ok(keys) => Some(keys.iter().filter_map(|k| state.get(k).cloned()).collect()),
            _ => None,
        }
    }

    /// I-sel (C09): selected (type, state_key) pairs.
    pub fn judge_selection(&mut self, ty: &str, sender: &str, sk: Option<&str>, content: &J, real: &Outcome<std::collections::BTreeSet<rauth::Key>>, model: &Selection) {
        let v = self.cfg.v;
        let membership = content.get("membership").and_then(|m| m.as_str()).unwrap_or("");
        let cell = if ty == "m.room.member" { format!("member.{membership}") } else { crate::node::short_type(ty).to_string() };
        let ev = json!({"type":ty,"sender":sender,"state_key":sk,"content":serde_json::from_str::<serde_json::Value>(&rj::canonical(content)).unwrap_or_default(),"room_version":v});
        if let Some(p) = real.panic() {
            self.violate("C09", format!("rsel/panic.{cell}"), json!({"oracle":"rsel","panic":p,"event":ev}));
            return;
        }
        match (real, model) {
            (_, Selection::Undecided(_)) => self.bump("sel.undecided"),
            (Outcome::Ok(r), Selection::Ok(m)) => {
                let mset: std::collections::BTreeSet<rauth::Key> = m.iter().cloned().collect();
                self.bump(&format!("sel.cell.{cell}"));
                if *r != mset {
                    let extra: Vec<_> = r.difference(&mset).map(|k| format!("{}|{}", k.0, k.1)).collect();
                    let missing: Vec<_> = mset.difference(r).map(|k| format!("{}|{}", k.0, k.1)).collect();
                    let what = if !missing.is_empty() { format!("missing.{}", crate::node::short_type(&mset.difference(r).next().unwrap().0)) } else { format!("extra.{}", crate::node::short_type(&r.difference(&mset).next().unwrap().0)) };
                    self.violate("C09", format!("rsel/{cell}.{what}"), json!({"oracle":"rsel","event":ev,"extra_in_real":extra,"missing_in_real":missing}));
                }
            }
            (Outcome::Ok(r), Selection::MustErr(why)) => {
                self.violate("C09", format!("rsel/{cell}.accepted-malformed"), json!({"oracle":"rsel","event":ev,"why":why,"real":r.iter().map(|k| format!("{}|{}",k.0,k.1)).collect::<Vec<_>>()}));
            }
            (Outcome::Err(e), Selection::Ok(_)) => {
                self.violate("C09", format!("rsel/{cell}.refused"), json!({"oracle":"rsel","event":ev,"real_error":e}));
            }
            _ => self.bump("sel.both-error"),
        }
    }

    /// Build, hash, sign, ingest locally and (if the origin accepts it, or is Byzantine) broadcast.
    pub fn create_event(&mut self, n: usize, d: Draft) -> Option<String> {
        if self.stop() || !self.servers[n].up {
            return None;
        }
        let v = self.cfg.v;
        let state = self.current_state(n)?;
        let prev: Vec<String> = match &d.prev {
            Some(p) => p.clone(),
            None => self.servers[n].extremities.iter().take(10).cloned().collect(),
        };
        if prev.is_empty() && d.ty != "m.room.create" {
            return None;
        }
        let mut auth = match &d.auth {
            Some(a) => a.clone(),
            None => self.select_auth(n, &d, &state)?,
        };
        // the order in which a server lists the auth events is its own business
        if auth.len() > 1 && self.t.chance(1, 2) {
            self.t.shuffle(&mut auth);
        }
        let depth = d.depth.unwrap_or_else(|| prev.iter().filter_map(|p| self.servers[n].have.get(p).map(|x| x.depth)).max().unwrap_or(0) + 1);
        let ts = d.ts.unwrap_or_else(|| self.node_time(n));
        let refs = |ids: &[String], sim: &Sim<'_>| -> J {
            if v <= 2 {
                J::Arr(ids.iter().map(|i| J::Arr(vec![J::Str(i.clone()), o(vec![("sha256", J::Str(sim.ref_hash_of(i)))])])).collect())
            } else {
                J::Arr(ids.iter().map(|i| J::Str(i.clone())).collect())
            }
        };
        let mut m: BTreeMap<String, J> = BTreeMap::new();
        m.insert("type".into(), J::Str(d.ty.clone()));
        m.insert("sender".into(), J::Str(d.sender.clone()));
        m.insert("room_id".into(), J::Str(self.room_id.clone()));
        m.insert("content".into(), d.content.clone());
        m.insert("origin_server_ts".into(), J::Int(ts));
        m.insert("depth".into(), J::Int(depth));
        m.insert("prev_events".into(), refs(&prev, self));
        m.insert("auth_events".into(), refs(&auth, self));
        if let Some(sk) = &d.state_key {
            m.insert("state_key".into(), J::Str(sk.clone()));
        }
        if let Some(r) = &d.redacts {
            m.insert("redacts".into(), J::Str(r.clone()));
        }
        if v <= 10 && self.t.chance(1, 2) {
            m.insert("origin".into(), J::Str(self.servers[n].name.clone()));
        }
        if v <= 2 {
            self.servers[n].next_local += 1;
            let local = format!("{}{}", self.servers[n].next_local, ["", "a", "Zz", "_x"][self.t.index(4)]);
            // a Byzantine server may name another server in the id, but never reuses an id (no equivocation)
            let (host, local) = match &d.foreign_id_server {
                Some(h) => (h.clone(), format!("byz{n}x{local}")),
                None => (self.servers[n].name.clone(), local),
            };
            m.insert("event_id".into(), J::Str(format!("${local}:{host}")));
        }
        if self.t.chance(1, 3) {
            let mut u = vec![("age_ts", J::Int(ts))];
            if d.pad_target.is_some() && self.t.chance(1, 2) {
                // a large `unsigned` must not count towards the size limit
                u.push(("org.x.big", J::Str("u".repeat(self.t.range(100, 60_000) as usize))));
                self.bump("size.boundary-with-large-unsigned");
            }
            m.insert("unsigned".into(), o(u));
        }
        if self.t.chance(1, 12) {
            // an event that already carries a hash of another algorithm
            m.insert("hashes".into(), o(vec![("org.x.blake", J::s("AAAA"))]));
            self.bump("sign.preexisting-hashes");
        }
        let mut j = J::Obj(m);
        gen::top_level_extras(self.t, &mut j);
        if let Some(target) = d.pad_target {
            // exact sizing with the reference encoder: the content hash covers the event without
            // hashes / signatures / unsigned, all of which are added later
            let len = revent::content_hash_input(&j).len();
            let body_len = j.get("content").and_then(|c| c.get("body")).and_then(|b| b.as_str()).map(|b| b.len()).unwrap_or(0);
            let want = (body_len as i64 + target as i64 - len as i64).max(0) as usize;
            let mut c = j.get("content").cloned().unwrap_or_else(J::obj);
            // the limit is in bytes: half of the boundary events are padded with multi-byte
            // characters, so that their length in characters is far below the limit
            let unit = *self.t.pick(&["p", "p", "\u{e9}", "\u{20ac}", "\u{1F600}"]);
            let mut body = unit.repeat(want / unit.len());
            body.push_str(&"p".repeat(want % unit.len()));
            if unit.len() > 1 {
                self.bump("size.boundary-multibyte-padding");
            }
            c.set("body", J::Str(body));
            j.set("content", c);
            let got = revent::content_hash_input(&j).len();
            self.bump(&format!("size.boundary.{}", got as i64 - 65_535));
        }
        if !self.sign_event_as(n, &mut j) {
            self.bump("create.refused-by-signing");
            return None;
        }
        if let Some(c) = d.countersign {
            if !self.countersign(c, &mut j) {
                return None;
            }
        }
        if let (Some(h), Kind::Byz) = (&d.bad_hash, self.servers[n].kind) {
            // a correctly signed event whose stored content hash is wrong / short / empty
            j.set("hashes", o(vec![("sha256", J::Str(h.clone()))]));
            j.set("signatures", J::obj());
            if !self.countersign(n, &mut j) {
                return None;
            }
            self.bump("byz.bad-stored-hash");
        }
        // an invite created from a third-party invite does not need its sender's server's
        // signature: sometimes only another server signs it
        let is_tpi_invite = d.ty == "m.room.member"
            && d.content.get("membership").and_then(|m| m.as_str()) == Some("invite")
            && d.content.get("third_party_invite").is_some_and(|x| x.as_obj().is_some());
        if is_tpi_invite && d.bad_hash.is_none() && self.servers.len() > 1 && self.t.chance(1, 3) {
            let mut other = self.t.index(self.servers.len() - 1);
            if other >= n {
                other += 1;
            }
            if self.servers[other].up {
                j.set("signatures", J::obj());
                if !self.countersign(other, &mut j) {
                    return None;
                }
                self.bump("sign.tpi-invite-without-sender-signature");
                self.flag("c03.tpi-exemption");
            }
        }
        let HashResult::Ok(id) = revent::event_id(&j, v) else { return None };
        let text = rj::canonical(&j);
        // observer's books
        if let Ok(ev) = conv::ev_from_j(&j, &id) {
            self.dag.entry(id.clone()).or_insert(ev);
        }
        self.texts.entry(id.clone()).or_insert_with(|| text.clone());
        let label = d.label.clone();
        let sname = self.servers[n].name.clone();
        self.mix(&format!("{}|{}|{}", d.label, d.ty, prev.len()));
        self.log(|| format!("{sname} creates {} [{label}] {} by {}{} prev={} auth={}", short_id(&id), d.ty, d.sender, d.state_key.as_ref().map(|k| format!(" key={k}")).unwrap_or_default(), prev.len(), auth.len()));
        // the origin processes its own event through the same pipeline
        self.on_pdu(n, n, &text, &Ledger::Clean, false);
        if self.stop() {
            return None;
        }
        let accepted = self.servers[n].have.get(&id).is_some_and(|x| x.accepted);
        if d.ty == "m.room.message" && accepted {
            self.message_ids.push(id.clone());
        }
        if accepted || self.servers[n].kind == Kind::Byz {
            for dst in 0..self.servers.len() {
                if dst != n {
                    self.send(n, dst, Msg::Pdu(text.clone()));
                }
            }
            self.bump(if accepted { "create.sent" } else { "create.sent-byzantine-rejected" });
        } else {
            self.bump("create.refused-by-own-auth");
        }
        Some(id)
    }

    pub fn ref_hash_of(&self, id: &str) -> String {
        match self.texts.get(id).and_then(|t| rj::parse(t).ok()) {
            Some(j) => match revent::reference_hash(&j, self.cfg.v) {
                HashResult::Ok(h) => h,
                _ => "AAAA".into(),
            },
            None => "AAAA".into(),
        }
    }

    /// A second server adds its signature to an event it received (invite v2, restricted join).
    pub fn countersign(&mut self, c: usize, j: &mut J) -> bool {
        let v = self.cfg.v;
        if !self.servers[c].up {
            return false;
        }
        let name = self.servers[c].name.clone();
        let mkey = self.model_key(c);
        let before = j.clone();
        // model: sign the redacted form and copy the signature back
        let revent::Redacted::Ok(mut red) = revent::redact(j, v) else { return false };
        if revent::sign_json(&mut red, &name, &mkey) != SignResult::Ok {
            return false;
        }
        j.set("signatures", red.get("signatures").cloned().unwrap_or_else(J::obj));
        if self.servers[c].kind == Kind::Ruma {
            let Some(mut obj) = conv::j_to_obj(&before) else { return false };
            let Some(kp) = self.servers[c].kp.as_ref() else { return false };
            let way = self.t.below(2);
            let real = if way == 0 {
                real::hash_and_sign_event(&name, kp, &mut obj, &self.rules)
            } else {
                // sign_json on the redacted form, copy the signature back
                match real::redact_via(&obj, &self.rules, None, 0) {
                    Outcome::Ok(mut r) => match real::sign_json(&name, kp, &mut r) {
                        Outcome::Ok(()) => {
                            if let Some(s) = r.get("signatures") {
                                obj.insert("signatures".into(), s.clone());
                            }
                            Outcome::Ok(())
                        }
                        other => other,
                    },
                    Outcome::Err(e) => Outcome::Err(e),
                    Outcome::Panic(p) => Outcome::Panic(p),
                }
            };
            let got = conv::obj_to_j(&obj);
            if !real.is_ok() || got != *j {
                self.violate(
                    "C03",
                    format!("rsig/countersign.{}", if way == 0 { "hash_and_sign_event" } else { "sign_json-on-redacted" }),
                    json!({"oracle":"rsig","note":"a second signer must add its signature and keep the first signer's entry","real_result":format!("{real:?}"),"real":clip(&rj::canonical(&got)),"expected":clip(&rj::canonical(j)),"before":clip(&rj::canonical(&before))}),
                );
                return false;
            }
            self.bump("sign.countersign-compared");
        }
        self.flag("c03.countersigned");
        true
    }

    // -----------------------------------------------------------------------------------------
    // room creation

    pub fn create_room(&mut self, n: usize) {
        let v = self.cfg.v;
        let creator = self.creator.clone();
        let mut c: BTreeMap<String, J> = BTreeMap::new();
        if v <= 10 {
            c.insert("creator".into(), J::Str(creator.clone()));
        } else if self.t.chance(1, 4) {
            // v11: the field is gone from the specification; a stale one (another user, or not even
            // a string) left behind by an old client means nothing
            let stale = if self.t.chance(1, 4) { J::Int(5) } else { J::Str(self.all_users[self.t.index(self.all_users.len())].clone()) };
            c.insert("creator".into(), stale);
            self.bump("act.v11-create-with-stale-creator-field");
        }
        c.insert("room_version".into(), J::Str(v.to_string()));
        if self.t.chance(1, 8) {
            c.insert("m.federate".into(), J::Bool(false));
            self.flag("room.not-federated");
        } else if self.t.chance(1, 4) {
            c.insert("m.federate".into(), J::Bool(true));
        }
        if self.t.chance(1, 3) {
            c.insert("org.x.extra".into(), gen::gen_json(self.t, 2));
        }
        let create = self.create_event(n, Draft { ty: "m.room.create".into(), sender: creator.clone(), state_key: Some("".into()), content: J::Obj(c), prev: Some(vec![]), auth: Some(vec![]), label: "create".into(), ..Default::default() });
        if create.is_none() {
            return;
        }
        let jc = gen::member_content(self.t, "join");
        self.create_event(n, Draft { ty: "m.room.member".into(), sender: creator.clone(), state_key: Some(creator.clone()), content: jc, label: "creator-join".into(), ..Default::default() });
        self.created_room = true;
    }

    // -----------------------------------------------------------------------------------------
    // simulated clients

    pub fn view(&mut self, n: usize) -> Option<(View, Rc<StateSet>)> {
        let st = self.current_state(n)?;
        let v = view_of(self, &self.servers[n].dag, &st);
        Some((v, st))
    }

    pub fn client_action(&mut self, n: usize) {
        if self.stop() || !self.servers[n].up {
            return;
        }
        let byz = self.servers[n].kind == Kind::Byz;
        let Some((view, state)) = self.view(n) else { return };
        let users = self.servers[n].users.clone();
        // most of the time a joined local user acts (otherwise nearly everything is refused)
        let joined_local: Vec<String> = users.iter().filter(|u| view.membership(u) == "join").cloned().collect();
        let actor = if !joined_local.is_empty() && self.t.chance(3, 4) { self.t.pick(&joined_local).clone() } else { self.t.pick(&users).clone() };
        let w = self.cfg.w.clone();
        // the first power-levels event: early in most runs, late in a third (DESIGN §4.3)
        if view.pl.is_none() && actor == self.creator && !(self.cfg.late_power_levels && self.actions_done < 8) && self.t.chance(1, 2) {
            let many = self.cfg.many_admins;
            let content = gen::initial_power_levels(self.t, &view, many);
            self.create_event(n, Draft { ty: "m.room.power_levels".into(), sender: actor, state_key: Some("".into()), content, label: "first-power-levels".into(), ..Default::default() });
            return;
        }
        if view.join_rule.is_none() && view.membership(&actor) == "join" && self.t.chance(1, 2) {
            let content = gen::gen_join_rules(self.t, &view);
            self.create_event(n, Draft { ty: "m.room.join_rules".into(), sender: actor, state_key: Some("".into()), content, label: "first-join-rules".into(), ..Default::default() });
            return;
        }
        let table: Vec<(&str, u32)> = vec![
            ("join", w.join), ("leave", w.leave), ("invite", w.invite), ("kick", w.kick), ("ban", w.ban), ("unban", w.unban), ("knock", w.knock),
            ("restricted_join", w.restricted_join), ("tpi", w.tpi), ("join_rules", w.join_rules), ("power_levels", w.power_levels), ("name", w.name),
            ("aliases", w.aliases), ("user_state", w.user_state), ("message", w.message), ("redaction", w.redaction), ("custom", w.custom),
        ];
        let total: u32 = table.iter().map(|x| x.1).sum();
        let mut r = self.t.below(total.max(1));
        let mut action = "message";
        for (name, wt) in &table {
            if r < *wt {
                action = name;
                break;
            }
            r -= wt;
        }
        let others: Vec<String> = view.all_users.iter().filter(|u| **u != actor).cloned().collect();
        let mut target = if others.is_empty() { actor.clone() } else { self.t.pick(&others).clone() };
        // plausible behaviour most of the time: outsiders try to get in, insiders pick targets the
        // action applies to; the remaining draws stay arbitrary (and are mostly refused)
        let am = view.membership(&actor).to_string();
        if am != "join" && self.t.chance(4, 5) {
            action = match (view.join_rule.as_deref(), am.as_str()) {
                (_, "ban") => "leave",
                (_, "invite") => "join",
                (Some("public"), _) => "join",
                (Some("knock"), "knock") | (Some("knock_restricted"), "knock") => "leave",
                (Some("knock"), _) => "knock",
                (Some("knock_restricted"), _) => {
                    if self.t.chance(1, 2) {
                        "knock"
                    } else {
                        "restricted_join"
                    }
                }
                (Some("restricted"), _) => "restricted_join",
                _ => return,
            };
        } else if am == "join" && self.t.chance(2, 3) {
            let ap = view.power(&actor);
            let pick_where = |t: &mut simcore::Tape, pred: &dyn Fn(&String) -> bool| -> Option<String> {
                let c: Vec<String> = others.iter().filter(|u| pred(u)).cloned().collect();
                if c.is_empty() {
                    None
                } else {
                    Some(t.pick(&c).clone())
                }
            };
            match action {
                "invite" => {
                    if let Some(x) = pick_where(self.t, &|u| matches!(view.membership(u), "leave" | "knock")) {
                        target = x;
                    }
                }
                "kick" | "ban" => {
                    if let Some(x) = pick_where(self.t, &|u| matches!(view.membership(u), "join" | "invite") && view.power(u) < ap) {
                        target = x;
                    }
                }
                _ => {}
            }
        }
        let mut d = Draft { sender: actor.clone(), label: action.to_string(), ..Default::default() };
        let member = |membership: &str, who: &str, t: &mut simcore::Tape| -> (String, Option<String>, J) { ("m.room.member".to_string(), Some(who.to_string()), gen::member_content(t, membership)) };
        match action {
            "join" => {
                if view.join_rule.is_none() && !byz {
                    return; // envelope: joins without a join_rules event are not judged
                }
                (d.ty, d.state_key, d.content) = member("join", &actor, self.t);
            }
            "leave" => (d.ty, d.state_key, d.content) = member("leave", &actor, self.t),
            "invite" => (d.ty, d.state_key, d.content) = member("invite", &target, self.t),
            "kick" => (d.ty, d.state_key, d.content) = member("leave", &target, self.t),
            "ban" => (d.ty, d.state_key, d.content) = member("ban", &target, self.t),
            "unban" => {
                let banned: Vec<String> = view.members.iter().filter(|(_, m)| *m == "ban").map(|(u, _)| u.clone()).collect();
                let who = if banned.is_empty() { target.clone() } else { self.t.pick(&banned).clone() };
                (d.ty, d.state_key, d.content) = member("leave", &who, self.t);
            }
            "knock" => {
                if view.join_rule.is_none() && !byz {
                    return;
                }
                (d.ty, d.state_key, d.content) = member("knock", &actor, self.t);
            }
            "restricted_join" => {
                if view.join_rule.is_none() {
                    return;
                }
                // pick an authorising user on another server, which countersigns
                let joined: Vec<String> = view.members.iter().filter(|(u, m)| *m == "join" && **u != actor).map(|(u, _)| u.clone()).collect();
                let via = if joined.is_empty() || self.t.chance(1, 6) { target.clone() } else { self.t.pick(&joined).clone() };
                (d.ty, d.state_key, d.content) = member("join", &actor, self.t);
                d.content.set("join_authorised_via_users_server", J::Str(via.clone()));
                match self.server_of(&via) {
                    Some(c) if c != n => {
                        if !self.t.chance(1, 10) {
                            d.countersign = Some(c);
                        } else {
                            self.bump("byz.missing-countersignature");
                        }
                    }
                    _ => {}
                }
                self.flag("act.restricted-join");
            }
            "tpi" => {
                // either a third_party_invite state event, or an invite that redeems one
                if view.tpi.is_empty() || self.t.chance(1, 2) {
                    let token = format!("tok{}", self.t.below(4));
                    let pk = refmodel::rb64::encode_std(&self.idserver.public());
                    let other_pk = refmodel::rb64::encode_std(&revent::SignKey::from_seed([7u8; 32], "0").public());
                    let mut c = vec![("display_name", J::s("a…@e…")), ("key_validity_url", J::s("https://id.example/_matrix/identity/v2/pubkey/isvalid"))];
                    match self.t.below(6) {
                        0 => c.push(("public_key", J::Str(pk.clone()))),
                        4 => {
                            // the signing key is the top-level one only; the list holds other keys
                            c.push(("public_key", J::Str(pk.clone())));
                            c.push(("public_keys", J::Arr(vec![o(vec![("public_key", J::Str(other_pk))])])));
                        }
                        5 => {
                            // an empty list next to the top-level key
                            c.push(("public_key", J::Str(pk.clone())));
                            c.push(("public_keys", J::Arr(vec![])));
                        }
                        1 => {
                            c.push(("public_key", J::Str(pk.clone())));
                            c.push(("public_keys", J::Arr(vec![o(vec![("public_key", J::Str(pk)), ("key_validity_url", J::s("https://id.example/valid"))])])));
                        }
                        2 => {
                            // the signing key is listed only further down the list
                            c.push(("public_key", J::Str(other_pk.clone())));
                            c.push(("public_keys", J::Arr(vec![o(vec![("public_key", J::Str(other_pk))]), o(vec![("public_key", J::Str(pk))])])));
                        }
                        _ => {
                            // no listed key belongs to the identity server: redeeming invites must fail
                            c.push(("public_key", J::Str(other_pk)));
                        }
                    }
                    d.ty = "m.room.third_party_invite".into();
                    d.state_key = Some(token);
                    d.content = o(c);
                } else {
                    let (token, tsender) = self.t.pick(&view.tpi).clone();
                    let sender = if self.t.chance(5, 6) && users.contains(&tsender) { tsender } else { actor.clone() };
                    d.sender = sender;
                    let mxid = if self.t.chance(5, 6) { target.clone() } else { actor.clone() };
                    let mut signed = o(vec![("mxid", J::Str(mxid)), ("token", J::Str(token))]);
                    self.sign_object_as_idserver(&mut signed);
                    (d.ty, d.state_key, d.content) = member("invite", &target, self.t);
                    d.content.set("third_party_invite", o(vec![("display_name", J::s("a…@e…")), ("signed", signed)]));
                    self.flag("act.third-party-invite");
                }
            }
            "join_rules" => {
                d.ty = "m.room.join_rules".into();
                d.state_key = Some("".into());
                d.content = gen::gen_join_rules(self.t, &view);
            }
            "power_levels" => {
                d.ty = "m.room.power_levels".into();
                d.state_key = Some("".into());
                d.content = gen::gen_power_levels(self.t, &view, &actor, true);
            }
            "name" => {
                d.ty = (*self.t.pick(&["m.room.name", "m.room.topic", "m.room.history_visibility"])).into();
                d.state_key = Some("".into());
                d.content = match d.ty.as_str() {
                    "m.room.history_visibility" => o(vec![("history_visibility", J::s(self.t.pick_s(&["shared", "joined", "invited", "world_readable"]))), ("x", gen::gen_json(self.t, 1))]),
                    "m.room.name" => o(vec![("name", J::s(self.t.pick_s(&gen::STR_ALPHABET)))]),
                    _ => o(vec![("topic", J::s(self.t.pick_s(&gen::STR_ALPHABET))), ("x", gen::gen_json(self.t, 2))]),
                };
            }
            "aliases" => {
                d.ty = "m.room.aliases".into();
                let sname = self.servers[n].name.clone();
                d.state_key = Some(if self.t.chance(4, 5) { sname.clone() } else { self.servers[self.t.index(self.servers.len())].name.clone() });
                d.content = o(vec![("aliases", J::Arr(vec![J::Str(format!("#a:{sname}"))])), ("other", J::Int(1))]);
            }
            "user_state" => {
                d.ty = "org.x.user_state".into();
                d.state_key = Some(if self.t.chance(1, 2) { actor.clone() } else { target.clone() });
                d.content = gen::gen_json(self.t, 2);
                if d.content.as_obj().is_none() {
                    d.content = o(vec![("v", d.content.clone())]);
                }
            }
            "redaction" => {
                let Some(tid) = (if view.message_ids.is_empty() { None } else { Some(self.t.pick(&view.message_ids).clone()) }) else { return };
                d.ty = "m.room.redaction".into();
                d.content = o(vec![("reason", J::s("spam"))]);
                if self.cfg.v >= 11 {
                    d.content.set("redacts", J::Str(tid.clone()));
                }
                d.redacts = Some(tid);
            }
            "custom" => {
                d.ty = (*self.t.pick(&["org.x.custom", "m.room.encrypted", "m.reaction"])).into();
                if self.t.chance(1, 3) {
                    d.state_key = Some(self.t.pick(&["", "k1", "k2"]).to_string());
                }
                d.content = gen::gen_json(self.t, 4);
                if d.content.as_obj().is_none() {
                    d.content = o(vec![("v", d.content.clone())]);
                }
            }
            _ => {
                d.ty = "m.room.message".into();
                d.content = gen::message_content(self.t);
                if self.cfg.big_events && self.t.chance(1, 6) {
                    self.pad_to_boundary(n, &mut d);
                }
            }
        }
        gen::key_confusion(self.t, &mut d.content, &view);
        if byz {
            self.byzantine_twist(n, &mut d, &view, &state);
        }
        self.bump(&format!("act.{action}"));
        self.create_event(n, d);
        self.actions_done += 1;
    }

    /// Size a message so that the hashed form lands at 65 535 ± {0,1,2} bytes (reference encoder).
    fn pad_to_boundary(&mut self, _n: usize, d: &mut Draft) {
        let target = 65_535i64 + (self.t.below(5) as i64 - 2);
        d.content.set("body", J::s("p"));
        d.pad_target = Some(target as usize);
        d.label = "boundary-size".into();
        self.bump("act.boundary-size");
    }

    /// The identity server signs a `signed` block (C02 flow): tape picks real or model signer.
    pub fn sign_object_as_idserver(&mut self, obj: &mut J) {
        let model_only = self.t.chance(1, 2);
        let before = obj.clone();
        let ok = revent::sign_json(obj, "id.example", &self.idserver);
        if ok != SignResult::Ok || model_only {
            return;
        }
        let Some(mut o2) = conv::j_to_obj(&before) else { return };
        let seed = self.idserver.sk.to_bytes();
        let Ok(kp) = real::keypair(&seed, &self.idserver.version) else { return };
        let real = real::sign_json("id.example", &kp, &mut o2);
        let got = conv::obj_to_j(&o2);
        if !real.is_ok() || got != *obj {
            self.violate("C02", "rsig/sign_json.bytes".into(), json!({"oracle":"rsig","real_result":format!("{real:?}"),"real":rj::canonical(&got),"expected":rj::canonical(obj),"object":rj::canonical(&before)}));
        } else {
            self.bump("sign.json-compared");
        }
    }

    // -----------------------------------------------------------------------------------------
    // Byzantine servers (DESIGN §4.4): correctly signed events an honest server would not send

    fn byzantine_twist(&mut self, n: usize, d: &mut Draft, view: &View, state: &StateSet) {
        // room versions 1-2: the event-id server rule deserves more than one twist in nine
        let twist = if view.v <= 2 && self.t.chance(1, 4) { 8 } else { self.t.below(9) };
        let dag_ids: Vec<String> = self.servers[n].have.keys().cloned().collect();
        match twist {
            0 => {
                // stale auth events: an older power-levels event
                let old_pl: Vec<String> = self.servers[n].have.iter().filter(|(_, x)| x.ev.ty == "m.room.power_levels" && x.accepted).map(|(i, _)| i.clone()).collect();
                if let (Some(Selection::Ok(keys)), false) = (Some(rauth::select(&d.ty, &d.sender, d.state_key.as_deref(), &d.content, view.v)), old_pl.is_empty()) {
                    let mut auth: Vec<String> = keys.iter().filter(|k| k.0 != "m.room.power_levels").filter_map(|k| state.get(k).cloned()).collect();
                    auth.push(self.t.pick(&old_pl).clone());
                    d.auth = Some(auth);
                    d.label.push_str("+stale-auth");
                }
            }
            1 => {
                // far-back prev_events (deep fork)
                if !dag_ids.is_empty() {
                    let acc: Vec<String> = self.servers[n].have.iter().filter(|(_, x)| x.accepted).map(|(i, _)| i.clone()).collect();
                    if !acc.is_empty() {
                        d.prev = Some(vec![self.t.pick(&acc).clone()]);
                        d.label.push_str("+old-prev");
                    }
                }
            }
            2 => {
                d.depth = Some(*self.t.pick(&[0i64, 1, 1_000_000, refmodel::rj::MAX_INT]));
                d.label.push_str("+depth");
            }
            3 => {
                // timestamps far in the past / future / equal to a rival's
                let rival = self.servers[n].have.values().next_back().map(|x| x.ev.ts);
                d.ts = Some(match self.t.below(3) {
                    0 => 1,
                    1 => refmodel::rj::MAX_INT,
                    _ => rival.unwrap_or(1),
                });
                d.label.push_str("+ts");
            }
            4 => {
                // no create event among the auth events
                if let Selection::Ok(keys) = rauth::select(&d.ty, &d.sender, d.state_key.as_deref(), &d.content, view.v) {
                    d.auth = Some(keys.iter().filter(|k| k.0 != "m.room.create").filter_map(|k| state.get(k).cloned()).collect());
                    d.label.push_str("+no-create-auth");
                }
            }
            5 => {
                // sender / state_key mismatch on a membership event
                if d.ty == "m.room.member" {
                    d.state_key = Some(self.t.pick(&view.all_users).clone());
                    d.label.push_str("+key-mismatch");
                }
            }
            6 => {
                // malformed-but-decidable content
                if d.ty == "m.room.member" {
                    match self.t.below(2) {
                        0 => {
                            d.content.remove("membership");
                        }
                        _ => d.content.set("membership", J::Int(1)),
                    }
                    d.label.push_str("+bad-membership");
                }
            }
            8 if view.v <= 2 => {
                // v1-2: mint the event id under another server's name
                let mut other = self.servers[self.t.index(self.servers.len())].name.clone();
                if self.t.chance(1, 3) {
                    // the same host under another port is another server name
                    let own = self.servers[n].name.clone();
                    let host = if own.starts_with('[') { own.split(']').next().unwrap_or("").to_string() + "]" } else { own.split(':').next().unwrap_or("").to_string() };
                    other = if own == host { format!("{host}:8448") } else { host };
                }
                d.foreign_id_server = Some(other);
                d.label.push_str("+foreign-event-id");
                self.flag("byz.foreign-event-id");
            }
            8 => {
                d.bad_hash = Some((*self.t.pick(&["abcd", "", "AAAAAAAAAAAAAAAAAAAAAAAAAAAAAAAAAAAAAAAAAAA", "AAAAAAAAAAAAAAAAAAAAAAAAAAAAAAAAAAAAAAAAAAAAAAAA"])).to_string());
                d.label.push_str("+bad-hash");
            }
            7 => {
                // power escalation
                d.ty = "m.room.power_levels".into();
                d.state_key = Some("".into());
                let mut c = view.pl.clone().unwrap_or_else(J::obj);
                let mut users = c.get("users").cloned().unwrap_or_else(J::obj);
                users.set(&d.sender.clone(), J::Int(100));
                c.set("users", users);
                d.content = c;
                d.label.push_str("+escalation");
            }
            _ => {}
        }
        self.bump("byz.twists");
    }
}
