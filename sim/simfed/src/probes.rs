//! Observer probes (DESIGN §4.4 "Probes", §4.6): candidate events and protocol flows evaluated
//! against a node's history-reached state without inserting anything into the room.

use std::collections::{BTreeMap, BTreeSet};
use std::rc::Rc;

use refmodel::rauth::{self, key, Ev, Key};
use refmodel::revent::{self, Redacted, SignKey, SignResult, VerifyExpect};
use refmodel::rj::{self, J};
use refmodel::rsr2::{self, StateSet};
use ruma_common::push::{PushCondition, PushConditionRoomCtx};
use ruma_common::serde::Raw;
use ruma_events::room::power_levels::{RoomPowerLevels, RoomPowerLevelsEventContent};
use ruma_events::{MessageLikeEventType, StateEventType};
use serde_json::json;

use crate::conv::{self, Pdu};
use crate::gen::{self, View};
use crate::node::{ev_json, state_json};
use crate::real::{self, Outcome};
use crate::sim::{clip, selection_set, Kind, Sim};

fn o(pairs: Vec<(&str, J)>) -> J {
    J::Obj(pairs.into_iter().map(|(k, v)| (k.to_string(), v)).collect())
}

impl<'a> Sim<'a> {
    pub fn probe(&mut self) {
        let rumas: Vec<usize> = (0..self.servers.len()).filter(|&i| self.servers[i].kind == Kind::Ruma && self.servers[i].up).collect();
        if rumas.is_empty() || !self.created_room {
            return;
        }
        let n = *self.t.pick(&rumas);
        let p = self.cfg.profile.clone();
        let k = self.cfg.probe_k;
        self.bump("probe.rounds");
        match p.as_str() {
            "C01" => {
                for _ in 0..k {
                    self.probe_json();
                }
            }
            "C02" => {
                for _ in 0..k.div_ceil(2) {
                    self.probe_sign();
                }
            }
            "C04" => {
                for _ in 0..k {
                    self.probe_redact();
                }
                self.probe_crypto_cross_version();
            }
            "C03" | "C05" => {
                for _ in 0..k.div_ceil(2) {
                    self.probe_redact();
                }
                self.probe_sign();
                self.probe_crypto_cross_version();
            }
            "C06" | "C07" => {
                if self.t.chance(1, 3) {
                    self.probe_second_room(n);
                }
                if self.t.chance(1, 2) {
                    self.probe_synthetic_room(n);
                }
                self.probe_subsets(n);
                for _ in 0..k.div_ceil(4) {
                    self.probe_toposort(n);
                }
                self.probe_auth(n, k.div_ceil(4));
            }
            _ => {
                self.probe_auth(n, k);
                if self.t.chance(1, 3) {
                    self.probe_subsets(n);
                }
            }
        }
    }

    // -----------------------------------------------------------------------------------------
    // C08 / C09 / C20

    fn synth_member(&mut self, user: &str, membership: &str, create_id: &str) -> Rc<Ev> {
        let idn = self.t.below(1_000_000);
        Rc::new(Ev {
            id: if self.cfg.v <= 2 { format!("$synth{idn}:x.example") } else { format!("$synth{idn}") },
            room_id: self.room_id.clone(),
            sender: user.to_string(),
            ty: "m.room.member".into(),
            state_key: Some(user.to_string()),
            content: o(vec![("membership", J::s(membership))]),
            ts: 1,
            prev: vec![],
            auth: vec![create_id.to_string()],
            redacts: None,
        })
    }

    fn synth_pl(&mut self, sender: &str, target: Option<&str>, create_id: &str) -> Rc<Ev> {
        let idn = self.t.below(1_000_000);
        let v = self.cfg.v;
        const L: [i64; 6] = [0, 25, 50, 51, 75, 100];
        let mut m: Vec<(&str, J)> = Vec::new();
        for f in ["ban", "kick", "invite", "redact", "events_default", "state_default", "users_default"] {
            if self.t.chance(2, 3) {
                let n = *self.t.pick(&L);
                m.push((f, gen::level_value(self.t, n, v, false)));
            }
        }
        let mut users: Vec<(&str, J)> = Vec::new();
        let creator = self.creator.clone();
        if self.t.chance(3, 4) {
            let n = *self.t.pick(&L);
            users.push((sender, gen::level_value(self.t, n, v, false)));
        }
        if let Some(tg) = target {
            if tg != sender && self.t.chance(3, 4) {
                let n = *self.t.pick(&L);
                users.push((tg, gen::level_value(self.t, n, v, false)));
            }
        }
        if creator != sender && Some(creator.as_str()) != target && self.t.chance(1, 2) {
            users.push((creator.as_str(), J::Int(100)));
        }
        if !users.is_empty() || self.t.chance(1, 2) {
            m.push(("users", o(users)));
        }
        Rc::new(Ev {
            id: if v <= 2 { format!("$synthpl{idn}:x.example") } else { format!("$synthpl{idn}") },
            room_id: self.room_id.clone(),
            sender: self.creator.clone(),
            ty: "m.room.power_levels".into(),
            state_key: Some(String::new()),
            content: o(m),
            ts: 2,
            prev: vec![],
            auth: vec![create_id.to_string()],
            redacts: None,
        })
    }

    /// Candidate events judged against the node's current state: real `auth_check` vs `rauth`,
    /// real `auth_types_for_event` vs `rsel`, non-interference perturbations, helper predicates.
    pub fn probe_auth(&mut self, n: usize, k: u32) {
        let Some((view, state)) = self.view(n) else { return };
        let Some(create_id) = state.get(&key("m.room.create", "")).cloned() else { return };
        let v = self.cfg.v;
        let tip: Vec<String> = self.servers[n].extremities.iter().take(1).cloned().collect();
        for i in 0..k {
            if self.stop() {
                return;
            }
            let cand = self.candidate(&view, &create_id, &tip, i);
            let ev = Rc::new(cand);
            let sel = rauth::select(&ev.ty, &ev.sender, ev.state_key.as_deref(), &ev.content, v);
            let real_sel = real::auth_types(&ev.ty, &ev.sender, ev.state_key.as_deref(), &conv::j_to_cj(&ev.content), &self.rules.authorization);
            self.judge_selection(&ev.ty, &ev.sender, ev.state_key.as_deref(), &ev.content, &real_sel, &sel);
            if self.stop() {
                return;
            }
            let Ok(pdu) = conv::pdu_from_ev(&ev) else { continue };
            // synthetic membership overrides widen the (sender × target) membership product
            let mut overrides: BTreeMap<Key, (Rc<Ev>, Pdu)> = BTreeMap::new();
            if self.t.chance(1, 2) {
                for who in [Some(ev.sender.clone()), ev.state_key.clone().filter(|k| k.starts_with('@'))].into_iter().flatten() {
                    if self.t.chance(1, 2) {
                        let m = *self.t.pick(&["join", "join", "invite", "leave", "ban", "knock"]);
                        let se = self.synth_member(&who, m, &create_id);
                        if let Ok(sp) = conv::pdu_from_ev(&se) {
                            overrides.insert(key("m.room.member", &who), (se, sp));
                        }
                    }
                }
            }
            // a synthetic power-levels entry widens the (sender level × target level × threshold) product
            if self.t.chance(1, 3) {
                let target = ev.state_key.clone().filter(|k| k.starts_with('@'));
                let se = self.synth_pl(&ev.sender, target.as_deref(), &create_id);
                if let Ok(sp) = conv::pdu_from_ev(&se) {
                    overrides.insert(key("m.room.power_levels", ""), (se, sp));
                    self.bump("probe.synthetic-power-levels");
                }
            }
            let verdict = {
                let dag = &self.servers[n].dag;
                let look = |t: &str, kk: &str| overrides.get(&key(t, kk)).map(|x| x.0.clone()).or_else(|| state.get(&key(t, kk)).and_then(|id| dag.get(id)).cloned());
                rauth::auth(&ev, &rauth::Ctx { v, state: &look })
            };
            let (real, reads) = {
                let node = &self.servers[n];
                let look = |kk: &Key| overrides.get(kk).map(|x| x.1.clone()).or_else(|| state.get(kk).and_then(|id| node.have.get(id)).and_then(|x| x.pdu.clone()));
                real::auth_check(&self.rules.authorization, &pdu, &look)
            };
            // the state shown in a report must include the overrides
            let mut shown: StateSet = (*state).clone();
            for (kk, (se, _)) in &overrides {
                shown.insert(kk.clone(), se.id.clone());
                self.servers[n].dag.insert(se.id.clone(), se.clone());
            }
            self.judge_auth(&ev, &shown, &real, &reads, &verdict, "probe", n);
            for (_, (se, _)) in &overrides {
                self.servers[n].dag.remove(&se.id);
            }
            self.bump("probe.candidates");
            if self.stop() {
                return;
            }
            // I-ni (C09): perturb entries outside the selection; the verdict must not move
            if let Some(selset) = selection_set(&sel) {
                self.perturb(n, &ev, &pdu, &state, &overrides, &selset, &real);
                if self.stop() {
                    return;
                }
            }
        }
        if v >= 3 {
            self.probe_helpers(n, &view, &state, &create_id);
        }
    }

    fn perturb(&mut self, n: usize, ev: &Rc<Ev>, pdu: &Pdu, state: &StateSet, overrides: &BTreeMap<Key, (Rc<Ev>, Pdu)>, selset: &BTreeSet<Key>, base: &Outcome<()>) {
        let outside: Vec<Key> = state.keys().filter(|k| !selset.contains(*k)).cloned().collect();
        let mode = self.t.below(3);
        let mut changed: Option<(Key, String)> = None;
        let mut removed: Option<Key> = None;
        let mut added: Option<(Key, String)> = None;
        match mode {
            0 if !outside.is_empty() => removed = Some(self.t.pick(&outside).clone()),
            1 if !outside.is_empty() => {
                // replace by another accepted event of the same type from the DAG
                let kx = self.t.pick(&outside).clone();
                let same: Vec<String> = self.servers[n].have.iter().filter(|(id, x)| x.accepted && x.ev.ty == kx.0 && x.ev.state_key.is_some() && Some(*id) != state.get(&kx)).map(|(id, _)| id.clone()).collect();
                if same.is_empty() {
                    removed = Some(kx);
                } else {
                    changed = Some((kx, self.t.pick(&same).clone()));
                }
            }
            _ => {
                // add an entry at a key that is neither in the state nor in the selection
                let cands: Vec<(Key, String)> = self
                    .servers[n]
                    .have
                    .iter()
                    .filter(|(_, x)| x.accepted && x.ev.state_key.is_some())
                    .map(|(id, x)| (key(&x.ev.ty, &format!("{}~extra", x.ev.state_key.clone().unwrap())), id.clone()))
                    .filter(|(kk, _)| !selset.contains(kk))
                    .collect();
                if cands.is_empty() {
                    return;
                }
                added = Some(self.t.pick(&cands).clone());
            }
        }
        let touched = removed.clone().or(changed.clone().map(|c| c.0)).or(added.clone().map(|a| a.0));
        let Some(touched) = touched else { return };
        let (again, _) = {
            let node = &self.servers[n];
            let look = |kk: &Key| {
                if let Some(x) = overrides.get(kk) {
                    return Some(x.1.clone());
                }
                if removed.as_ref() == Some(kk) {
                    return None;
                }
                if let Some((ck, cid)) = &changed {
                    if ck == kk {
                        return node.have.get(cid).and_then(|x| x.pdu.clone());
                    }
                }
                if let Some((ak, aid)) = &added {
                    if ak == kk {
                        return node.have.get(aid).and_then(|x| x.pdu.clone());
                    }
                }
                state.get(kk).and_then(|id| node.have.get(id)).and_then(|x| x.pdu.clone())
            };
            real::auth_check(&self.rules.authorization, pdu, &look)
        };
        self.bump("ni.perturbations");
        if matches!(touched.0.as_str(), "m.room.join_rules" | "m.room.power_levels" | "m.room.member" | "m.room.third_party_invite") {
            self.flag("c09.perturbed-auth-type");
            self.bump("ni.perturbed-auth-relevant-type");
        }
        if again.is_ok() != base.is_ok() {
            let membership = ev.content.get("membership").and_then(|m| m.as_str()).unwrap_or("");
            let cell = if ev.ty == "m.room.member" { format!("member.{membership}") } else { crate::node::short_type(&ev.ty).to_string() };
            self.violate(
                "C09",
                format!("rsel/interference.{cell}.{}", crate::node::short_type(&touched.0)),
                json!({"oracle":"non-interference","event":ev_json(ev),"perturbed_key":[touched.0,touched.1],"mode":(["remove","replace","add"][mode as usize]),
                       "verdict_before":format!("{base:?}"),"verdict_after":format!("{again:?}"),"state":state_json(state)}),
            );
        }
    }

    fn candidate(&mut self, view: &View, create_id: &str, tip: &[String], i: u32) -> Ev {
        let v = self.cfg.v;
        // senders are mostly joined users (otherwise one rule swallows nearly every candidate)
        let joined: Vec<String> = view.all_users.iter().filter(|u| view.membership(u) == "join").cloned().collect();
        let actor = if !joined.is_empty() && self.t.chance(2, 3) { self.t.pick(&joined).clone() } else { self.t.pick(&view.all_users).clone() };
        let others: Vec<String> = view.all_users.iter().filter(|u| **u != actor).cloned().collect();
        let target = if others.is_empty() { actor.clone() } else { self.t.pick(&others).clone() };
        let mut ty = "m.room.member".to_string();
        let mut sk: Option<String> = None;
        let mut content;
        let mut redacts = None;
        let mut prev_override: Option<Vec<String>> = None;
        match self.t.below(20) {
            16 => {
                // a second m.room.create: with / without prev events, creator present / absent
                ty = "m.room.create".into();
                sk = Some("".into());
                let mut c = BTreeMap::new();
                if v > 10 || self.t.chance(2, 3) {
                    // (from v11 the field means nothing: a stale or malformed one changes nothing)
                    let cr = match self.t.below(6) {
                        0 => J::Str(target.clone()),
                        1 if v > 10 => J::Int(5),
                        _ => J::Str(actor.clone()),
                    };
                    c.insert("creator".to_string(), cr);
                }
                c.insert("room_version".to_string(), J::Str(v.to_string()));
                content = J::Obj(c);
                if self.t.chance(1, 2) {
                    prev_override = Some(vec![]);
                }
            }
            17 => {
                // membership event without a state key
                let m = *self.t.pick(&["join", "leave", "invite", "ban"]);
                content = gen::member_content(self.t, m);
                sk = None;
            }
            18 => {
                // third-party invite with pieces missing
                sk = Some(target.clone());
                content = gen::member_content(self.t, "invite");
                let token = view.tpi.first().map(|x| x.0.clone()).unwrap_or_else(|| "tok0".into());
                let tpi = match self.t.below(5) {
                    0 => o(vec![("display_name", J::s("x"))]),
                    1 => o(vec![("signed", o(vec![("token", J::Str(token))]))]),
                    2 => o(vec![("signed", o(vec![("mxid", J::Str(target.clone()))]))]),
                    3 => o(vec![("signed", o(vec![("mxid", J::Str(target.clone())), ("token", J::Str(token))]))]),
                    _ => J::s("not-an-object"),
                };
                content.set("third_party_invite", tpi);
            }
            19 => {
                // restricted join authorised by a joined user (whose level may be too low)
                sk = Some(actor.clone());
                content = gen::member_content(self.t, "join");
                let via = if joined.is_empty() { target.clone() } else { self.t.pick(&joined).clone() };
                content.set("join_authorised_via_users_server", J::Str(via));
            }
            0 => {
                (sk, content) = (Some(actor.clone()), gen::member_content(self.t, "join"));
                // the creator's first join is recognised by its prev_events: exactly the create event
                if self.t.chance(1, 3) {
                    prev_override = Some(match self.t.below(5) {
                        0 => vec![],
                        1 => vec![create_id.to_string()],
                        2 => vec![create_id.to_string(), create_id.to_string()],
                        3 => {
                            let mut p = vec![create_id.to_string()];
                            p.extend(tip.iter().cloned());
                            p
                        }
                        _ => tip.to_vec(),
                    });
                }
            }
            1 => (sk, content) = (Some(actor.clone()), gen::member_content(self.t, "leave")),
            2 => (sk, content) = (Some(target.clone()), gen::member_content(self.t, "invite")),
            3 => (sk, content) = (Some(target.clone()), gen::member_content(self.t, "leave")),
            4 => (sk, content) = (Some(target.clone()), gen::member_content(self.t, "ban")),
            5 => (sk, content) = (Some(actor.clone()), gen::member_content(self.t, "knock")),
            6 => {
                // restricted join
                sk = Some(actor.clone());
                content = gen::member_content(self.t, "join");
                content.set("join_authorised_via_users_server", J::Str(target.clone()));
            }
            7 => {
                // invite redeeming a third-party invite
                sk = Some(target.clone());
                content = gen::member_content(self.t, "invite");
                let token = view.tpi.first().map(|x| x.0.clone()).unwrap_or_else(|| "tok0".into());
                let mx = match self.t.below(6) {
                    0 => actor.clone(),
                    1 => target.to_uppercase(),
                    _ => target.clone(),
                };
                let mut signed = o(vec![("mxid", J::Str(mx)), ("token", J::Str(token))]);
                if self.t.chance(4, 5) {
                    let _ = revent::sign_json(&mut signed, "id.example", &self.idserver);
                } else if self.t.chance(1, 2) {
                    let other = SignKey::from_seed([9u8; 32], "0");
                    let _ = revent::sign_json(&mut signed, "id.example", &other);
                }
                if self.t.chance(1, 3) {
                    // further entities under the same key id whose signatures verify under no key
                    let other = SignKey::from_seed([9u8; 32], "0");
                    for ent in ["aa.example", "zz.example"] {
                        if self.t.chance(1, 2) {
                            let _ = revent::sign_json(&mut signed, ent, &other);
                        }
                    }
                }
                content.set("third_party_invite", o(vec![("display_name", J::s("x")), ("signed", signed)]));
            }
            8 => (ty, sk, content) = ("m.room.power_levels".into(), Some("".into()), gen::gen_power_levels(self.t, view, &actor, true)),
            9 => (ty, sk, content) = ("m.room.join_rules".into(), Some("".into()), gen::gen_join_rules(self.t, view)),
            10 => (ty, sk, content) = ("m.room.third_party_invite".into(), Some("tok1".into()), o(vec![("display_name", J::s("x")), ("public_key", J::s("AAAA"))])),
            11 => {
                ty = "m.room.aliases".into();
                let host = revent::server_of_user(if self.t.chance(3, 4) { &actor } else { &target }).unwrap_or("x").to_string();
                sk = Some(host);
                content = o(vec![("aliases", J::Arr(vec![]))]);
            }
            12 => {
                ty = "m.room.redaction".into();
                content = o(vec![("reason", J::s("r"))]);
                let tid = if v <= 2 || self.t.chance(1, 3) {
                    match self.t.below(5) {
                        0 | 1 => format!("$m1:{}", revent::server_of_user(&actor).unwrap_or("x")),
                        2 | 3 => format!("$m1:{}", revent::server_of_user(&target).unwrap_or("x")),
                        _ => "$m1:elsewhere.example".to_string(),
                    }
                } else {
                    "$someevent".to_string()
                };
                if v >= 11 {
                    content.set("redacts", J::Str(tid.clone()));
                }
                redacts = Some(tid);
            }
            13 => {
                ty = "org.x.user_state".into();
                sk = Some(match self.t.below(6) {
                    0 | 1 => actor.clone(),
                    2 | 3 => target.clone(),
                    // starts with '@' without being anybody's user id: still "another user's" key
                    4 => (*self.t.pick(&["@", "@alice", "@alice:", "@:x", "@é:example.org"])).to_string(),
                    _ => format!("{actor}x"),
                });
                content = o(vec![("x", J::Int(1))]);
            }
            14 => (ty, sk, content) = ((*self.t.pick(&["m.room.name", "m.room.topic", "org.x.custom"])).into(), Some("".into()), o(vec![("name", J::s("n"))])),
            _ => (ty, content) = ((*self.t.pick(&["m.room.message", "org.x.custom", "m.room.encrypted"])).into(), gen::message_content(self.t)),
        }
        gen::key_confusion(self.t, &mut content, view);
        // Byzantine variations of malformed-but-decidable content
        if ty == "m.room.member" && self.t.chance(1, 20) {
            match self.t.below(3) {
                0 => {
                    content.remove("membership");
                }
                1 => content.set("membership", J::Int(3)),
                _ => content.set("membership", J::s("org.x.unknown")),
            }
        }
        let sel = rauth::select(&ty, &actor, sk.as_deref(), &content, v);
        let mut auth: Vec<String> = vec![];
        let _ = sel;
        // honest-shaped: the create event is among the auth events (dropped in 1 of 12 candidates)
        if !self.t.chance(1, 12) {
            auth.push(create_id.to_string());
        }
        // v1-2: the event ID's server is chosen by whoever creates the event; it need not be the sender's
        let id = if v <= 2 {
            let idhost = match self.t.below(6) {
                0 => revent::server_of_user(&target).unwrap_or("x").to_string(),
                1 => "elsewhere.example".to_string(),
                _ => revent::server_of_user(&actor).unwrap_or("x").to_string(),
            };
            format!("$probe{i}:{idhost}")
        } else {
            format!("$probe{i}")
        };
        Ev { id, room_id: self.room_id.clone(), sender: actor, ty, state_key: sk, content, ts: 5, prev: prev_override.unwrap_or_else(|| tip.to_vec()), auth, redacts }
    }

    /// I-plh (C20): helper predicates on the typed power levels vs. the real `auth_check`.
    fn probe_helpers(&mut self, n: usize, view: &View, state: &StateSet, create_id: &str) {
        let Some(plj) = &view.pl else { return };
        let text = rj::canonical(plj);
        let Ok(content) = serde_json::from_str::<RoomPowerLevelsEventContent>(&text) else {
            self.bump("plh.content-not-deserializable");
            return;
        };
        let pl: RoomPowerLevels = content.into();
        let v = self.cfg.v;
        let users = view.all_users.clone();
        let rounds = 1 + self.t.below(3);
        for _ in 0..rounds {
            if self.stop() {
                return;
            }
            let actor = self.t.pick(&users).clone();
            let others: Vec<String> = users.iter().filter(|u| **u != actor).cloned().collect();
            if others.is_empty() {
                return;
            }
            let target = self.t.pick(&others).clone();
            let (Ok(actor_id), Ok(target_id)) = (<&ruma_common::UserId>::try_from(actor.as_str()), <&ruma_common::UserId>::try_from(target.as_str())) else { return };
            let action = self.t.below(9);
            let target_membership = match action {
                0 => *self.t.pick(&["join", "invite", "leave", "ban", "knock"]), // ban
                1 => *self.t.pick(&["join", "invite", "leave", "knock"]),        // kick
                2 => "ban",                                                       // unban
                3 => *self.t.pick(&["leave", "invite", "knock"]),                // invite
                _ => "join",
            };
            let a_ev = self.synth_member(&actor, "join", create_id);
            let t_ev = self.synth_member(&target, target_membership, create_id);
            let (Ok(a_pdu), Ok(t_pdu)) = (conv::pdu_from_ev(&a_ev), conv::pdu_from_ev(&t_ev)) else { return };
            let mk = |ty: &str, sk: Option<String>, content: J, me: &Sim<'_>| -> Ev {
                Ev { id: "$helperprobe".into(), room_id: me.room_id.clone(), sender: actor.clone(), ty: ty.into(), state_key: sk, content, ts: 7, prev: vec![], auth: vec![create_id.to_string()], redacts: None }
            };
            let (helper, name, ev): (bool, String, Ev) = match action {
                0 => (pl.user_can_ban_user(actor_id, target_id), "user_can_ban_user".into(), mk("m.room.member", Some(target.clone()), o(vec![("membership", J::s("ban"))]), self)),
                1 => (pl.user_can_kick_user(actor_id, target_id), "user_can_kick_user".into(), mk("m.room.member", Some(target.clone()), o(vec![("membership", J::s("leave"))]), self)),
                2 => (pl.user_can_unban_user(actor_id, target_id), "user_can_unban_user".into(), mk("m.room.member", Some(target.clone()), o(vec![("membership", J::s("leave"))]), self)),
                3 => (pl.user_can_invite(actor_id), "user_can_invite".into(), mk("m.room.member", Some(target.clone()), o(vec![("membership", J::s("invite"))]), self)),
                4 => {
                    let ty = *self.t.pick(&["m.room.message", "m.reaction", "org.x.custom", "m.room.encrypted", "m.room.redaction"]);
                    if ty == "m.room.redaction" && v <= 2 {
                        continue;
                    }
                    (pl.user_can_send_message(actor_id, MessageLikeEventType::from(ty)), format!("user_can_send_message({ty})"), mk(ty, None, o(vec![("body", J::s("b"))]), self))
                }
                5 => {
                    let ty = *self.t.pick(&["m.room.name", "m.room.topic", "org.x.custom", "m.room.join_rules", "m.room.history_visibility", "m.room.encryption", "m.room.power_levels"]);
                    // (a power-levels event that changes nothing passes the change rules, so its verdict is the level check)
                    let c = if ty == "m.room.join_rules" { o(vec![("join_rule", J::s("public"))]) } else if ty == "m.room.power_levels" { plj.clone() } else { o(vec![("x", J::Int(1))]) };
                    (pl.user_can_send_state(actor_id, StateEventType::from(ty)), format!("user_can_send_state({ty})"), mk(ty, Some("".into()), c, self))
                }
                8 => {
                    // changing a user's level: the counterpart is the power-levels event that differs
                    // from the current one in that user's entry only - lowered by one where there is an
                    // entry (or for oneself), added at the acting user's own level where there is none
                    let num = |j: Option<&J>| -> Option<i64> {
                        match j {
                            Some(J::Int(i)) => Some(*i),
                            Some(J::Str(st)) => st.trim().parse().ok(),
                            _ => None,
                        }
                    };
                    let users_j = plj.get("users").cloned().unwrap_or_else(J::obj);
                    if users_j.as_obj().is_none() {
                        continue;
                    }
                    let actor_level = num(users_j.get(&actor)).or_else(|| num(plj.get("users_default"))).unwrap_or(0);
                    let cur_entry = num(users_j.get(&target));
                    let who = if self.t.chance(1, 5) { actor.clone() } else { target.clone() };
                    let new_val = if who == actor { actor_level - 1 } else { cur_entry.map(|c| c - 1).unwrap_or(actor_level) };
                    if new_val.abs() > 1_000_000 {
                        continue;
                    }
                    let mut u2 = users_j.clone();
                    u2.set(&who, J::Int(new_val));
                    let mut c2 = plj.clone();
                    c2.set("users", u2);
                    let Ok(who_id) = <&ruma_common::UserId>::try_from(who.as_str()) else { return };
                    let direct = pl.user_can_change_user_power_level(actor_id, who_id);
                    let via = pl.user_can_do_to_user(actor_id, who_id, ruma_events::room::power_levels::PowerLevelUserAction::ChangePowerLevel);
                    if direct != via {
                        self.violate("C20", "plh/user_can_do_to_user.dispatch".into(), json!({"action":"ChangePowerLevel","direct":direct,"via_dispatch":via}));
                        return;
                    }
                    (direct, "user_can_change_user_power_level".into(), mk("m.room.power_levels", Some("".into()), c2, self))
                }
                6 => {
                    // notifications: the push condition is the counterpart
                    // the context is built from the event content by the specification's defaults, not
                    // through ruma's own RoomPowerLevels conversion (that conversion is compared below)
                    let lvl = |j: Option<&J>| -> Option<i64> {
                        match j {
                            Some(J::Int(i)) => Some(*i),
                            Some(J::Str(st)) => st.trim().parse().ok(),
                            _ => None,
                        }
                    };
                    let mut cusers = BTreeMap::new();
                    if let Some(us) = plj.get("users").and_then(|u| u.as_obj()) {
                        for (u, l) in us {
                            if let (Ok(uid), Some(l)) = (ruma_common::OwnedUserId::try_from(u.as_str()), lvl(Some(l))) {
                                cusers.insert(uid, js_int::Int::new(l).unwrap_or_default());
                            }
                        }
                    }
                    let mut notif = ruma_common::power_levels::NotificationPowerLevels::new();
                    notif.room = js_int::Int::new(lvl(plj.get("notifications").and_then(|nf| nf.get("room"))).unwrap_or(50)).unwrap_or_default();
                    let own_ctx = ruma_common::push::PushConditionPowerLevelsCtx {
                        users: cusers,
                        users_default: js_int::Int::new(lvl(plj.get("users_default")).unwrap_or(0)).unwrap_or_default(),
                        notifications: notif,
                    };
                    let converted: ruma_common::push::PushConditionPowerLevelsCtx = pl.clone().into();
                    if converted.users != own_ctx.users || converted.users_default != own_ctx.users_default || converted.notifications.room != own_ctx.notifications.room {
                        self.violate("C20", "plh/push-context-conversion".into(), json!({"oracle":"specification defaults","converted":format!("{converted:?}"),"expected":format!("{own_ctx:?}"),"power_levels":serde_json::from_str::<serde_json::Value>(&text).unwrap_or_default()}));
                        return;
                    }
                    let ctx = PushConditionRoomCtx {
                        room_id: ruma_common::OwnedRoomId::try_from(self.room_id.as_str()).unwrap(),
                        member_count: js_int::uint!(3),
                        user_id: target_id.to_owned(),
                        user_display_name: "t".into(),
                        power_levels: Some(own_ctx),
                    };
                    let evraw: Raw<serde_json::Value> = Raw::new(&json!({"sender": actor, "type": "m.room.message", "content": {"body": "@room"}})).unwrap();
                    let flat = ruma_common::push::FlattenedJson::from_raw(&evraw);
                    let cond = PushCondition::SenderNotificationPermission { key: "room".into() };
                    let applies = simcore::guarded(|| cond.applies(&flat, &ctx));
                    let helper = pl.user_can_trigger_room_notification(actor_id);
                    self.bump("plh.compared.notifications");
                    match applies {
                        Ok(a) if a == helper => {}
                        other => {
                            self.violate("C20", "plh/user_can_trigger_room_notification".into(), json!({"oracle":"push-condition","helper":helper,"condition":format!("{other:?}"),"actor":actor,"power_levels":serde_json::from_str::<serde_json::Value>(&text).unwrap_or_default()}));
                            return;
                        }
                    }
                    continue;
                }
                _ => {
                    // effective level: the level the authorization code computes for the user
                    let Some(pl_id) = state.get(&key("m.room.power_levels", "")) else { continue };
                    let Some(pl_pdu) = self.servers[n].have.get(pl_id).and_then(|x| x.pdu.clone()) else { continue };
                    let rules = self.rules.authorization.clone();
                    let lvl = simcore::guarded(|| ruma_state_res::events::RoomPowerLevelsEvent::new(pl_pdu).user_power_level(target_id, &rules));
                    let helper = pl.for_user(target_id);
                    self.bump("plh.compared.for_user");
                    match lvl {
                        Ok(Ok(l)) if l == helper => {}
                        Ok(Err(_)) => self.bump("plh.auth-side-error"),
                        other => {
                            self.violate("C20", "plh/for_user".into(), json!({"oracle":"state-res power level","helper":i64::from(helper),"auth_side":format!("{other:?}"),"user":target,"power_levels":serde_json::from_str::<serde_json::Value>(&text).unwrap_or_default()}));
                            return;
                        }
                    }
                    continue;
                }
            };
            let Ok(pdu) = conv::pdu_from_ev(&Rc::new(ev.clone())) else { continue };
            let (real, _) = {
                let node = &self.servers[n];
                let look = |kk: &Key| {
                    if *kk == key("m.room.member", &actor) {
                        return Some(a_pdu.clone());
                    }
                    if *kk == key("m.room.member", &target) {
                        return Some(t_pdu.clone());
                    }
                    state.get(kk).and_then(|id| node.have.get(id)).and_then(|x| x.pdu.clone())
                };
                real::auth_check(&self.rules.authorization, &pdu, &look)
            };
            if let Some(p) = real.panic() {
                self.violate("C08", "rauth/panic.helper-probe".into(), json!({"panic":p,"event":ev_json(&ev)}));
                return;
            }
            // a non-federated room rejects foreign senders whatever their level: not a helper matter
            let create_ok = self.servers[n].dag.get(create_id).map(|c| c.content.get("m.federate") != Some(&J::Bool(false)) || revent::server_of_user(&c.sender) == revent::server_of_user(&actor)).unwrap_or(true);
            if !create_ok {
                self.bump("plh.skipped-non-federated");
                continue;
            }
            self.bump(&format!("plh.compared.{}", name.split('(').next().unwrap_or("x")));
            self.flag("c20.compared");
            if real.is_ok() != helper {
                self.violate(
                    "C20",
                    format!("plh/{}", name.split('(').next().unwrap_or("x")),
                    json!({"oracle":"real auth_check","helper":name,"helper_says":helper,"auth_check":format!("{real:?}"),"actor":actor,"target":target,"target_membership":target_membership,
                           "room_version":v,"power_levels":serde_json::from_str::<serde_json::Value>(&text).unwrap_or_default(),"event":ev_json(&ev)}),
                );
                return;
            }
        }
    }

    // -----------------------------------------------------------------------------------------
    // C07: subset resolution, exposed sort

    pub fn probe_subsets(&mut self, n: usize) {
        let acc: Vec<String> = self.servers[n].have.iter().filter(|(_, x)| x.accepted).map(|(i, _)| i.clone()).collect();
        if acc.len() < 3 {
            return;
        }
        let k = 2 + self.t.below(3) as usize;
        let mut sets: Vec<Rc<StateSet>> = Vec::new();
        for _ in 0..k {
            let id = self.t.pick(&acc).clone();
            sets.push(self.servers[n].have[&id].state_after.clone());
        }
        // a third of the probes thin the sets out (arbitrary state sets are legal input: partial
        // states, a set holding only the create event and hence an empty auth chain, ...)
        if self.t.chance(1, 3) {
            let mut thinned = Vec::new();
            for s in &sets {
                let keep_pct = *self.t.pick(&[10u32, 40, 70, 90]);
                let mut m: StateSet = s.iter().filter(|_| self.t.chance(keep_pct, 100)).map(|(k, v)| (k.clone(), v.clone())).collect();
                if m.is_empty() {
                    if let Some((k, v)) = s.iter().next() {
                        m.insert(k.clone(), v.clone());
                    }
                }
                thinned.push(Rc::new(m));
            }
            sets = thinned;
            self.bump("probe.thinned-subset-resolutions");
        }
        self.odd_set_shapes(&mut sets);
        self.bump("probe.subset-resolutions");
        self.resolve_on(n, &sets, "subset-probe");
    }

    /// Unusual but legal collections of state sets: an empty set among the others, a set that is a
    /// subset of another one, the same set twice.
    fn odd_set_shapes(&mut self, sets: &mut Vec<Rc<StateSet>>) {
        if sets.is_empty() || !self.t.chance(1, 4) {
            return;
        }
        match self.t.below(3) {
            0 => {
                let at = self.t.index(sets.len() + 1);
                sets.insert(at, Rc::new(StateSet::new()));
                self.bump("probe.resolution-with-empty-state-set");
            }
            1 => {
                let src = sets[self.t.index(sets.len())].clone();
                let keep_pct = *self.t.pick(&[30u32, 60, 90]);
                let sub: StateSet = src.iter().filter(|_| self.t.chance(keep_pct, 100)).map(|(k, v)| (k.clone(), v.clone())).collect();
                let at = self.t.index(sets.len() + 1);
                sets.insert(at, Rc::new(sub));
                self.bump("probe.resolution-with-subset-of-another-set");
            }
            _ => {
                let src = sets[self.t.index(sets.len())].clone();
                let at = self.t.index(sets.len() + 1);
                sets.insert(at, src);
                self.bump("probe.resolution-with-repeated-set");
            }
        }
    }

    /// A small second room resolved on the same thread (and in the same process) as the main room:
    /// anything a resolution wrongly keeps between calls (a static or thread-local cache of the
    /// creator, of parsed power levels, of depths) is wrong for this room or for the main room's
    /// next call. Goes through the same oracles as every other resolution.
    pub fn probe_second_room(&mut self, n: usize) {
        let v = self.cfg.v;
        let host = *self.t.pick(&["other.example", "second.test:8448", "10.9.8.7"]);
        let room = format!("!second{}:{host}", self.t.below(50));
        let zed = format!("@zed{}:{host}", self.t.below(3));
        let yan = format!("@yan:{}", self.servers[n].name);
        let tag = self.t.below(1_000_000);
        let id = |s: &str| if v <= 2 { format!("$r2{tag}{s}:{host}") } else { format!("$r2{tag}{s}") };
        let ylevel = *self.t.pick(&[50i64, 50, 75, 100]);
        let mk = |ids: &str, ty: &str, sender: &str, sk: Option<&str>, content: J, ts: i64, auth: Vec<String>, prev: Vec<String>| -> Rc<Ev> {
            Rc::new(Ev { id: ids.to_string(), room_id: room.clone(), sender: sender.to_string(), ty: ty.to_string(), state_key: sk.map(|x| x.to_string()), content, ts, prev, auth, redacts: None })
        };
        let mut create_c = BTreeMap::new();
        if v <= 10 {
            create_c.insert("creator".to_string(), J::Str(zed.clone()));
        }
        create_c.insert("room_version".to_string(), J::Str(v.to_string()));
        let c = mk(&id("C"), "m.room.create", &zed, Some(""), J::Obj(create_c), 1, vec![], vec![]);
        let j = mk(&id("J"), "m.room.member", &zed, Some(&zed), o(vec![("membership", J::s("join"))]), 2, vec![c.id.clone()], vec![c.id.clone()]);
        let p = mk(&id("P"), "m.room.power_levels", &zed, Some(""), o(vec![("users", o(vec![(zed.as_str(), J::Int(100)), (yan.as_str(), J::Int(ylevel))]))]), 3, vec![c.id.clone(), j.id.clone()], vec![j.id.clone()]);
        let r = mk(&id("R"), "m.room.join_rules", &zed, Some(""), o(vec![("join_rule", J::s("public"))]), 4, vec![c.id.clone(), j.id.clone(), p.id.clone()], vec![p.id.clone()]);
        let y = mk(&id("Y"), "m.room.member", &yan, Some(&yan), o(vec![("membership", J::s("join"))]), 5, vec![c.id.clone(), p.id.clone(), r.id.clone()], vec![r.id.clone()]);
        let (ts1, ts2) = if self.t.chance(1, 2) { (10, 20) } else { (20, 10) };
        let t1 = mk(&id("T1"), "m.room.topic", &zed, Some(""), o(vec![("topic", J::s("one"))]), ts1, vec![c.id.clone(), p.id.clone(), j.id.clone()], vec![y.id.clone()]);
        let t2 = mk(&id("T2"), "m.room.topic", &yan, Some(""), o(vec![("topic", J::s("two"))]), ts2, vec![c.id.clone(), p.id.clone(), y.id.clone()], vec![y.id.clone()]);
        let p2 = mk(&id("P2"), "m.room.power_levels", &zed, Some(""), o(vec![("users", o(vec![(zed.as_str(), J::Int(100)), (yan.as_str(), J::Int(0))]))]), 15, vec![c.id.clone(), p.id.clone(), j.id.clone()], vec![t1.id.clone()]);
        let all = [c.clone(), j.clone(), p.clone(), r.clone(), y.clone(), t1.clone(), t2.clone(), p2.clone()];
        let mut inserted = Vec::new();
        for e in &all {
            let Ok(pdu) = conv::pdu_from_ev(e) else { continue };
            self.servers[n].dag.insert(e.id.clone(), e.clone());
            self.servers[n].have.insert(e.id.clone(), crate::sim::NodeEv { ev: e.clone(), pdu: Some(pdu), accepted: true, state_after: Rc::new(StateSet::new()), depth: 1 });
            inserted.push(e.id.clone());
        }
        let st = |evs: &[&Rc<Ev>]| -> Rc<StateSet> { Rc::new(evs.iter().map(|e| (key(&e.ty, e.state_key.as_deref().unwrap_or("")), e.id.clone())).collect()) };
        let a = st(&[&c, &j, &p2, &r, &y, &t1]);
        let b = st(&[&c, &j, &p, &r, &y, &t2]);
        self.bump("probe.second-room");
        self.flag("c06.second-room");
        self.resolve_on(n, &[a, b], "second-room");
        for idd in inserted {
            self.servers[n].dag.remove(&idd);
            self.servers[n].have.remove(&idd);
        }
    }

    /// A synthetic second room: a random walk over legal state events with arbitrary forks (every
    /// event's state-before and authorisation are computed by the reference models), resolved in
    /// random subsets through the same oracles as everything else. Complements the federation
    /// histories with DAG shapes they reach rarely (sibling power-level events, deep forks, ties).
    /// Run `f` with another room version's rules in force (a homeserver thread serves rooms of every
    /// version; nothing may carry over between calls).
    fn with_version(&mut self, v: u8, f: impl FnOnce(&mut Self)) {
        let (saved_rules, saved_v) = (self.rules.clone(), self.cfg.v);
        self.rules = real::rules(v);
        self.cfg.v = v;
        f(self);
        self.rules = saved_rules;
        self.cfg.v = saved_v;
    }

    pub fn probe_synthetic_room(&mut self, n: usize) {
        if self.t.chance(1, 2) {
            let v = 1 + self.t.below(11) as u8;
            self.bump("probe.synthetic-room-other-version");
            return self.with_version(v, |me| me.probe_synthetic_room_inner(n));
        }
        self.probe_synthetic_room_inner(n)
    }

    fn probe_synthetic_room_inner(&mut self, n: usize) {
        let v = self.cfg.v;
        let host = *self.t.pick(&["synth.example", "synth.test:8448", "10.0.0.9"]);
        let room = format!("!synth{}:{host}", self.t.below(50));
        let tag = self.t.below(1_000_000);
        let users: Vec<String> = vec![format!("@zed:{host}"), format!("@amy:{}", self.servers[n].name), format!("@bob:{host}"), format!("@cat:{}", self.servers[n].name)];
        let levels = [100i64, if self.t.chance(2, 3) { 100 } else { 50 }, 50, 0];
        let founder_is_other = self.t.chance(1, 5);
        if founder_is_other && v <= 10 {
            self.bump("probe.synthetic-room.creator-is-not-the-create-sender");
        }
        let mut evs: Vec<Rc<Ev>> = Vec::new();
        let mut after: Vec<Rc<StateSet>> = Vec::new();
        let mut dag: rsr2::Dag = BTreeMap::new();
        let mut counter = 0usize;
        let mut next_id = |c: &mut usize| {
            *c += 1;
            if v <= 2 {
                format!("$s{tag}e{c}:{host}")
            } else {
                format!("$s{tag}e{c}")
            }
        };
        let sel_ids = |ty: &str, sender: &str, sk: Option<&str>, content: &J, st: &StateSet| -> Option<Vec<String>> {
            match rauth::select(ty, sender, sk, content, v) {
                rauth::Selection::Ok(keys) => Some(keys.iter().filter_map(|k| st.get(k).cloned()).collect()),
                _ => None,
            }
        };
        // linear prefix: create, creator join, power levels, join rules, joins
        let mut ts = 100i64;
        let mut push = |ty: &str, sender: &str, sk: Option<&str>, content: J, prev: Vec<usize>, evs: &mut Vec<Rc<Ev>>, after: &mut Vec<Rc<StateSet>>, dag: &mut rsr2::Dag, ts: i64, c: &mut usize, drop_auth: u64| -> bool {
            let before: StateSet = match prev.len() {
                0 => StateSet::new(),
                1 => (*after[prev[0]]).clone(),
                _ => {
                    let sets: Vec<StateSet> = prev.iter().map(|&i| (*after[i]).clone()).collect();
                    let mut st = rsr2::Stats::default();
                    match rsr2::resolve(dag, &sets, v, &mut st, &mut |_, _, _| {}) {
                        rsr2::Resolved::Ok(s) => s,
                        rsr2::Resolved::Undecided(_) => return false,
                    }
                }
            };
            let Some(mut auth) = sel_ids(ty, sender, sk, &content, &before) else { return false };
            // a sending server may list fewer auth events than the selection names (resolution reads the
            // sender's level through the listed ones, not through the state)
            if drop_auth % 1000 == 999 {
                // the power-levels event in particular: the sort then falls back on the creator's implicit level
                if let Some(pl) = before.get(&key("m.room.power_levels", "")) {
                    auth.retain(|a| a != pl);
                }
            } else if drop_auth % 1000 > 0 && auth.len() > 1 {
                let da = drop_auth % 1000;
                let victim = (da as usize - 1) % auth.len();
                if before.get(&key("m.room.create", "")) != Some(&auth[victim]) || da % 5 == 0 {
                    auth.remove(victim);
                }
            }
            // ... and in any order
            if auth.len() > 1 {
                let r = (drop_auth / 1000) as usize % auth.len();
                auth.rotate_left(r);
            }
            let e = Rc::new(Ev { id: next_id(c), room_id: room.clone(), sender: sender.to_string(), ty: ty.to_string(), state_key: sk.map(|x| x.to_string()), content, ts, prev: prev.iter().map(|&i| evs[i].id.clone()).collect(), auth, redacts: None });
            let look = |t: &str, k: &str| before.get(&key(t, k)).and_then(|id| dag.get(id)).cloned();
            if rauth::auth(&e, &rauth::Ctx { v, state: &look }) != rauth::Verdict::Allow {
                return false;
            }
            let st = if e.state_key.is_some() { rsr2::apply(&before, &e) } else { before };
            dag.insert(e.id.clone(), e.clone());
            evs.push(e);
            after.push(Rc::new(st));
            true
        };
        // before v11 the creator is whoever `content.creator` names; nothing makes that the sender of
        // the create event (in one room in five it is another user, who then founds the room; the
        // sender of the create event must be on the room ID's server, users[2] is)
        let (create_sender, founder) = if v <= 10 && founder_is_other { (users[2].clone(), users[0].clone()) } else { (users[0].clone(), users[0].clone()) };
        let mut cc = BTreeMap::new();
        if v <= 10 {
            cc.insert("creator".to_string(), J::Str(founder.clone()));
        }
        cc.insert("room_version".to_string(), J::Str(v.to_string()));
        if !push("m.room.create", &create_sender, Some(""), J::Obj(cc), vec![], &mut evs, &mut after, &mut dag, ts, &mut counter, 0) {
            return;
        }
        let mut last = |evs: &Vec<Rc<Ev>>| vec![evs.len() - 1];
        let p = last(&evs);
        push("m.room.member", &founder, Some(&founder), o(vec![("membership", J::s("join"))]), p, &mut evs, &mut after, &mut dag, ts + 1, &mut counter, 0);
        // (not every founder writes himself into `users`: the creator's implicit level only matters where no power-levels event is consulted)
        let pl_users: Vec<(&str, J)> = users.iter().zip(levels.iter()).map(|(u, l)| (u.as_str(), J::Int(*l))).collect();
        let p = last(&evs);
        push("m.room.power_levels", &founder, Some(""), o(vec![("users", o(pl_users))]), p, &mut evs, &mut after, &mut dag, ts + 2, &mut counter, 0);
        let p = last(&evs);
        push("m.room.join_rules", &founder, Some(""), o(vec![("join_rule", J::s("public"))]), p, &mut evs, &mut after, &mut dag, ts + 3, &mut counter, 0);
        for u in users.iter().skip(1) {
            let p = last(&evs);
            push("m.room.member", u, Some(u), o(vec![("membership", J::s("join"))]), p, &mut evs, &mut after, &mut dag, ts + 4, &mut counter, 0);
        }
        ts += 10;
        // random walk with forks
        // one room in three has a long history: deeper chains of power-levels events, longer forks
        let steps = if self.t.chance(1, 3) { self.t.range(24, 48) } else { self.t.range(8, 24) };
        for _ in 0..steps {
            let nprev = if self.t.chance(1, 4) { 2 } else { 1 };
            let window = evs.len().min(10);
            let mut prev: Vec<usize> = Vec::new();
            for _ in 0..nprev {
                let i = evs.len() - 1 - self.t.index(window);
                if !prev.contains(&i) {
                    prev.push(i);
                }
            }
            let actor = self.t.pick(&users).clone();
            let target = self.t.pick(&users).clone();
            // frozen clocks: timestamps come from a small set so that ties are common
            let tsx = ts + *self.t.pick(&[0i64, 0, 1, 2, 5]);
            let (ty, sk, content): (&str, Option<String>, J) = match self.t.below(10) {
                0..=2 => {
                    // power levels: small edits that keep admins admins
                    let base_state = (*after[prev[0]]).clone();
                    let cur = base_state.get(&key("m.room.power_levels", "")).and_then(|id| dag.get(id)).map(|e| e.content.clone()).unwrap_or_else(J::obj);
                    let mut m = cur.as_obj().cloned().unwrap_or_default();
                    if self.t.chance(1, 2) {
                        let mut ev = m.get("events").and_then(|x| x.as_obj()).cloned().unwrap_or_default();
                        ev.insert((*self.t.pick(&["m.room.topic", "m.room.name"])).to_string(), J::Int(*self.t.pick(&[0i64, 50, 100])));
                        m.insert("events".to_string(), J::Obj(ev));
                    } else {
                        let mut us = m.get("users").and_then(|x| x.as_obj()).cloned().unwrap_or_default();
                        us.insert(users[2 + self.t.index(2)].clone(), J::Int(*self.t.pick(&[0i64, 25, 50, 75])));
                        m.insert("users".to_string(), J::Obj(us));
                    }
                    ("m.room.power_levels", Some(String::new()), J::Obj(m))
                }
                3 | 4 => ("m.room.topic", Some(String::new()), o(vec![("topic", J::Str(format!("t{}", self.t.below(1000))))])),
                5 => ("m.room.name", Some(String::new()), o(vec![("name", J::Str(format!("n{}", self.t.below(1000))))])),
                6 => ("m.room.member", Some(actor.clone()), o(vec![("membership", J::s(*self.t.pick(&["leave", "join"])))])),
                7 => ("m.room.member", Some(target.clone()), o(vec![("membership", J::s(*self.t.pick(&["leave", "ban", "invite"])))])),
                8 => ("m.room.join_rules", Some(String::new()), o(vec![("join_rule", J::s(*self.t.pick(&["public", "invite"])))])),
                _ => ("org.x.state", Some((*self.t.pick(&["", "k"])).to_string()), o(vec![("v", J::Int(self.t.below(100) as i64))])),
            };
            let mut drop_auth: u64 = if self.t.chance(1, 6) { 1 + self.t.below(20) as u64 } else { 0 };
            if self.t.chance(if founder_is_other { 2 } else { 1 }, 6) {
                drop_auth = 999;
            }
            if drop_auth > 0 {
                self.bump("probe.synthetic-room.event-with-auth-event-omitted");
            }
            drop_auth += 1000 * self.t.below(4) as u64;
            if push(ty, &actor, sk.as_deref(), content, prev, &mut evs, &mut after, &mut dag, tsx, &mut counter, drop_auth) {
                ts += 1;
            }
        }
        if evs.len() < 10 {
            return;
        }
        // hand the room to the node for the duration of the probe
        let mut inserted = Vec::new();
        for e in &evs {
            let Ok(pdu) = conv::pdu_from_ev(e) else { continue };
            self.servers[n].dag.insert(e.id.clone(), e.clone());
            self.servers[n].have.insert(e.id.clone(), crate::sim::NodeEv { ev: e.clone(), pdu: Some(pdu), accepted: true, state_after: Rc::new(StateSet::new()), depth: 1 });
            inserted.push(e.id.clone());
        }
        self.bump("probe.synthetic-rooms");
        self.flag("c06.second-room");
        let rounds = self.t.range(3, 6);
        for _ in 0..rounds {
            if self.stop() {
                break;
            }
            let k = 2 + self.t.below(2) as usize;
            let mut sets: Vec<Rc<StateSet>> = Vec::new();
            for _ in 0..k {
                // biased towards late events: their states carry the forks
                let i = if self.t.chance(2, 3) { after.len() - 1 - self.t.index(after.len().min(8)) } else { self.t.index(after.len()) };
                sets.push(after[i].clone());
            }
            self.odd_set_shapes(&mut sets);
            self.bump("probe.synthetic-resolutions");
            self.resolve_on(n, &sets, "synthetic-room");
        }
        for idd in inserted {
            self.servers[n].dag.remove(&idd);
            self.servers[n].have.remove(&idd);
        }
    }

    /// Hash, sign, verify and hash-reference a small event under a tape-chosen room version (often not
    /// the run's own), on this thread and on a fresh thread; everything is compared with the models.
    pub fn probe_crypto_cross_version(&mut self) {
        let v = 1 + self.t.below(11) as u8;
        let n = self.t.index(self.servers.len());
        let name = self.servers[n].name.clone();
        let sender = self.servers[n].users[0].clone();
        let (ty, sk, content): (&str, Option<String>, J) = match self.t.below(6) {
            0 => ("m.room.create", Some(String::new()), o(vec![("creator", J::Str(sender.clone())), ("room_version", J::Str(v.to_string())), ("x", J::Int(1))])),
            1 => ("m.room.member", Some(sender.clone()), o(vec![("membership", J::s("join")), ("join_authorised_via_users_server", J::Str(sender.clone())), ("displayname", J::s("d"))])),
            2 => ("m.room.power_levels", Some(String::new()), o(vec![("invite", J::Int(1)), ("users", o(vec![(sender.as_str(), J::Int(100))])), ("notifications", o(vec![("room", J::Int(5))]))])),
            3 => ("m.room.redaction", None, o(vec![("redacts", J::s("$x:y")), ("reason", J::s("r"))])),
            4 => ("m.room.aliases", Some(name.clone()), o(vec![("aliases", J::Arr(vec![J::s("#a:b")]))])),
            _ => ("m.room.message", None, gen::message_content(self.t)),
        };
        let mut m: BTreeMap<String, J> = BTreeMap::new();
        m.insert("type".into(), J::s(ty));
        m.insert("sender".into(), J::Str(sender.clone()));
        m.insert("room_id".into(), J::Str(self.room_id.clone()));
        m.insert("content".into(), content);
        m.insert("origin_server_ts".into(), J::Int(1_600_000_000_000 + self.t.below(1000) as i64));
        m.insert("depth".into(), J::Int(3));
        m.insert("prev_events".into(), J::Arr(vec![]));
        m.insert("auth_events".into(), J::Arr(vec![]));
        m.insert("origin".into(), J::Str(name.clone()));
        m.insert("redacts".into(), J::s("$top:level"));
        if let Some(k) = sk {
            m.insert("state_key".into(), J::Str(k));
        }
        if v <= 2 {
            m.insert("event_id".into(), J::Str(format!("$cv{}:{name}", self.t.below(100_000))));
        } else if self.t.chance(1, 3) {
            // a v3+ event that still carries an `event_id` field (a stored or legacy shape): the
            // field survives redaction, so it is hashed like any other kept key
            let id = if self.t.chance(1, 2) { format!("$cv{}:{name}", self.t.below(100_000)) } else { format!("${}", "A".repeat(43)) };
            m.insert("event_id".into(), J::Str(id));
            self.bump("crypto.v3plus-event-with-event_id");
        }
        let before = J::Obj(m);
        let key = revent::SignKey::from_seed(self.servers[n].seed, &self.servers[n].key_version);
        let mut want = before.clone();
        if !matches!(revent::hash_and_sign_event(&mut want, &name, &key, v), revent::HashResult::Ok(())) {
            return;
        }
        let want_ref = revent::reference_hash(&want, v);
        let Ok(kp) = real::keypair(&self.servers[n].seed, &self.servers[n].key_version) else { return };
        let rules = real::rules(v);
        let Some(obj0) = conv::j_to_obj(&before) else { return };
        let keymap = self.key_map.clone();
        let run = |obj0: &ruma_common::CanonicalJsonObject| -> (Outcome<()>, J, Outcome<ruma_signatures::Verified>, Outcome<String>) {
            let mut obj = obj0.clone();
            let r = real::hash_and_sign_event(&name, &kp, &mut obj, &rules);
            let ver = real::verify_event(&keymap, &obj, &rules);
            let rh = real::reference_hash(&obj, &rules);
            (r, conv::obj_to_j(&obj), ver, rh)
        };
        let here = run(&obj0);
        // the same calls on a fresh thread with its own hash keys
        let seed = self.t.u64();
        let there = std::thread::scope(|sc| {
            sc.spawn(|| {
                simcore::hashseed::set_thread_seed(seed);
                run(&obj0)
            })
            .join()
            .ok()
        });
        self.bump("crypto.cross-version-probes");
        let ty_s = ty.to_string();
        for (site, got) in [("this-thread", Some(here)), ("fresh-thread", there)] {
            let Some((r, signed, ver, rh)) = got else {
                self.violate("C03", format!("rsig/panic.thread.{ty_s}"), json!({"site":site}));
                return;
            };
            if !r.is_ok() || signed != want {
                let prop = if signed.get("hashes") != want.get("hashes") { "C05" } else { "C03" };
                self.violate(prop, format!("rsig/cross-version.hash_and_sign_event.v{v}.{ty_s}.{site}"), json!({"oracle":"rsig+rredact","room_version":v,"run_room_version":self.cfg.v,"site":site,"real_result":format!("{r:?}"),"real":clip(&rj::canonical(&signed)),"expected":clip(&rj::canonical(&want))}));
                return;
            }
            if ver != Outcome::Ok(ruma_signatures::Verified::All) {
                self.violate("C03", format!("rsig/cross-version.verify_event.v{v}.{ty_s}.{site}"), json!({"oracle":"rsig","room_version":v,"site":site,"real":format!("{ver:?}"),"expected":"All","event":clip(&rj::canonical(&want))}));
                return;
            }
            if let revent::HashResult::Ok(wr) = &want_ref {
                if rh != Outcome::Ok(wr.clone()) {
                    self.violate("C05", format!("rsha/cross-version.reference-hash.v{v}.{site}"), json!({"oracle":"rsha+rredact","room_version":v,"site":site,"real":format!("{rh:?}"),"expected":wr,"event":clip(&rj::canonical(&want))}));
                    return;
                }
            }
        }
    }

    pub fn probe_toposort(&mut self, n: usize) {
        let acc: Vec<String> = self.servers[n].have.iter().filter(|(_, x)| x.accepted).map(|(i, _)| i.clone()).collect();
        if acc.is_empty() {
            return;
        }
        let root = self.t.pick(&acc).clone();
        let mut nodes: Vec<String> = rsr2::auth_chain(&self.servers[n].dag, [root.clone()]).into_iter().collect();
        nodes.push(root);
        nodes.truncate(14);
        let set: BTreeSet<String> = nodes.iter().cloned().collect();
        let mut deps: BTreeMap<String, BTreeSet<String>> = BTreeMap::new();
        for id in &nodes {
            let d: BTreeSet<String> = self.servers[n].dag.get(id).map(|e| e.auth.iter().filter(|a| set.contains(*a)).cloned().collect()).unwrap_or_default();
            deps.insert(id.clone(), d);
        }
        let mut keys: BTreeMap<String, (i64, i64)> = BTreeMap::new();
        for id in &nodes {
            keys.insert(id.clone(), (*self.t.pick(&[0i64, 0, 50, 100, -5]), *self.t.pick(&[1i64, 1, 2, 1000])));
        }
        let real = real::lexico_topo_sort(&deps, &keys);
        let model = rsr2::kahn(&deps, &|id| keys[id]);
        self.bump("probe.toposorts");
        if real != Outcome::Ok(model.clone()) {
            self.violate(
                "C07",
                "rsr2/lexicographical_topological_sort".into(),
                json!({"oracle":"reference Kahn sort","graph":deps.iter().map(|(k,v)| (k.clone(), v.iter().cloned().collect::<Vec<_>>())).collect::<BTreeMap<_,_>>(),
                       "keys":keys.iter().map(|(k,v)| (k.clone(), vec![v.0, v.1])).collect::<BTreeMap<_,_>>(),"real":format!("{real:?}"),"expected":model}),
            );
        }
    }

    // -----------------------------------------------------------------------------------------
    // C01: value-level canonical JSON

    pub fn probe_json(&mut self) {
        let val = gen::gen_json(self.t, 5);
        let canon = rj::canonical(&val);
        let t = &mut *self.t;
        let spelled = rj::respell(&val, &mut |m| t.below(m));
        self.bump("json.values");
        for text in [&canon, &spelled] {
            match real::parse_value(text) {
                Outcome::Ok(cv) => {
                    let out = real::canonical_full(&cv);
                    if out != Outcome::Ok(canon.clone()) {
                        self.violate("C01", "rj/value.canonical-bytes".into(), json!({"oracle":"rj","text":clip(text),"real":format!("{out:?}"),"expected":clip(&canon)}));
                        return;
                    }
                    // every other way of writing the value out gives the same bytes
                    let shown = real::canonical_display(&cv);
                    if shown != Outcome::Ok(canon.clone()) {
                        self.violate("C01", "rj/value.display-bytes".into(), json!({"oracle":"rj","text":clip(text),"real":format!("{shown:?}"),"expected":clip(&canon)}));
                        return;
                    }
                    // parsing the canonical text back gives an equal value
                    match real::parse_value(&canon) {
                        Outcome::Ok(back) if back == cv => {}
                        other => {
                            self.violate("C01", "rj/value.roundtrip".into(), json!({"oracle":"rj","text":clip(text),"parsed_back":format!("{other:?}"),"expected":clip(&canon)}));
                            return;
                        }
                    }
                    // ... and the conversion to serde_json's value loses nothing
                    let plain = real::into_json_value_text(cv.clone());
                    match &plain {
                        Outcome::Ok(ptext) => match real::parse_value(ptext) {
                            Outcome::Ok(back) if back == cv => {}
                            other => {
                                self.violate("C01", "rj/value.into-json-value".into(), json!({"oracle":"rj","text":clip(text),"via_serde_json_value":clip(ptext),"parsed_back":format!("{other:?}")}));
                                return;
                            }
                        },
                        other => {
                            self.violate("C01", "rj/value.into-json-value".into(), json!({"oracle":"rj","text":clip(text),"real":format!("{other:?}")}));
                            return;
                        }
                    }
                }
                other => {
                    self.violate("C01", "rj/value.refused-valid".into(), json!({"oracle":"rj","text":clip(text),"real":format!("{other:?}")}));
                    return;
                }
            }
        }
        // serde_json::Value → canonical (to_canonical_value) agrees as well
        if let Ok(sv) = serde_json::from_str::<serde_json::Value>(&spelled) {
            match real::to_canonical_value(&sv) {
                Outcome::Ok(cv) => {
                    if real::canonical_full(&cv) != Outcome::Ok(canon.clone()) {
                        self.violate("C01", "rj/to_canonical_value.bytes".into(), json!({"oracle":"rj","text":clip(&spelled),"expected":clip(&canon)}));
                        return;
                    }
                }
                other => {
                    self.violate("C01", "rj/to_canonical_value.refused-valid".into(), json!({"oracle":"rj","text":clip(&spelled),"real":format!("{other:?}")}));
                    return;
                }
            }
        }
        if let Ok(sv) = serde_json::from_str::<serde_json::Value>(&spelled) {
            match real::try_from_json_value(sv) {
                Outcome::Ok(cv) => {
                    if real::canonical_full(&cv) != Outcome::Ok(canon.clone()) {
                        self.violate("C01", "rj/try_from_json_value.bytes".into(), json!({"oracle":"rj","text":clip(&spelled),"expected":clip(&canon)}));
                        return;
                    }
                }
                other => {
                    self.violate("C01", "rj/try_from_json_value.refused-valid".into(), json!({"oracle":"rj","text":clip(&spelled),"real":format!("{other:?}")}));
                    return;
                }
            }
        }
        // numbers canonical form cannot represent are refused, never silently altered
        let bad = *self.t.pick(&["1.0", "1e2", "-0", "9007199254740992", "-9007199254740992", "1E0", "0.5", "-0.0", "100000000000000000000", "1.5e300", "9223372036854775808", "2e-1", "18446744073709551615", "18446744073709551000", "9223372036854775807", "-9223372036854775808", "9007199254740993", "-9007199254740993", "1E+2", "-1e0"]);
        let wrapped = match self.t.below(3) {
            0 => bad.to_string(),
            1 => format!("{{\"a\":[1,{bad}]}}"),
            _ => format!("{{\"k\":{{\"n\":{bad}}},\"z\":0}}"),
        };
        self.bump("json.non-canonical-numbers");
        self.flag("c01.boundary-number");
        if let Outcome::Ok(cv) = real::parse_value(&wrapped) {
            self.violate("C01", "rj/accepted-non-canonical-number".into(), json!({"oracle":"rj","text":wrapped,"number":bad,"real":format!("{:?}", real::canonical_full(&cv))}));
            return;
        }
        if let Ok(sv) = serde_json::from_str::<serde_json::Value>(&wrapped) {
            if let Outcome::Ok(cv) = real::to_canonical_value(&sv) {
                self.violate("C01", "rj/to_canonical_value.accepted-non-canonical-number".into(), json!({"oracle":"rj","text":wrapped,"real":format!("{:?}", real::canonical_full(&cv))}));
                return;
            }
            if let Outcome::Ok(cv) = real::try_from_json_value(sv) {
                self.violate("C01", "rj/try_from_json_value.accepted-non-canonical-number".into(), json!({"oracle":"rj","text":wrapped,"real":format!("{:?}", real::canonical_full(&cv))}));
            }
        }
    }

    // -----------------------------------------------------------------------------------------
    // C04: redaction table

    pub fn probe_redact(&mut self) {
        // half of the probes use another room version than the run's: a homeserver thread serves
        // rooms of every version, and nothing may carry over from one redaction to the next
        let run_v = self.cfg.v;
        let v = if self.t.chance(1, 2) { run_v } else { 1 + self.t.below(11) as u8 };
        if v != run_v {
            self.bump("redact.probes-other-version");
        }
        let saved_rules = self.rules.clone();
        let saved_v = self.cfg.v;
        self.rules = real::rules(v);
        self.cfg.v = v;
        self.probe_redact_inner();
        self.rules = saved_rules;
        self.cfg.v = saved_v;
    }

    fn probe_redact_inner(&mut self) {
        let v = self.cfg.v;
        let ty = *self.t.pick(&[
            "m.room.member", "m.room.member", "m.room.create", "m.room.join_rules", "m.room.power_levels", "m.room.aliases", "m.room.history_visibility", "m.room.redaction",
            "m.room.message", "m.room.name", "org.x.custom", "m.room.server_acl", "m.room.third_party_invite",
        ]);
        let specified: &[&str] = &[
            "membership", "join_authorised_via_users_server", "third_party_invite", "creator", "room_version", "m.federate", "join_rule", "allow", "ban", "events", "events_default", "kick",
            "redact", "state_default", "users", "users_default", "invite", "notifications", "aliases", "history_visibility", "redacts", "reason", "body", "name", "deny", "allow_ip_literals",
        ];
        let mut content: BTreeMap<String, J> = BTreeMap::new();
        for _ in 0..self.t.range(0, 8) {
            let k = if self.t.chance(3, 4) { self.t.pick(specified).to_string() } else { self.t.pick(&gen::KEY_ALPHABET).to_string() };
            let val = if k == "third_party_invite" {
                if self.t.chance(4, 5) {
                    let mut m = BTreeMap::new();
                    if self.t.chance(3, 4) {
                        m.insert("signed".to_string(), gen::gen_json(self.t, 2));
                    }
                    if self.t.chance(1, 2) {
                        m.insert("display_name".to_string(), J::s("d"));
                    }
                    J::Obj(m)
                } else {
                    gen::gen_json(self.t, 1)
                }
            } else {
                gen::gen_json(self.t, 2)
            };
            content.insert(k, val);
        }
        let mut ev: BTreeMap<String, J> = BTreeMap::new();
        ev.insert("type".into(), J::s(ty));
        if self.t.chance(9, 10) {
            ev.insert("content".into(), J::Obj(content));
        } else {
            // an event without `content`: redaction has nothing to prune there and adds nothing
            self.bump("redact.probes-without-content");
        }
        let top: &[&str] = &[
            "event_id", "room_id", "sender", "state_key", "hashes", "signatures", "depth", "prev_events", "auth_events", "origin_server_ts", "origin", "membership", "prev_state", "unsigned",
            "redacts", "age", "replaces_state", "org.x.top",
        ];
        for _ in 0..self.t.range(0, 10) {
            let k = self.t.pick(top).to_string();
            ev.insert(k, gen::gen_json(self.t, 2));
        }
        if self.t.chance(1, 3) {
            // an `unsigned` as servers really attach it
            ev.insert("unsigned".into(), o(vec![("age_ts", J::Int(1_600_000_000_000)), ("replaces_state", J::s("$old:x")), ("age", J::Int(5)), ("prev_content", o(vec![("x", J::Int(1))]))]));
        }
        let input = J::Obj(ev);
        let Some(obj) = conv::j_to_obj(&input) else { return };
        let model = revent::redact(&input, v);
        let rules = self.rules.clone();
        let mut firsts: Vec<Outcome<ruma_common::CanonicalJsonObject>> = Vec::new();
        for which in 0..3 {
            let real = real::redact_via(&obj, &rules, None, which);
            self.check_redact(&input, &real, &model, which, "probe");
            if self.stop() {
                return;
            }
            firsts.push(real);
        }
        self.bump("redact.probes");
        // the three entry points agree with each other even where the model is undecided
        if firsts[0] != firsts[1] || firsts[0] != firsts[2] {
            self.violate("C04", format!("rredact/entry-points-disagree.v{v}.{ty}"), json!({"oracle":"equality","input":rj::canonical(&input),"redact":format!("{:?}",firsts[0]),"redact_in_place":format!("{:?}",firsts[1]),"content_only":format!("{:?}",firsts[2])}));
            return;
        }
        // idempotence
        if let Outcome::Ok(once) = &firsts[0] {
            let twice = real::redact_via(once, &rules, None, self.t.below(2));
            if twice != Outcome::Ok(once.clone()) {
                self.violate("C04", format!("rredact/not-idempotent.v{v}.{ty}"), json!({"oracle":"equality","input":rj::canonical(&input),"once":rj::canonical(&conv::obj_to_j(once)),"twice":format!("{twice:?}")}));
                return;
            }
            // with redacted_because: nothing else is added or changed
            let because = o(vec![("type", J::s("m.room.redaction")), ("x", gen::gen_json(self.t, 1))]);
            if let (Some(bobj), Redacted::Ok(_)) = (conv::j_to_obj(&because), &model) {
                let real = real::redact_via(&obj, &rules, Some(&bobj), self.t.below(2));
                let want = revent::redact_because(&input, v, &because);
                self.check_redact(&input, &real, &want, 0, "redacted_because");
            }
        }
    }

    // -----------------------------------------------------------------------------------------
    // C02: signing flows (origin signs, others countersign, receivers verify; tamper classes)

    pub fn probe_sign(&mut self) {
        let mut base = match gen::gen_json(self.t, 3) {
            J::Obj(m) => J::Obj(m),
            other => o(vec![("v", other)]),
        };
        base.remove("signatures");
        if self.t.chance(1, 2) {
            base.set("unsigned", gen::gen_json(self.t, 2));
        }
        // keys that mean something in *events* mean nothing in a plain signed object: they are
        // signed content like any other
        if self.t.chance(1, 3) {
            for _ in 0..self.t.range(1, 3) {
                let k = *self.t.pick(&["age_ts", "hashes", "event_id", "origin", "content", "redacts", "prev_state", "membership", "depth", "outlier", "destinations", "replaces_state", "type", "sender"]);
                let val = gen::gen_json(self.t, 1);
                base.set(k, val);
            }
            self.bump("sign.event-like-top-level-keys");
        }
        // signers: servers and the identity server
        let mut signers: Vec<(String, SignKey)> = self.servers.iter().map(|s| (s.name.clone(), SignKey::from_seed(s.seed, &s.key_version))).collect();
        signers.push(("id.example".into(), SignKey::from_seed(self.idserver.sk.to_bytes(), &self.idserver.version)));
        let mut keys = self.keys.clone();
        keys.entry("id.example".into()).or_default().insert(self.idserver.key_id(), self.idserver.public().to_vec());
        // rotated keys: the same entity signs again under a second key id
        // (one time in four the second key id is an alias: the same key bytes published under
        // another version, so that two signatures of one entity verify under one key)
        let alias = self.t.chance(1, 4);
        if alias {
            self.bump("sign.alias-key-ids");
        }
        let rotated: Vec<(String, SignKey)> = signers
            .iter()
            .map(|(n, k)| {
                let mut seed = k.sk.to_bytes();
                if !alias {
                    seed[31] ^= 0x5a;
                }
                (n.clone(), SignKey::from_seed(seed, &format!("{}r", k.version)))
            })
            .collect();
        for (n, k) in &rotated {
            keys.entry(n.clone()).or_default().insert(k.key_id(), k.public().to_vec());
        }
        let n_primary = signers.len();
        for (n, k) in rotated {
            signers.push((n, k));
        }
        let nsign = self.t.range(1, 3);
        let mut obj = base.clone();
        let mut signed_by: Vec<String> = Vec::new();
        let mut last: Option<usize> = None;
        for _ in 0..nsign {
            let (ent, mk) = {
                // a third of the later signatures come from the previous signer's other key
                let i = match last {
                    Some(l) if self.t.chance(1, 3) => (l + n_primary) % signers.len(),
                    _ => self.t.index(signers.len()),
                };
                last = Some(i);
                if i >= n_primary || signed_by.contains(&signers[i].0) {
                    self.flag("c02.same-entity-second-key");
                }
                (signers[i].0.clone(), SignKey::from_seed(signers[i].1.sk.to_bytes(), &signers[i].1.version))
            };
            let before = obj.clone();
            let mres = revent::sign_json(&mut obj, &ent, &mk);
            if self.t.chance(2, 3) {
                // the real implementation signs; bytes must be identical
                let Some(mut ro) = conv::j_to_obj(&before) else { return };
                let Ok(kp) = real::keypair(&mk.sk.to_bytes(), &mk.version) else { return };
                let rres = real::sign_json(&ent, &kp, &mut ro);
                if let Some(p) = rres.panic() {
                    self.violate("C02", "rsig/panic.sign_json".into(), json!({"panic":p,"object":rj::canonical(&before)}));
                    return;
                }
                let got = conv::obj_to_j(&ro);
                if mres == SignResult::Ok && (!rres.is_ok() || got != obj) {
                    self.violate("C02", "rsig/sign_json.bytes".into(), json!({"oracle":"rsig","entity":ent,"real_result":format!("{rres:?}"),"real":rj::canonical(&got),"expected":rj::canonical(&obj),"object":rj::canonical(&before)}));
                    return;
                }
                self.bump("sign.json-compared");
            }
            signed_by.push(ent);
        }
        signed_by.sort();
        signed_by.dedup();
        if signed_by.len() >= 2 {
            self.flag("c02.multi-signer");
            self.bump("sign.multi-entity-objects");
        }
        // verification of the intact object: must succeed on both sides
        self.judge_verify_json(&obj, &keys, "intact");
        if self.stop() {
            return;
        }
        // tamper classes
        let mut tampered = obj.clone();
        let mut tkeys = keys.clone();
        let class = self.t.below(9);
        let cname = match class {
            0 => {
                tampered.set("zz_added", J::Int(1));
                "signed-content-added"
            }
            1 => {
                let ks: Vec<String> = tampered.as_obj().unwrap().keys().filter(|k| *k != "signatures" && *k != "unsigned").cloned().collect();
                if ks.is_empty() {
                    tampered.set("zz_added", J::Int(1));
                } else {
                    let k = self.t.pick(&ks).clone();
                    let old = tampered.get(&k).cloned().unwrap_or(J::Null);
                    tampered.set(&k, if old == J::Null { J::Int(0) } else { J::Null });
                }
                "signed-content-changed"
            }
            2 => {
                // one signature bit
                let sigs = tampered.get("signatures").and_then(|s| s.as_obj()).cloned().unwrap_or_default();
                let ents: Vec<String> = sigs.keys().cloned().collect();
                if !ents.is_empty() {
                    let ent = self.t.pick(&ents).clone();
                    let mut set = sigs[&ent].as_obj().cloned().unwrap_or_default();
                    let nth = self.t.index(set.len().max(1));
                    if let Some((kid, J::Str(s))) = set.iter().nth(nth).map(|(a, b)| (a.clone(), b.clone())) {
                        if let Some(mut raw) = refmodel::rb64::decode_std_strict(&s) {
                            let i = self.t.index(raw.len().max(1));
                            raw[i] ^= 1 << self.t.below(8);
                            set.insert(kid, J::Str(refmodel::rb64::encode_std(&raw)));
                        }
                    }
                    let mut s2 = sigs.clone();
                    s2.insert(ent, J::Obj(set));
                    tampered.set("signatures", J::Obj(s2));
                }
                "signature-bit"
            }
            3 => {
                // one key bit
                if !signed_by.is_empty() {
                    let ent = self.t.pick(&signed_by).clone();
                    if let Some(ks) = tkeys.get_mut(&ent) {
                        for kbytes in ks.values_mut() {
                            let i = self.t.index(kbytes.len().max(1));
                            kbytes[i] ^= 1 << self.t.below(8);
                        }
                    }
                }
                "key-bit"
            }
            4 => {
                tampered.set("unsigned", gen::gen_json(self.t, 2));
                "unsigned-only"
            }
            5 => {
                // an extra entity in `signatures` with no valid signature
                let mut sigs = tampered.get("signatures").cloned().unwrap_or_else(J::obj);
                let ghost = "ghost.example";
                let bogus = refmodel::rb64::encode_std(&[7u8; 64]);
                sigs.set(ghost, o(vec![("ed25519:1", J::Str(bogus))]));
                tampered.set("signatures", sigs);
                tkeys.entry(ghost.into()).or_default().insert("ed25519:1".into(), self.idserver.public().to_vec());
                "extra-entity"
            }
            8 => {
                // an extra entity for which no key is supplied at all
                let mut sigs = tampered.get("signatures").cloned().unwrap_or_else(J::obj);
                let bogus = refmodel::rb64::encode_std(&[3u8; 64]);
                sigs.set(if self.t.chance(1, 2) { "keyless.example" } else { "0keyless.example" }, o(vec![("ed25519:1", J::Str(bogus))]));
                tampered.set("signatures", sigs);
                "extra-entity-without-keys"
            }
            6 => {
                // key order / spelling only: must not matter
                let t = &mut *self.t;
                let text = rj::respell(&tampered, &mut |m| t.below(m));
                tampered = rj::parse(&text).unwrap_or(tampered);
                "respelled"
            }
            _ => {
                // rename the key id
                let sigs = tampered.get("signatures").and_then(|s| s.as_obj()).cloned().unwrap_or_default();
                let which = self.t.index(sigs.len().max(1));
                if let Some((ent, J::Obj(set))) = sigs.iter().nth(which).map(|(a, b)| (a.clone(), b.clone())) {
                    let set2: BTreeMap<String, J> = set.into_iter().map(|(k, val)| (format!("{k}9"), val)).collect();
                    let mut s2 = sigs.clone();
                    s2.insert(ent, J::Obj(set2));
                    tampered.set("signatures", J::Obj(s2));
                }
                "key-id"
            }
        };
        self.bump(&format!("fault.tamper.json.{cname}"));
        self.flag("c02.tampered");
        self.judge_verify_json(&tampered, &tkeys, cname);
        if self.stop() {
            return;
        }
        // malformed `signatures`: sign_json must report an error and leave the object as it was
        if self.t.chance(1, 2) {
            let mut bad = base.clone();
            let ent = signers[0].0.clone();
            match self.t.below(3) {
                0 => bad.set("signatures", J::s("not-an-object")),
                1 => bad.set("signatures", o(vec![(ent.as_str(), J::Int(1))])),
                _ => bad.set("signatures", J::Arr(vec![])),
            }
            let Some(mut ro) = conv::j_to_obj(&bad) else { return };
            let Ok(kp) = real::keypair(&signers[0].1.sk.to_bytes(), &signers[0].1.version) else { return };
            let rres = real::sign_json(&ent, &kp, &mut ro);
            self.bump("sign.malformed-signatures");
            match rres {
                Outcome::Panic(p) => self.violate("C02", "rsig/panic.sign_json".into(), json!({"panic":p,"object":rj::canonical(&bad)})),
                Outcome::Ok(()) => self.violate("C02", "rsig/sign_json.accepted-malformed-signatures".into(), json!({"object":rj::canonical(&bad),"after":rj::canonical(&conv::obj_to_j(&ro))})),
                Outcome::Err(e) => {
                    let after = conv::obj_to_j(&ro);
                    if after != bad {
                        self.violate("C02", "rsig/sign_json.atomicity".into(), json!({"oracle":"snapshot","error":e,"before":rj::canonical(&bad),"after":rj::canonical(&after)}));
                    }
                }
            }
        }
    }

    fn judge_verify_json(&mut self, obj: &J, keys: &revent::Keys, class: &str) {
        let Some(ro) = conv::j_to_obj(obj) else { return };
        let real = real::verify_json(&real::key_map(keys), &ro);
        let model = revent::verify_json(obj, keys);
        if let Some(p) = real.panic() {
            self.violate("C02", "rsig/panic.verify_json".into(), json!({"panic":p,"object":rj::canonical(obj)}));
            return;
        }
        self.bump("verify.json-compared");
        match (&real, &model) {
            (Outcome::Err(e), VerifyExpect::MustPass) => {
                self.violate("C02", format!("rsig/verify_json.refused-valid.{class}"), json!({"oracle":"rsig","class":class,"real_error":e,"object":rj::canonical(obj)}));
            }
            (Outcome::Ok(()), VerifyExpect::MustFail(why)) => {
                self.violate("C02", format!("rsig/verify_json.accepted-invalid.{class}"), json!({"oracle":"rsig","class":class,"why":why,"object":rj::canonical(obj)}));
            }
            _ => {}
        }
    }
}
