//! Thin wrappers around the real ruma calls a `Ruma` node makes (DESIGN §4.2). Every call is made
//! inside `catch_unwind`; results are normalised so the observer can compare them with `refmodel`.

use std::cell::RefCell;
use std::collections::{BTreeMap, BTreeSet, HashMap, HashSet};

use refmodel::rauth::Key;
use refmodel::rsr2::StateSet;
use ruma_common::canonical_json::{redact, redact_content_in_place, redact_in_place, RedactedBecause};
use ruma_common::room_version_rules::{AuthorizationRules, RoomVersionRules};
use ruma_common::serde::Base64;
use ruma_common::{CanonicalJsonObject, CanonicalJsonValue, EventId, OwnedEventId, RoomVersionId, UserId};
use ruma_events::{StateEventType, TimelineEventType};
use ruma_signatures::{Ed25519KeyPair, PublicKeyMap, Verified};
use ruma_state_res::StateMap;
use simcore::guarded;

use crate::conv::Pdu;

/// Room version rules — always through `RoomVersionId`, as a homeserver obtains them.
pub fn rules(v: u8) -> RoomVersionRules {
    RoomVersionId::try_from(v.to_string().as_str()).expect("room version id").rules().expect("rules for versions 1-11")
}

/// PKCS#8 v1 document for an Ed25519 seed (what a server keeps on disk).
pub fn pkcs8(seed: &[u8; 32]) -> Vec<u8> {
    let mut d = vec![0x30, 0x2e, 0x02, 0x01, 0x00, 0x30, 0x05, 0x06, 0x03, 0x2b, 0x65, 0x70, 0x04, 0x22, 0x04, 0x20];
    d.extend_from_slice(seed);
    d
}

pub fn keypair(seed: &[u8; 32], version: &str) -> Result<Ed25519KeyPair, String> {
    guarded(|| Ed25519KeyPair::from_der(&pkcs8(seed), version.to_string()).map_err(|e| e.to_string()))?
}

#[derive(Debug, Clone, PartialEq, Eq)]
pub enum Outcome<T> {
    Ok(T),
    Err(String),
    Panic(String),
}

impl<T> Outcome<T> {
    pub fn from(r: Result<Result<T, String>, String>) -> Outcome<T> {
        match r {
            Ok(Ok(v)) => Outcome::Ok(v),
            Ok(Err(e)) => Outcome::Err(e),
            Err(p) => Outcome::Panic(p),
        }
    }
    pub fn is_ok(&self) -> bool {
        matches!(self, Outcome::Ok(_))
    }
    pub fn panic(&self) -> Option<&str> {
        match self {
            Outcome::Panic(p) => Some(p),
            _ => None,
        }
    }
}

pub fn parse_object(text: &str) -> Outcome<CanonicalJsonObject> {
    Outcome::from(guarded(|| serde_json::from_str::<CanonicalJsonObject>(text).map_err(|e| e.to_string())))
}

pub fn parse_value(text: &str) -> Outcome<CanonicalJsonValue> {
    Outcome::from(guarded(|| serde_json::from_str::<CanonicalJsonValue>(text).map_err(|e| e.to_string())))
}

pub fn canonical(obj: &CanonicalJsonObject) -> Outcome<String> {
    Outcome::from(guarded(|| ruma_signatures::canonical_json(obj).map_err(|e| e.to_string())))
}

/// Canonical text of the whole value (nothing removed).
pub fn canonical_full(v: &CanonicalJsonValue) -> Outcome<String> {
    Outcome::from(guarded(|| serde_json::to_string(v).map_err(|e| e.to_string())))
}

/// The `Display` form (documented to be the canonical form as well).
pub fn canonical_display(v: &CanonicalJsonValue) -> Outcome<String> {
    Outcome::from(guarded(|| Ok(v.to_string())))
}

/// `TryFrom<serde_json::Value>`.
pub fn try_from_json_value(v: serde_json::Value) -> Outcome<CanonicalJsonValue> {
    Outcome::from(guarded(|| CanonicalJsonValue::try_from(v).map_err(|e| e.to_string())))
}

/// `From<CanonicalJsonValue> for serde_json::Value`, printed by serde_json.
pub fn into_json_value_text(v: CanonicalJsonValue) -> Outcome<String> {
    Outcome::from(guarded(|| serde_json::to_string(&serde_json::Value::from(v)).map_err(|e| e.to_string())))
}

pub fn to_canonical_value(v: &serde_json::Value) -> Outcome<CanonicalJsonValue> {
    Outcome::from(guarded(|| ruma_common::canonical_json::to_canonical_value(v).map_err(|e| e.to_string())))
}

pub fn reference_hash(obj: &CanonicalJsonObject, r: &RoomVersionRules) -> Outcome<String> {
    Outcome::from(guarded(|| ruma_signatures::reference_hash(obj, r).map_err(|e| format!("{e:?}"))))
}

pub fn content_hash(obj: &CanonicalJsonObject) -> Outcome<Vec<u8>> {
    Outcome::from(guarded(|| ruma_signatures::content_hash(obj).map(|h| h.as_bytes().to_vec()).map_err(|e| format!("{e:?}"))))
}

pub fn key_map(keys: &refmodel::revent::Keys) -> PublicKeyMap {
    keys.iter().map(|(e, ks)| (e.clone(), ks.iter().map(|(id, k)| (id.clone(), Base64::new(k.clone()))).collect())).collect()
}

pub fn verify_event(keys: &PublicKeyMap, obj: &CanonicalJsonObject, r: &RoomVersionRules) -> Outcome<Verified> {
    Outcome::from(guarded(|| ruma_signatures::verify_event(keys, obj, r).map_err(|e| e.to_string())))
}

pub fn verify_json(keys: &PublicKeyMap, obj: &CanonicalJsonObject) -> Outcome<()> {
    Outcome::from(guarded(|| ruma_signatures::verify_json(keys, obj).map_err(|e| e.to_string())))
}

pub fn sign_json(entity: &str, kp: &Ed25519KeyPair, obj: &mut CanonicalJsonObject) -> Outcome<()> {
    Outcome::from(guarded(|| ruma_signatures::sign_json(entity, kp, obj).map_err(|e| e.to_string())))
}

pub fn hash_and_sign_event(entity: &str, kp: &Ed25519KeyPair, obj: &mut CanonicalJsonObject, r: &RoomVersionRules) -> Outcome<()> {
    Outcome::from(guarded(|| ruma_signatures::hash_and_sign_event(entity, kp, obj, &r.redaction).map_err(|e| format!("{e:?}"))))
}

/// Redaction through one of the three equivalent entry points (`which` is a tape choice).
pub fn redact_via(obj: &CanonicalJsonObject, r: &RoomVersionRules, because: Option<&CanonicalJsonObject>, which: u32) -> Outcome<CanonicalJsonObject> {
    let rb = because.map(|b| RedactedBecause::from_json(b.clone()));
    Outcome::from(guarded(|| match which % 3 {
        0 => redact(obj.clone(), &r.redaction, rb).map_err(|e| e.to_string()),
        1 => {
            let mut o = obj.clone();
            redact_in_place(&mut o, &r.redaction, rb).map_err(|e| e.to_string())?;
            Ok(o)
        }
        _ => {
            // content-only entry point for the content, copying entry point for the rest:
            // redact_content_in_place(content) must equal the content redact() produces
            let mut o = redact(obj.clone(), &r.redaction, rb).map_err(|e| e.to_string())?;
            if let (Some(CanonicalJsonValue::Object(c)), Some(CanonicalJsonValue::String(ty))) = (obj.get("content"), obj.get("type")) {
                let mut c2 = c.clone();
                redact_content_in_place(&mut c2, &r.redaction, ty).map_err(|e| e.to_string())?;
                o.insert("content".to_string(), CanonicalJsonValue::Object(c2));
            }
            Ok(o)
        }
    }))
}

pub fn auth_types(ty: &str, sender: &str, state_key: Option<&str>, content: &CanonicalJsonValue, r: &AuthorizationRules) -> Outcome<BTreeSet<Key>> {
    let ty = TimelineEventType::from(ty);
    let Ok(sender) = <&UserId>::try_from(sender) else { return Outcome::Err("harness: sender not a user id".into()) };
    let raw = match serde_json::value::to_raw_value(content) {
        Ok(r) => r,
        Err(e) => return Outcome::Err(format!("harness: {e}")),
    };
    Outcome::from(guarded(|| {
        ruma_state_res::auth_types_for_event(&ty, sender, state_key, &raw, r).map(|v| v.into_iter().map(|(t, k)| (t.to_string(), k)).collect::<BTreeSet<Key>>())
    }))
}

/// Real `auth_check` against a state given as (type, key) → event; records every state read.
pub fn auth_check(r: &AuthorizationRules, pdu: &Pdu, state: &dyn Fn(&Key) -> Option<Pdu>) -> (Outcome<()>, Vec<Key>) {
    let reads: RefCell<Vec<Key>> = RefCell::new(Vec::new());
    let out = guarded(|| {
        ruma_state_res::auth_check(r, pdu, |ty: &StateEventType, key: &str| {
            let k = (ty.to_string(), key.to_string());
            reads.borrow_mut().push(k.clone());
            state(&k)
        })
    });
    (Outcome::from(out), reads.into_inner())
}

fn to_state_map(s: &StateSet) -> StateMap<OwnedEventId> {
    // a fresh HashMap each time: std gives every new map a new key, so this is also how the
    // exploration re-runs a call under a new iteration order (DESIGN §3.5)
    let mut m: StateMap<OwnedEventId> = HashMap::new();
    for ((t, k), id) in s {
        m.insert((StateEventType::from(t.as_str()), k.clone()), OwnedEventId::try_from(id.as_str()).expect("event id"));
    }
    m
}

pub fn from_state_map(m: &StateMap<OwnedEventId>) -> StateSet {
    m.iter().map(|((t, k), id)| ((t.to_string(), k.clone()), id.to_string())).collect()
}

/// Real `resolve`. `order` permutes the state sets, `chain_order` the auth-chain sets.
pub fn resolve(
    r: &AuthorizationRules,
    sets: &[StateSet],
    chains: &[BTreeSet<String>],
    order: &[usize],
    chain_order: &[usize],
    store: &(dyn Fn(&str) -> Option<Pdu> + Sync),
    on_fetch: &(dyn Fn() + Sync),
) -> Outcome<StateSet> {
    let maps: Vec<StateMap<OwnedEventId>> = order.iter().map(|&i| to_state_map(&sets[i])).collect();
    let chain_sets: Vec<HashSet<OwnedEventId>> =
        chain_order.iter().map(|&i| chains[i].iter().map(|id| OwnedEventId::try_from(id.as_str()).expect("event id")).collect::<HashSet<_>>()).collect();
    let out = guarded(|| {
        ruma_state_res::resolve(r, maps.iter(), chain_sets, |id: &EventId| {
            on_fetch();
            store(id.as_str())
        })
        .map_err(|e| e.to_string())
    });
    match Outcome::from(out) {
        Outcome::Ok(m) => Outcome::Ok(from_state_map(&m)),
        Outcome::Err(e) => Outcome::Err(e),
        Outcome::Panic(p) => Outcome::Panic(p),
    }
}

/// The exposed topological sort. `deps[n]` = nodes that must come before `n`.
pub fn lexico_topo_sort(deps: &BTreeMap<String, BTreeSet<String>>, keys: &BTreeMap<String, (i64, i64)>) -> Outcome<Vec<String>> {
    let mut graph: HashMap<OwnedEventId, HashSet<OwnedEventId>> = HashMap::new();
    for (n, d) in deps {
        let id = OwnedEventId::try_from(n.as_str()).expect("event id");
        let e = graph.entry(id).or_default();
        for x in d {
            e.insert(OwnedEventId::try_from(x.as_str()).expect("event id"));
        }
    }
    for d in deps.values() {
        for x in d {
            graph.entry(OwnedEventId::try_from(x.as_str()).expect("event id")).or_default();
        }
    }
    let out = guarded(|| {
        ruma_state_res::lexicographical_topological_sort(&graph, |id: &EventId| {
            let (p, ts) = keys.get(id.as_str()).copied().unwrap_or((0, 0));
            Ok((js_int::Int::new(p).unwrap_or_default(), ruma_common::MilliSecondsSinceUnixEpoch(js_int::UInt::new(ts.max(0) as u64).unwrap_or_default())))
        })
        .map(|v| v.into_iter().map(|id| id.to_string()).collect::<Vec<_>>())
        .map_err(|e| e.to_string())
    });
    Outcome::from(out)
}
