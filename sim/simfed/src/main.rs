//! `simfed` — Engine A: deterministic simulation of a Matrix federation around the real ruma
//! signing / hashing / redaction / authorization / state-resolution functions (DESIGN §4).

mod actions;
mod conv;
mod gen;
mod node;
mod probes;
mod real;
mod sim;

use std::collections::{BTreeMap, BTreeSet};
use std::time::Duration;

use refmodel::revent::SignKey;
use simcore::sched::Sched;
use simcore::{CheckSpec, Engine, Known, RunOutcome, Tape, Tier};

use sim::{Cfg, Evt, Kind, Ledger, Msg, Server, Sim, Weights};

simcore::install_getrandom_seam!();

struct FedEngine;

const PROPS: [&str; 10] = ["C01", "C02", "C03", "C04", "C05", "C06", "C07", "C08", "C09", "C20"];

fn base_weights() -> Weights {
    Weights { join: 10, leave: 4, invite: 6, kick: 4, ban: 5, unban: 3, knock: 3, restricted_join: 3, tpi: 3, join_rules: 5, power_levels: 8, name: 5, aliases: 2, user_state: 2, message: 8, redaction: 2, custom: 3 }
}

/// Profile bias + swarm draw (DESIGN §4.1, §4.8).
fn make_cfg(profile: &str, tier: Tier, t: &mut Tape) -> Cfg {
    let thorough = tier == Tier::Thorough;
    let mut w = base_weights();
    let mut c = Cfg {
        profile: profile.to_string(),
        v: 1 + t.below(11) as u8,
        n_actions: if thorough { t.range(15, 70) } else { t.range(10, 40) },
        drop_pct: if t.chance(1, 2) { t.range(1, 15) } else { 0 },
        dup_pct: if t.chance(1, 2) { t.range(1, 15) } else { 0 },
        respell_pct: if t.chance(1, 2) { t.range(5, 40) } else { 0 },
        corrupt_pct: if t.chance(1, 3) { t.range(1, 6) } else { 0 },
        tamper_pct: if t.chance(1, 2) { t.range(2, 15) } else { 0 },
        relay_redact_pct: if t.chance(1, 3) { t.range(2, 12) } else { 0 },
        partitions: t.chance(1, 2),
        crashes: t.chance(1, 3),
        clock_faults: t.chance(1, 3),
        stalls: t.chance(1, 4),
        byz_pct: 0,
        probe_k: if thorough { 16 } else { 6 },
        probe_pct: 20,
        resolve_repeats: 1,
        threads: false,
        late_power_levels: t.chance(1, 3),
        big_events: false,
        many_admins: t.chance(1, 4),
        w: w.clone(),
    };
    match profile {
        "C01" => {
            c.respell_pct = t.range(40, 70);
            w.custom = 25;
            w.message = 15;
            w.user_state = 8;
            c.probe_pct = 40;
            c.probe_k = if thorough { 24 } else { 10 };
            c.crashes = false;
        }
        "C02" => {
            w.tpi = 14;
            w.invite = 10;
            w.restricted_join = 8;
            c.tamper_pct = t.range(5, 25);
            c.probe_pct = 50;
            c.probe_k = if thorough { 16 } else { 8 };
        }
        "C03" => {
            c.byz_pct = t.range(5, 25);
            w.tpi = 8;
            w.restricted_join = 8;
            w.join_rules = 8;
            w.aliases = 4;
            w.redaction = 4;
            c.tamper_pct = t.range(10, 35);
            c.relay_redact_pct = t.range(5, 25);
            c.crashes = t.chance(1, 2);
        }
        "C04" => {
            w.aliases = 5;
            w.redaction = 6;
            w.tpi = 6;
            w.restricted_join = 6;
            w.name = 8;
            c.relay_redact_pct = t.range(10, 40);
            c.probe_pct = 50;
            c.probe_k = if thorough { 24 } else { 10 };
        }
        "C05" => {
            c.byz_pct = t.range(0, 20);
            c.big_events = true;
            w.message = 25;
            c.tamper_pct = t.range(5, 25);
            c.relay_redact_pct = t.range(5, 20);
            c.crashes = t.chance(1, 2);
        }
        "C06" => {
            w.power_levels = 14;
            w.join_rules = 8;
            w.ban = 8;
            w.kick = 6;
            w.name = 10;
            c.partitions = true;
            c.clock_faults = true;
            c.crashes = t.chance(1, 2);
            c.resolve_repeats = t.range(1, 3);
            c.many_admins = t.chance(1, 2);
            c.threads = t.chance(1, 2);
            c.probe_pct = 15;
            c.tamper_pct = 0;
            c.corrupt_pct = 0;
        }
        "C07" => {
            w.power_levels = 14;
            w.join_rules = 9;
            w.ban = 9;
            w.kick = 6;
            w.join = 12;
            w.name = 10;
            c.partitions = true;
            c.clock_faults = t.chance(2, 3);
            c.byz_pct = if t.chance(1, 2) { t.range(5, 25) } else { 0 };
            c.late_power_levels = t.chance(1, 2);
            c.many_admins = t.chance(2, 3);
            c.probe_pct = 20;
            c.tamper_pct = 0;
            c.corrupt_pct = 0;
        }
        "C08" => {
            w.join = 12;
            w.invite = 8;
            w.kick = 6;
            w.ban = 7;
            w.unban = 5;
            w.knock = 6;
            w.restricted_join = 6;
            w.tpi = 5;
            w.power_levels = 12;
            w.aliases = 3;
            w.redaction = 3;
            w.user_state = 4;
            c.byz_pct = t.range(5, 30);
            c.probe_pct = 60;
            c.probe_k = if thorough { 32 } else { 10 };
            c.tamper_pct = 0;
            c.corrupt_pct = 0;
        }
        "C09" => {
            w.tpi = 8;
            w.restricted_join = 8;
            w.knock = 6;
            w.invite = 8;
            c.byz_pct = t.range(0, 20);
            c.probe_pct = 60;
            c.probe_k = if thorough { 32 } else { 10 };
            c.partitions = true;
            c.tamper_pct = 0;
            c.corrupt_pct = 0;
        }
        "C20" => {
            w.power_levels = 25;
            c.probe_pct = 70;
            c.probe_k = if thorough { 12 } else { 4 };
            c.tamper_pct = 0;
            c.corrupt_pct = 0;
            c.crashes = false;
            if c.v < 3 {
                c.v = 3 + t.below(9) as u8;
            }
        }
        _ => {}
    }
    c.w = w;
    c
}

fn server_names(t: &mut Tape, n: usize) -> Vec<String> {
    let pool = ["alpha.example", "beta.example:8448", "10.1.2.3", "gamma.example", "[2001:db8::1]", "delta.example:443", "[::1]:8008", "epsilon.test", "alpha.example:8448", "gamma.example:443"];
    let mut idx: Vec<usize> = (0..pool.len()).collect();
    t.shuffle(&mut idx);
    idx.into_iter().take(n).map(|i| pool[i].to_string()).collect()
}

impl Engine for FedEngine {
    fn name(&self) -> &'static str {
        "simfed"
    }

    fn stack_bytes(&self) -> usize {
        8 << 20
    }

    fn spec(&self, property: &str, tier: Tier) -> Option<CheckSpec> {
        if !PROPS.contains(&property) {
            return None;
        }
        let quick = tier == Tier::Quick;
        let (rule, probes): (&str, Vec<&str>) = match property {
            "C01" => ("non-trivial run: >=1 respelled PDU ingested by a Ruma node, >=1 value with non-ASCII / escaped characters, >=1 boundary-number refusal probe", vec!["fault.respell", "json.values", "json.non-canonical-numbers"]),
            "C02" => ("non-trivial run: >=1 object signed by >=2 entities and >=1 tampered copy verified", vec!["sign.json-compared", "sign.multi-entity-objects", "sign.malformed-signatures", "verify.json-compared"]),
            "C03" => ("non-trivial run: >=1 event verified after redaction by a relay and >=1 tamper of each of the three classes (unsigned / stripped / kept)", vec!["fault.relay_redact", "fault.tamper.unsigned", "fault.tamper.stripped_content", "fault.tamper.kept_field", "fault.tamper.signature", "fault.tamper.key_id", "sign.countersign-compared", "verify.signatures", "verify.fail"]),
            "C04" => ("non-trivial run: >=1 relay-redacted copy and >=5 redaction probes over special event types", vec!["redact.probes", "fault.relay_redact", "rx.redacted-copy-stored"]),
            "C05" => ("non-trivial run: >=1 event ID recomputed from a redacted copy and >=1 boundary-size event (65535±2 bytes)", vec!["act.boundary-size", "size.refused-above-limit", "fault.relay_redact", "size.boundary.0", "size.boundary.1"]),
            "C06" => ("non-trivial run: >=1 resolve with >=2 conflicted keys, an auth difference of >=2 events and >=1 (power, ts) tie, repeated under permuted arguments / fresh hash keys", vec!["agree.repetitions", "agree.identity-probes", "agree.thread-runs", "agree.node-comparisons", "resolve.power-ts-tie", "resolve.three-or-more-sets", "restart.reloads"]),
            "C07" => ("non-trivial run: >=1 resolve with conflicted power events compared with rsr2, and >=1 of: (power,ts) tie, mixed power-level ancestry, event rejected during resolution, >=3 state sets", vec!["resolve.compared-with-rsr2", "resolve.power-ts-tie", "resolve.mixed-mainline-ancestry", "resolve.rejected-in-resolution", "resolve.three-or-more-sets", "resolve.partial-pl-overrides-unconflicted", "probe.toposorts", "probe.subset-resolutions", "probe.thinned-subset-resolutions", "probe.second-room"]),
            "C08" => ("non-trivial run: >=20 candidate events judged against history-reached states, covering >=6 distinct (kind, verdict, rule) cells", vec!["probe.candidates", "byz.twists"]),
            "C09" => ("non-trivial run: member events of >=3 memberships selected and compared, and >=1 perturbation of an entry whose type the rules read for other events", vec!["ni.perturbations", "ni.perturbed-auth-relevant-type", "ni.reads-checked"]),
            _ => ("non-trivial run: >=5 helper/authorization comparisons on a history-reached power-levels event", vec!["plh.compared.user_can_ban_user", "plh.compared.user_can_kick_user", "plh.compared.user_can_unban_user", "plh.compared.user_can_invite", "plh.compared.user_can_send_message", "plh.compared.user_can_send_state", "plh.compared.notifications", "plh.compared.for_user"]),
        };
        Some(CheckSpec {
            property: property.to_string(),
            profile: property.to_string(),
            runs: if quick { 10_000 } else { 400_000 },
            wall_cap: Duration::from_secs(if quick { 60 } else { 1500 }),
            rule: format!(
                "one run = one simulated federation: room version 1-11 (via RoomVersionId), 2-5 servers (Ruma = real calls, Ref = reference models, Byz = rule-breaking but correctly signing), \
                 simulated clients issuing 10-40 (thorough -70) actions, transport faults, crash/restart, clock faults, observer probes; profile '{property}' biases workload and faults. {rule}. \
                 Distinct = distinct fingerprint (hash of the sequence of created events' (label, type, number of prev events), room version, server kinds and fault kinds that fired)."
            ),
            real_components: vec![
                "serde_json → ruma_common::CanonicalJsonObject parsing; ruma_signatures::canonical_json; to_canonical_value".into(),
                "ruma_signatures::{reference_hash, content_hash, verify_event, hash_and_sign_event, sign_json, verify_json, Ed25519KeyPair::from_der}".into(),
                "ruma_common::canonical_json::{redact, redact_in_place, redact_content_in_place}".into(),
                "ruma_state_res::{auth_types_for_event, auth_check, resolve, lexicographical_topological_sort, events::RoomPowerLevelsEvent}".into(),
                "ruma_events::room::power_levels::RoomPowerLevels helpers; ruma_common::push::PushCondition::SenderNotificationPermission".into(),
                "RoomVersionId::rules() for room versions 1-11".into(),
            ],
            stub_components: vec![
                "event store, fetch-missing-ancestors, forward extremities, rejected-event bookkeeping, anti-entropy (homeserver glue)".into(),
                "transport (drop/dup/delay/partition/stall/respell/corrupt/tamper/relay-redact), simulated clocks, crash/restart and stub disk".into(),
                "simulated clients, Byzantine servers, identity server".into(),
                "SimPdu (implements the ruma_state_res::Event trait seam)".into(),
                "Ref nodes and all oracles: refmodel::{rj, rsha, rb64, revent, rauth, rsr2}".into(),
            ],
            assumptions: vec![
                "reference semantics of DESIGN.md Appendix A; inputs outside the spec-decidable envelope (§4.5) are not judged".into(),
                "ed25519-dalek is the only Ed25519 available (trusted base)".into(),
                "stub omits soft-failure, partial-state joins, key rotation; a node processes an event only with its full ancestry".into(),
                "room version 1 runs the v2 resolution algorithm (what-if, stated in DESIGN §4.2)".into(),
            ],
            probes: probes.into_iter().map(|s| s.to_string()).collect(),
            fault_prefix: "fault.".into(),
        })
    }

    fn run(&self, profile: &str, tier: Tier, t: &mut Tape, trace: bool, known: &Known) -> RunOutcome {
        let cfg = make_cfg(profile, tier, t);
        let v = cfg.v;
        // world
        let n_servers = t.range(2, 5) as usize;
        let names = server_names(t, n_servers);
        let mut kinds: Vec<Kind> = (0..n_servers)
            .map(|i| {
                if i == 0 {
                    Kind::Ruma
                } else {
                    match t.below(10) {
                        0..=4 => Kind::Ruma,
                        5..=7 => Kind::Ref,
                        _ => {
                            if cfg.byz_pct > 0 {
                                Kind::Byz
                            } else {
                                Kind::Ref
                            }
                        }
                    }
                }
            })
            .collect();
        t.shuffle(&mut kinds);
        let mut servers = Vec::new();
        let mut keys: refmodel::revent::Keys = BTreeMap::new();
        let mut all_users = Vec::new();
        for (i, name) in names.iter().enumerate() {
            let mut seed = [0u8; 32];
            for b in seed.iter_mut() {
                *b = t.below(256) as u8;
            }
            let key_version = (*t.pick(&["1", "a_b", "0", "auto", "Zz9"])).to_string();
            let sk = SignKey::from_seed(seed, &key_version);
            keys.entry(name.clone()).or_default().insert(sk.key_id(), sk.public().to_vec());
            let n_users = t.range(1, 3);
            let users: Vec<String> = (0..n_users).map(|u| format!("@{}{}:{}", ["u", "user.", "x_"][u as usize % 3], i, name)).collect();
            all_users.extend(users.iter().cloned());
            let skew = match t.below(4) {
                0 => 0,
                1 => t.below(5_000) as i64 - 2_500,
                2 => t.below(7_200_000) as i64 - 3_600_000,
                _ => 0,
            };
            servers.push(Server {
                name: name.clone(),
                kind: kinds[i],
                seed,
                key_version,
                users,
                skew,
                clock_frozen_at: None,
                clock_jump: 0,
                up: true,
                stalled_until: 0,
                disk: Vec::new(),
                have: BTreeMap::new(),
                dag: BTreeMap::new(),
                pending: BTreeMap::new(),
                extremities: BTreeSet::new(),
                current: None,
                kp: None,
                next_local: 0,
            });
        }
        let creator_server = t.index(n_servers);
        let creator = servers[creator_server].users[0].clone();
        let room_id = format!("!room{}:{}", t.below(100), servers[creator_server].name);
        let mut id_seed = [0u8; 32];
        for b in id_seed.iter_mut() {
            *b = t.below(256) as u8;
        }
        keys.entry("id.example".into()).or_default().insert("ed25519:0".into(), SignKey::from_seed(id_seed, "0").public().to_vec());
        let key_map = real::key_map(&keys);
        let mut s = Sim {
            t,
            out: RunOutcome::default(),
            trace,
            known,
            rules: real::rules(v),
            cfg: cfg.clone(),
            servers,
            room_id,
            creator,
            all_users,
            keys,
            key_map,
            idserver: SignKey::from_seed(id_seed, "0"),
            sched: Sched::new(),
            dag: BTreeMap::new(),
            texts: BTreeMap::new(),
            records: BTreeMap::new(),
            partition: None,
            faults_on: true,
            failed: false,
            after_known: false,
            actions_done: 0,
            fp: simcore::fnv(format!("v{v}").as_bytes()),
            harness_error: None,
            created_room: false,
            message_ids: Vec::new(),
            flags: BTreeSet::new(),
        };
        let kinds_s: Vec<String> = s.servers.iter().map(|x| format!("{}={:?}", x.name, x.kind)).collect();
        s.mix(&kinds_s.join(","));
        s.log(|| format!("room version {v}; servers {}; creator {}; profile {} cfg drop={} dup={} respell={} corrupt={} tamper={} relay_redact={} partitions={} crashes={} clock={} byz={}", kinds_s.join(" "), "", cfg.profile, cfg.drop_pct, cfg.dup_pct, cfg.respell_pct, cfg.corrupt_pct, cfg.tamper_pct, cfg.relay_redact_pct, cfg.partitions, cfg.crashes, cfg.clock_faults, cfg.byz_pct));
        // key pairs of Ruma nodes come from their stored PKCS#8 document through the real parser
        for i in 0..s.servers.len() {
            if s.servers[i].kind == Kind::Ruma {
                match real::keypair(&s.servers[i].seed, &s.servers[i].key_version) {
                    Ok(kp) => s.servers[i].kp = Some(kp),
                    Err(e) => {
                        s.violate("C02", "rsig/from_der.rejected-valid-document".into(), serde_json::json!({"error": e}));
                    }
                }
            }
        }
        // schedule
        s.create_room(creator_server);
        for i in 0..s.servers.len() {
            let d = s.t.below(200) as u64;
            s.sched.after(d, Evt::Client(i));
            s.sched.after(500 + s.t.below(500) as u64, Evt::AntiEntropy(i));
            s.sched.after(300 + s.t.below(300) as u64, Evt::RetryPending(i));
        }
        if cfg.partitions {
            let d = s.t.range(200, 4000) as u64;
            s.sched.after(d, Evt::PartitionStart);
        }
        if cfg.crashes {
            let who = s.t.index(s.servers.len());
            let d = s.t.range(500, 8000) as u64;
            s.sched.after(d, Evt::Crash(who));
        }
        if cfg.clock_faults {
            let who = s.t.index(s.servers.len());
            let d = s.t.range(100, 3000) as u64;
            s.sched.after(d, Evt::ClockFault(who));
        }
        if cfg.stalls {
            let who = s.t.index(s.servers.len());
            let d = s.t.range(300, 6000) as u64;
            s.sched.after(d, Evt::Stall(who));
        }
        s.sched.after(100, Evt::Probe);
        let step_cap = 5_000u64;
        let mut quiesce_started_at: Option<u64> = None;
        while let Some((_seq, ev)) = s.sched.pop() {
            if s.stop() || s.sched.steps > step_cap || s.sched.now > 30 * 60 * 1000 {
                break;
            }
            match ev {
                Evt::Client(n) => {
                    if s.faults_on && s.actions_done < s.cfg.n_actions {
                        if s.servers[n].up {
                            s.client_action(n);
                        }
                        let gap = if s.t.chance(1, 5) { s.t.range(1, 30) } else { s.t.range(30, 900) };
                        s.sched.after(gap as u64, Evt::Client(n));
                    } else if s.faults_on {
                        // workload exhausted: end the fault phase once
                        s.sched.after(1, Evt::EndFaults);
                    }
                }
                Evt::Deliver { src, dst, msg, ledger } => {
                    if !s.servers[dst].up {
                        s.bump("fault.delivered-to-crashed-node");
                        continue;
                    }
                    if s.blocked(src, dst) {
                        s.bump("fault.partition-blocked");
                        continue;
                    }
                    if s.servers[dst].stalled_until > s.sched.now {
                        let until = s.servers[dst].stalled_until;
                        s.sched.at(until + 1, Evt::Deliver { src, dst, msg, ledger });
                        s.bump("fault.stall-held");
                        continue;
                    }
                    s.deliver(src, dst, msg, &ledger);
                }
                Evt::AntiEntropy(n) => {
                    if s.servers[n].up {
                        let heads: Vec<String> = s.servers[n].extremities.iter().cloned().collect();
                        if !heads.is_empty() && s.servers.len() > 1 {
                            let mut peer = s.t.index(s.servers.len() - 1);
                            if peer >= n {
                                peer += 1;
                            }
                            s.send(n, peer, Msg::Heads(heads));
                        }
                    }
                    if quiesce_started_at.is_none() || s.sched.steps < step_cap {
                        let d = 400 + s.t.below(400) as u64;
                        s.sched.after(d, Evt::AntiEntropy(n));
                    }
                }
                Evt::RetryPending(n) => {
                    if s.servers[n].up && !s.servers[n].pending.is_empty() && s.servers.len() > 1 {
                        let missing: BTreeSet<String> = s.servers[n].pending.values().flat_map(|(_, m)| m.iter().cloned()).filter(|m| !s.servers[n].have.contains_key(m) && !s.servers[n].pending.contains_key(m)).collect();
                        if !missing.is_empty() {
                            let mut peer = s.t.index(s.servers.len() - 1);
                            if peer >= n {
                                peer += 1;
                            }
                            s.send(n, peer, Msg::Fetch(missing.into_iter().take(20).collect()));
                        }
                    }
                    let d = 300 + s.t.below(300) as u64;
                    s.sched.after(d, Evt::RetryPending(n));
                }
                Evt::PartitionStart => {
                    if s.faults_on && s.servers.len() >= 2 {
                        let mut side = BTreeSet::new();
                        for i in 0..s.servers.len() {
                            if s.t.chance(1, 2) {
                                side.insert(i);
                            }
                        }
                        if side.is_empty() {
                            side.insert(0);
                        }
                        if side.len() == s.servers.len() {
                            side.remove(&0);
                        }
                        s.log(|| format!("PARTITION {side:?} | rest"));
                        s.partition = Some(side);
                        s.bump("fault.partition");
                        let d = s.t.range(500, 15_000) as u64;
                        s.sched.after(d, Evt::PartitionHeal);
                    }
                }
                Evt::PartitionHeal => {
                    if s.partition.take().is_some() {
                        s.log(|| "partition healed".to_string());
                        s.bump("fault.heal");
                    }
                    if s.faults_on && s.t.chance(2, 3) {
                        let d = s.t.range(500, 8000) as u64;
                        s.sched.after(d, Evt::PartitionStart);
                    }
                }
                Evt::Crash(n) => {
                    if s.faults_on {
                        s.crash(n);
                        let d = s.t.range(100, 6000) as u64;
                        s.sched.after(d, Evt::Restart(n));
                    }
                }
                Evt::Restart(n) => {
                    s.restart(n);
                    if s.faults_on && s.t.chance(1, 2) {
                        let who = s.t.index(s.servers.len());
                        let d = s.t.range(500, 8000) as u64;
                        s.sched.after(d, Evt::Crash(who));
                    }
                }
                Evt::Stall(n) => {
                    if s.faults_on {
                        s.servers[n].stalled_until = s.sched.now + s.t.range(200, 8000) as u64;
                        s.bump("fault.stall");
                    }
                }
                Evt::ClockFault(n) => {
                    if s.faults_on {
                        match s.t.below(4) {
                            0 => {
                                // freeze: concurrent events get identical origin_server_ts
                                s.servers[n].clock_frozen_at = Some(s.sched.now);
                                s.bump("fault.clock.freeze");
                            }
                            1 => {
                                s.servers[n].clock_frozen_at = None;
                                s.servers[n].clock_jump -= s.t.range(1_000, 86_400_000) as i64;
                                s.bump("fault.clock.jump-back");
                            }
                            2 => {
                                s.servers[n].clock_frozen_at = None;
                                s.servers[n].clock_jump += s.t.range(1_000, 86_400_000) as i64;
                                s.bump("fault.clock.jump-forward");
                            }
                            _ => {
                                // all clocks frozen to the same instant: ties across servers
                                let now = s.sched.now;
                                for sv in s.servers.iter_mut() {
                                    sv.clock_frozen_at = Some(now);
                                    sv.skew = 0;
                                    sv.clock_jump = 0;
                                }
                                s.bump("fault.clock.freeze-all");
                            }
                        }
                        let who = s.t.index(s.servers.len());
                        let d = s.t.range(200, 5000) as u64;
                        s.sched.after(d, Evt::ClockFault(who));
                    }
                }
                Evt::Probe => {
                    if s.faults_on {
                        if s.t.chance(s.cfg.probe_pct, 100) {
                            s.probe();
                        }
                        let d = s.t.range(100, 1500) as u64;
                        s.sched.after(d, Evt::Probe);
                    }
                }
                Evt::EndFaults => {
                    if s.faults_on {
                        // quiescence: heal links, restart crashed nodes, silence Byzantine servers
                        s.faults_on = false;
                        s.partition = None;
                        for i in 0..s.servers.len() {
                            s.servers[i].stalled_until = 0;
                            if !s.servers[i].up {
                                s.restart(i);
                            }
                        }
                        quiesce_started_at = Some(s.sched.steps);
                        s.log(|| "fault phase over: links healed, nodes restarted; waiting for convergence".to_string());
                    }
                }
            }
            // convergence reached?
            if let Some(start) = quiesce_started_at {
                if s.converged() {
                    s.bump("liveness.converged");
                    break;
                }
                if s.sched.steps - start > 2_000 {
                    s.bump("liveness.not-converged-within-2000-steps");
                    s.log(|| "no convergence within 2000 steps after the fault phase".to_string());
                    break;
                }
            }
        }
        s.finish()
    }
}

impl<'a> Sim<'a> {
    fn deliver(&mut self, src: usize, dst: usize, msg: Msg, ledger: &Ledger) {
        match msg {
            Msg::Pdu(text) => {
                let (a, b) = (self.servers[src].name.clone(), self.servers[dst].name.clone());
                if *ledger != Ledger::Clean {
                    self.log(|| format!("{a} -> {b}: PDU ({} bytes) transport={ledger:?}", text.len()));
                }
                self.on_pdu(dst, src, &text, ledger, false);
            }
            Msg::Fetch(ids) => {
                // serve what we have (the stored text, as received)
                let found: Vec<String> = ids.iter().filter_map(|id| self.servers[dst].disk.iter().find(|(i, _)| i == id).map(|(_, t)| t.clone())).collect();
                self.bump("net.fetch-served");
                for text in found {
                    self.send(dst, src, Msg::Pdu(text));
                }
            }
            Msg::Heads(ids) => {
                let unknown: Vec<String> = ids.into_iter().filter(|id| !self.servers[dst].have.contains_key(id) && !self.servers[dst].pending.contains_key(id)).collect();
                if !unknown.is_empty() {
                    self.send(dst, src, Msg::Fetch(unknown));
                }
            }
        }
    }

    /// I5: every honest node holds the same accepted events and the same current state.
    fn converged(&mut self) -> bool {
        let honest: Vec<usize> = (0..self.servers.len()).filter(|&i| self.servers[i].kind != Kind::Byz).collect();
        if honest.iter().any(|&i| !self.servers[i].up || !self.servers[i].pending.is_empty()) {
            return false;
        }
        let sets: Vec<BTreeSet<&String>> = honest.iter().map(|&i| self.servers[i].have.iter().filter(|(_, x)| x.accepted).map(|(k, _)| k).collect()).collect();
        if !sets.windows(2).all(|w| w[0] == w[1]) {
            return false;
        }
        // accepted events created by honest servers must have reached everybody
        let ext: Vec<&BTreeSet<String>> = honest.iter().map(|&i| &self.servers[i].extremities).collect();
        ext.windows(2).all(|w| w[0] == w[1])
    }

    fn finish(mut self) -> RunOutcome {
        // fault kinds that fired are part of the fingerprint
        let fired: Vec<String> = self.out.counters.keys().filter(|k| k.starts_with("fault.")).cloned().collect();
        self.mix(&fired.join(","));
        let f = &self.flags;
        let c = |k: &str| self.out.counters.get(k).copied().unwrap_or(0);
        let cells = self.out.counters.keys().filter(|k| k.starts_with("auth.cell.")).count();
        let sel_member_cells = self.out.counters.keys().filter(|k| k.starts_with("sel.cell.member.")).count();
        let plh: u64 = self.out.counters.iter().filter(|(k, _)| k.starts_with("plh.compared.")).map(|(_, v)| *v).sum();
        self.out.nontrivial = match self.cfg.profile.as_str() {
            "C01" => f.contains("c01.respelled") && f.contains("c01.nonascii") && f.contains("c01.boundary-number"),
            "C02" => f.contains("c02.multi-signer") && f.contains("c02.tampered"),
            "C03" => f.contains("c03.verified-redacted-copy") && f.contains("c03.tamper.unsigned") && f.contains("c03.tamper.stripped") && f.contains("c03.tamper.kept"),
            "C04" => c("fault.relay_redact") >= 1 && c("redact.probes") >= 5,
            "C05" => f.contains("c05.id-from-redacted") && c("act.boundary-size") >= 1,
            "C06" => f.contains("sr.two-conflicted-keys") && f.contains("sr.auth-diff") && f.contains("sr.power-ts-tie") && c("agree.repetitions") >= 1,
            "C07" => c("resolve.with-power-events") >= 1 && c("resolve.compared-with-rsr2") >= 1 && (f.contains("sr.power-ts-tie") || f.contains("sr.mixed-mainline") || f.contains("sr.rejected-in-resolution") || f.contains("sr.three-sets")),
            "C08" => c("probe.candidates") >= 20 && cells >= 6,
            "C09" => sel_member_cells >= 3 && f.contains("c09.perturbed-auth-type"),
            "C20" => plh >= 5,
            _ => false,
        };
        self.out.fingerprint = self.fp;
        self.out.sim_time_ms = self.sched.now;
        self.out.steps = self.sched.steps;
        self.out.harness_error = self.harness_error.take();
        self.out
    }
}

fn main() {
    std::process::exit(simcore::driver_main(&FedEngine));
}
