//! Conversions between the model's `J` and ruma's `CanonicalJsonValue`, and the two event views:
//! `SimPdu` (implements the real `ruma_state_res::Event` seam) and `refmodel::rauth::Ev`.

use std::collections::BTreeMap;
use std::rc::Rc;
use std::sync::Arc;

use refmodel::rauth::Ev;
use refmodel::rj::J;
use ruma_common::{
    CanonicalJsonObject, CanonicalJsonValue, EventId, MilliSecondsSinceUnixEpoch, OwnedEventId, OwnedRoomId, OwnedUserId, RoomId, UserId,
};
use ruma_events::TimelineEventType;
use serde_json::value::RawValue;

pub fn j_to_cj(j: &J) -> CanonicalJsonValue {
    match j {
        J::Null => CanonicalJsonValue::Null,
        J::Bool(b) => CanonicalJsonValue::Bool(*b),
        J::Int(i) => CanonicalJsonValue::Integer(js_int::Int::new(*i).expect("model ints are in range")),
        J::Str(s) => CanonicalJsonValue::String(s.clone()),
        J::Arr(a) => CanonicalJsonValue::Array(a.iter().map(j_to_cj).collect()),
        J::Obj(m) => CanonicalJsonValue::Object(m.iter().map(|(k, v)| (k.clone(), j_to_cj(v))).collect()),
    }
}

pub fn j_to_obj(j: &J) -> Option<CanonicalJsonObject> {
    match j_to_cj(j) {
        CanonicalJsonValue::Object(o) => Some(o),
        _ => None,
    }
}

pub fn cj_to_j(c: &CanonicalJsonValue) -> J {
    match c {
        CanonicalJsonValue::Null => J::Null,
        CanonicalJsonValue::Bool(b) => J::Bool(*b),
        CanonicalJsonValue::Integer(i) => J::Int(i64::from(*i)),
        CanonicalJsonValue::String(s) => J::Str(s.clone()),
        CanonicalJsonValue::Array(a) => J::Arr(a.iter().map(cj_to_j).collect()),
        CanonicalJsonValue::Object(m) => J::Obj(m.iter().map(|(k, v)| (k.clone(), cj_to_j(v))).collect()),
    }
}

pub fn obj_to_j(o: &CanonicalJsonObject) -> J {
    J::Obj(o.iter().map(|(k, v)| (k.clone(), cj_to_j(v))).collect::<BTreeMap<_, _>>())
}

/// The simulator's PDU type behind the `ruma_state_res::Event` trait seam.
#[derive(Debug)]
pub struct SimPdu {
    pub id: OwnedEventId,
    pub room_id: OwnedRoomId,
    pub sender: OwnedUserId,
    pub ts: MilliSecondsSinceUnixEpoch,
    pub ty: TimelineEventType,
    pub content: Box<RawValue>,
    pub state_key: Option<String>,
    pub prev: Vec<OwnedEventId>,
    pub auth: Vec<OwnedEventId>,
    pub redacts: Option<OwnedEventId>,
}
pub type Pdu = Arc<SimPdu>;

impl ruma_state_res::Event for SimPdu {
    type Id = OwnedEventId;
    fn event_id(&self) -> &Self::Id {
        &self.id
    }
    fn room_id(&self) -> &RoomId {
        &self.room_id
    }
    fn sender(&self) -> &UserId {
        &self.sender
    }
    fn origin_server_ts(&self) -> MilliSecondsSinceUnixEpoch {
        self.ts
    }
    fn event_type(&self) -> &TimelineEventType {
        &self.ty
    }
    fn content(&self) -> &RawValue {
        &self.content
    }
    fn state_key(&self) -> Option<&str> {
        self.state_key.as_deref()
    }
    fn prev_events(&self) -> Box<dyn DoubleEndedIterator<Item = &Self::Id> + '_> {
        Box::new(self.prev.iter())
    }
    fn auth_events(&self) -> Box<dyn DoubleEndedIterator<Item = &Self::Id> + '_> {
        Box::new(self.auth.iter())
    }
    fn redacts(&self) -> Option<&Self::Id> {
        self.redacts.as_ref()
    }
}

/// Event references in both PDU formats: plain id strings (v3+) or `[id, {sha256}]` pairs (v1-2).
fn id_list(j: Option<&J>) -> Result<Vec<String>, String> {
    let mut out = Vec::new();
    match j {
        None => {}
        Some(J::Arr(a)) => {
            for x in a {
                match x {
                    J::Str(s) => out.push(s.clone()),
                    J::Arr(pair) => match pair.first() {
                        Some(J::Str(s)) => out.push(s.clone()),
                        _ => return Err("bad event reference pair".into()),
                    },
                    _ => return Err("bad event reference".into()),
                }
            }
        }
        Some(_) => return Err("event reference list is not an array".into()),
    }
    Ok(out)
}

/// Model-side view of an event object.
pub fn ev_from_j(j: &J, id: &str) -> Result<Rc<Ev>, String> {
    let s = |k: &str| -> Result<String, String> { j.get(k).and_then(|x| x.as_str()).map(|x| x.to_string()).ok_or_else(|| format!("missing string field {k}")) };
    Ok(Rc::new(Ev {
        id: id.to_string(),
        room_id: s("room_id")?,
        sender: s("sender")?,
        ty: s("type")?,
        state_key: match j.get("state_key") {
            None => None,
            Some(J::Str(k)) => Some(k.clone()),
            Some(_) => return Err("state_key is not a string".into()),
        },
        content: j.get("content").cloned().unwrap_or_else(J::obj),
        ts: j.get("origin_server_ts").and_then(|x| x.as_int()).ok_or("missing origin_server_ts")?,
        prev: id_list(j.get("prev_events"))?,
        auth: id_list(j.get("auth_events"))?,
        redacts: j.get("redacts").and_then(|x| x.as_str()).map(|x| x.to_string()),
    }))
}

/// Real-side view (what a homeserver's PDU type does): typed identifiers, raw content.
pub fn pdu_from_ev(e: &Ev) -> Result<Pdu, String> {
    let eid = |s: &str| OwnedEventId::try_from(s).map_err(|e| format!("event id {s:?}: {e}"));
    let content_cj = j_to_cj(&e.content);
    Ok(Arc::new(SimPdu {
        id: eid(&e.id)?,
        room_id: OwnedRoomId::try_from(e.room_id.as_str()).map_err(|x| format!("room id: {x}"))?,
        sender: OwnedUserId::try_from(e.sender.as_str()).map_err(|x| format!("sender: {x}"))?,
        ts: MilliSecondsSinceUnixEpoch(js_int::UInt::new(e.ts.max(0) as u64).ok_or("ts out of range")?),
        ty: TimelineEventType::from(e.ty.as_str()),
        content: serde_json::value::to_raw_value(&content_cj).map_err(|x| x.to_string())?,
        state_key: e.state_key.clone(),
        prev: e.prev.iter().map(|s| eid(s)).collect::<Result<_, _>>()?,
        auth: e.auth.iter().map(|s| eid(s)).collect::<Result<_, _>>()?,
        redacts: match &e.redacts {
            Some(r) => EventId::parse(r.as_str()).ok(),
            None => None,
        },
    }))
}

/// The same event in a "twin" room: every user ID replaced through `map` (sender, state key and
/// every occurrence in the content), everything else - including the room ID and the event IDs -
/// unchanged. Used to run an unrelated resolution between two resolutions of the real room.
pub fn twin_pdu(p: &SimPdu, map: &[(String, String)]) -> Option<Pdu> {
    // longest first, through placeholders, so that one user ID being a prefix of another is harmless
    let mut order: Vec<usize> = (0..map.len()).collect();
    order.sort_by_key(|&i| std::cmp::Reverse(map[i].0.len()));
    let swap = |text: &str| -> String {
        let mut t = text.to_string();
        for &i in &order {
            t = t.replace(&map[i].0, &format!("\u{1}{i}\u{2}"));
        }
        for &i in &order {
            t = t.replace(&format!("\u{1}{i}\u{2}"), &map[i].1);
        }
        t
    };
    let content = serde_json::value::RawValue::from_string(swap(p.content.get())).ok()?;
    Some(Arc::new(SimPdu {
        id: p.id.clone(),
        room_id: p.room_id.clone(),
        sender: OwnedUserId::try_from(swap(p.sender.as_str())).ok()?,
        ts: p.ts,
        ty: p.ty.clone(),
        content,
        state_key: p.state_key.as_ref().map(|k| swap(k)),
        prev: p.prev.clone(),
        auth: p.auth.clone(),
        redacts: p.redacts.clone(),
    }))
}
