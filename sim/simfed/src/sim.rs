//! Engine A — `simfed`: a simulated Matrix federation (DESIGN §4). World, transport and its
//! faults, node pipeline (stub glue around real ruma calls), observer and oracles.

use std::collections::{BTreeMap, BTreeSet};
use std::rc::Rc;

use refmodel::rauth::{self, key, Ctx, Ev, Key, Selection, Verdict};
use refmodel::revent::{self, EventVerdict, HashResult, Keys, Redacted, SignKey};
use refmodel::rj::{self, J};
use refmodel::rsr2::{self, Dag, Resolved, StateSet};
use ruma_common::room_version_rules::RoomVersionRules;
use ruma_common::CanonicalJsonObject;
use ruma_signatures::{Ed25519KeyPair, PublicKeyMap, Verified};
use serde_json::json;
use simcore::sched::Sched;
use simcore::{Known, RunOutcome, Tape, Violation};

use crate::conv::{self, Pdu};
use crate::gen::{self, View};
use crate::real::{self, Outcome};

#[derive(Clone, Copy, PartialEq, Eq, Debug)]
pub enum Kind {
    Ruma,
    Ref,
    Byz,
}

/// Swarm configuration of one run (profile bias + tape).
#[derive(Clone, Debug)]
pub struct Cfg {
    pub profile: String,
    pub v: u8,
    pub n_actions: u32,
    pub drop_pct: u32,
    pub dup_pct: u32,
    pub respell_pct: u32,
    pub corrupt_pct: u32,
    pub tamper_pct: u32,
    pub relay_redact_pct: u32,
    pub partitions: bool,
    pub crashes: bool,
    pub clock_faults: bool,
    pub stalls: bool,
    pub byz_pct: u32,
    pub probe_k: u32,
    pub probe_pct: u32,
    pub resolve_repeats: u32,
    pub threads: bool,
    pub late_power_levels: bool,
    pub big_events: bool,
    pub many_admins: bool,
    pub w: Weights,
}

#[derive(Clone, Debug)]
pub struct Weights {
    pub join: u32,
    pub leave: u32,
    pub invite: u32,
    pub kick: u32,
    pub ban: u32,
    pub unban: u32,
    pub knock: u32,
    pub restricted_join: u32,
    pub tpi: u32,
    pub join_rules: u32,
    pub power_levels: u32,
    pub name: u32,
    pub aliases: u32,
    pub user_state: u32,
    pub message: u32,
    pub redaction: u32,
    pub custom: u32,
}

pub struct NodeEv {
    pub ev: Rc<Ev>,
    pub pdu: Option<Pdu>,
    pub accepted: bool,
    pub state_after: Rc<StateSet>,
    pub depth: i64,
}

pub struct Server {
    pub name: String,
    pub kind: Kind,
    pub seed: [u8; 32],
    pub key_version: String,
    pub users: Vec<String>,
    pub skew: i64,
    pub clock_frozen_at: Option<u64>,
    pub clock_jump: i64,
    pub up: bool,
    pub stalled_until: u64,
    // durable: (event id, text as received, accepted)
    pub disk: Vec<(String, String)>,
    // volatile
    pub have: BTreeMap<String, NodeEv>,
    pub dag: Dag,
    pub pending: BTreeMap<String, (String, Vec<String>)>, // id -> (text, missing ancestors)
    pub extremities: BTreeSet<String>,
    pub current: Option<Rc<StateSet>>,
    pub kp: Option<Ed25519KeyPair>,
    pub next_local: u64,
}

#[derive(Clone, Debug)]
pub enum Msg {
    Pdu(String),
    Fetch(Vec<String>),
    Heads(Vec<String>),
}

/// What the transport did to a message (observer-only knowledge, for ledger-derived expectations).
#[derive(Clone, Debug, PartialEq, Eq)]
pub enum Ledger {
    Clean,
    Respelled,
    Corrupted,
    TamperUnsigned,
    TamperStrippedContent,
    TamperUnknownTopLevel,
    TamperKeptField,
    TamperSignature,
    TamperKeyId,
    RelayRedacted,
}

pub enum Evt {
    Client(usize),
    Deliver { src: usize, dst: usize, msg: Msg, ledger: Ledger },
    AntiEntropy(usize),
    RetryPending(usize),
    PartitionStart,
    PartitionHeal,
    Crash(usize),
    Restart(usize),
    Stall(usize),
    ClockFault(usize),
    Probe,
    EndFaults,
}

pub struct Record {
    pub accepted: bool,
    pub state_before: Rc<StateSet>,
    pub by: usize,
}

pub struct Sim<'a> {
    pub t: &'a mut Tape,
    pub out: RunOutcome,
    pub trace: bool,
    pub known: &'a Known,
    pub cfg: Cfg,
    pub rules: RoomVersionRules,
    pub servers: Vec<Server>,
    pub room_id: String,
    pub creator: String,
    pub all_users: Vec<String>,
    pub keys: Keys,
    pub key_map: PublicKeyMap,
    pub idserver: SignKey,
    pub sched: Sched<Evt>,
    /// observer: every event ever created, by id (original content)
    pub dag: Dag,
    pub texts: BTreeMap<String, String>,
    pub records: BTreeMap<String, Record>,
    pub partition: Option<BTreeSet<usize>>,
    pub faults_on: bool,
    pub failed: bool,
    pub after_known: bool,
    pub actions_done: u32,
    pub fp: u64,
    pub harness_error: Option<String>,
    pub created_room: bool,
    pub message_ids: Vec<String>,
    pub flags: BTreeSet<&'static str>,
}

pub const SIGNERS_SIG: &str = "rsigners/authorising-server-demanded-for-non-join";

pub const AUTH_RELEVANT: [&str; 5] = ["m.room.create", "m.room.member", "m.room.power_levels", "m.room.join_rules", "m.room.third_party_invite"];

impl<'a> Sim<'a> {
    // -----------------------------------------------------------------------------------------
    // bookkeeping

    pub fn log(&mut self, s: impl FnOnce() -> String) {
        if self.trace {
            let line = format!("[{:>5} t={:>7}] {}", self.sched.seq, self.sched.now, s());
            self.out.trace.push(line);
        }
    }

    pub fn bump(&mut self, k: &str) {
        self.out.bump(k);
    }

    pub fn flag(&mut self, k: &'static str) {
        self.flags.insert(k);
    }

    pub fn mix(&mut self, s: &str) {
        self.fp = simcore::fnv_mix(self.fp, simcore::fnv(s.as_bytes()));
    }

    /// Report an oracle failure. Ends the run unless the signature is a recorded known finding.
    pub fn violate(&mut self, property: &str, signature: String, detail: serde_json::Value) {
        if self.failed || self.after_known {
            return;
        }
        if self.known.is_known(property, &signature).is_some() {
            self.out.known_hits.push(format!("{property}:{signature}"));
            self.after_known = true; // results may diverge from here on: stop judging this run
            self.log(|| format!("KNOWN-FINDING {property}:{signature}"));
            return;
        }
        self.log(|| format!("VIOLATION {property}:{signature}"));
        self.out.violation = Some(Violation { property: property.to_string(), signature, detail });
        self.failed = true;
    }

    pub fn harness(&mut self, msg: String) {
        if self.harness_error.is_none() {
            self.harness_error = Some(msg);
        }
        self.failed = true;
    }

    pub fn stop(&self) -> bool {
        self.failed
    }

    pub fn node_time(&self, n: usize) -> i64 {
        let s = &self.servers[n];
        let base = s.clock_frozen_at.unwrap_or(self.sched.now) as i64;
        (1_600_000_000_000i64 + base + s.skew + s.clock_jump).max(1)
    }

    // -----------------------------------------------------------------------------------------
    // transport (stub) and its faults — DESIGN §3.3

    pub fn send(&mut self, src: usize, dst: usize, msg: Msg) {
        if src == dst {
            return;
        }
        let faults = self.faults_on;
        if faults && self.cfg.drop_pct > 0 && self.t.chance(self.cfg.drop_pct, 100) {
            self.bump("fault.drop");
            return;
        }
        let mut delay = 1 + self.t.below(40) as u64;
        if faults && self.t.chance(1, 10) {
            delay += self.t.below(30_000) as u64; // long delay / reorder
            self.bump("fault.delay");
        }
        let (msg, ledger) = self.mangle(src, msg);
        if faults && self.cfg.dup_pct > 0 && self.t.chance(self.cfg.dup_pct, 100) {
            self.bump("fault.duplicate");
            let d2 = delay + 1 + self.t.below(5_000) as u64;
            self.sched.after(d2, Evt::Deliver { src, dst, msg: msg.clone(), ledger: ledger.clone() });
        }
        self.sched.after(delay, Evt::Deliver { src, dst, msg, ledger });
    }

    /// respell / corrupt / tamper / relay-redact faults on PDU messages.
    fn mangle(&mut self, src: usize, msg: Msg) -> (Msg, Ledger) {
        let Msg::Pdu(text) = &msg else { return (msg, Ledger::Clean) };
        if !self.faults_on {
            return (msg, Ledger::Clean);
        }
        let c = self.cfg.clone();
        if c.relay_redact_pct > 0 && self.t.chance(c.relay_redact_pct, 100) {
            if let Some(red) = self.relay_redact(src, text) {
                self.bump("fault.relay_redact");
                return (Msg::Pdu(red), Ledger::RelayRedacted);
            }
        }
        if c.tamper_pct > 0 && self.t.chance(c.tamper_pct, 100) {
            if let Some((tx, l)) = self.tamper(text) {
                self.bump(match l {
                    Ledger::TamperUnsigned => "fault.tamper.unsigned",
                    Ledger::TamperStrippedContent => "fault.tamper.stripped_content",
                    Ledger::TamperUnknownTopLevel => "fault.tamper.unknown_top_level",
                    Ledger::TamperKeptField => "fault.tamper.kept_field",
                    Ledger::TamperSignature => "fault.tamper.signature",
                    _ => "fault.tamper.key_id",
                });
                return (Msg::Pdu(tx), l);
            }
        }
        if c.corrupt_pct > 0 && self.t.chance(c.corrupt_pct, 100) {
            self.bump("fault.corrupt");
            let mut b = text.clone().into_bytes();
            if !b.is_empty() {
                match self.t.below(4) {
                    0 => {
                        let i = self.t.index(b.len());
                        b[i] ^= 1 << self.t.below(7);
                    }
                    1 => {
                        let i = self.t.index(b.len());
                        b.truncate(i);
                    }
                    2 => {
                        let i = self.t.index(b.len());
                        let j = (i + 1 + self.t.index(16)).min(b.len());
                        let span: Vec<u8> = b[i..j].to_vec();
                        for (k, x) in span.into_iter().enumerate() {
                            b.insert(j + k, x);
                        }
                    }
                    _ => {
                        let i = self.t.index(b.len());
                        b.insert(i, self.t.below(128) as u8);
                    }
                }
            }
            return (Msg::Pdu(String::from_utf8_lossy(&b).into_owned()), Ledger::Corrupted);
        }
        if c.respell_pct > 0 && self.t.chance(c.respell_pct, 100) {
            if let Ok(j) = rj::parse(text) {
                self.bump("fault.respell");
                let t = &mut *self.t;
                let tx = rj::respell(&j, &mut |n| t.below(n));
                return (Msg::Pdu(tx), Ledger::Respelled);
            }
        }
        (msg, Ledger::Clean)
    }

    /// MITM tamper: parse the PDU, change one field by class, re-serialise.
    fn tamper(&mut self, text: &str) -> Option<(String, Ledger)> {
        let mut j = rj::parse(text).ok()?;
        let ty = j.get("type")?.as_str()?.to_string();
        let v = self.cfg.v;
        let class = self.t.below(6);
        let ledger = match class {
            0 => {
                let mut u = j.get("unsigned").cloned().unwrap_or_else(J::obj);
                u.set("age", J::Int(self.t.below(100000) as i64));
                u.set("tampered", gen::gen_json(self.t, 2));
                if self.t.chance(1, 3) {
                    // what a relay attaches to redacted copies - here on a copy that is not redacted
                    let mut rb = J::obj();
                    rb.set("type", J::s("m.room.redaction"));
                    rb.set("sender", J::s("@mod:relay.example"));
                    rb.set("content", J::obj());
                    u.set("redacted_because", rb);
                    self.bump("fault.tamper.unsigned.redacted_because-on-unredacted-copy");
                }
                j.set("unsigned", u);
                Ledger::TamperUnsigned
            }
            1 => {
                // a content key that redaction strips in this version
                let keep = revent::content_keys_kept(&ty, v);
                let c = j.get("content")?.as_obj()?.clone();
                let candidates: Vec<String> = match &keep {
                    None => vec![],
                    Some(k) => c.keys().filter(|x| !k.contains(&x.as_str())).cloned().collect(),
                };
                let mut c2 = c.clone();
                if candidates.is_empty() || self.t.chance(1, 3) {
                    if keep.is_none() {
                        return None;
                    }
                    let mut k = "zz_tampered".to_string();
                    while c2.contains_key(&k) {
                        k.push('z');
                    }
                    // sometimes inflated beyond the PDU size limit: the signatures still cover the
                    // (small) redacted form, the event as a whole must be refused
                    if self.t.chance(1, 5) {
                        c2.insert(k, J::Str("i".repeat(66_000)));
                        self.bump("fault.tamper.inflated-beyond-size-limit");
                    } else {
                        c2.insert(k, J::s("x"));
                    }
                } else {
                    let k = self.t.pick(&candidates).clone();
                    c2.insert(k, J::s("tampered-value"));
                }
                j.set("content", J::Obj(c2));
                Ledger::TamperStrippedContent
            }
            2 => {
                let mut k = "org.tamper.extra".to_string();
                while j.get(&k).is_some() {
                    k.push('x');
                }
                j.set(&k, J::Int(1));
                Ledger::TamperUnknownTopLevel
            }
            3 => {
                // a field redaction keeps (and the signature therefore covers)
                match self.t.below(4) {
                    0 => {
                        let ts = j.get("origin_server_ts")?.as_int()?;
                        j.set("origin_server_ts", J::Int(ts + 1));
                    }
                    1 => {
                        let d = j.get("depth").and_then(|d| d.as_int()).unwrap_or(1);
                        j.set("depth", J::Int(d + 1));
                    }
                    2 => {
                        j.set("hashes", J::Obj([("sha256".to_string(), J::s("AAAAAAAAAAAAAAAAAAAAAAAAAAAAAAAAAAAAAAAAAAA"))].into_iter().collect()));
                    }
                    _ => {
                        let keep = revent::content_keys_kept(&ty, v);
                        let c = j.get("content")?.as_obj()?.clone();
                        let kept: Vec<String> = match &keep {
                            None => c.keys().cloned().collect(),
                            Some(k) => c.keys().filter(|x| k.contains(&x.as_str())).cloned().collect(),
                        };
                        if kept.is_empty() {
                            let ts = j.get("origin_server_ts")?.as_int()?;
                            j.set("origin_server_ts", J::Int(ts + 1));
                        } else {
                            let k = self.t.pick(&kept).clone();
                            let mut c2 = c.clone();
                            let old = c2.get(&k).cloned().unwrap_or(J::Null);
                            let new = if let J::Str(s) = &old { J::Str(format!("{s}x")) } else { J::s("tampered") };
                            // v11 third_party_invite keeps only `signed`: tamper below it to stay inside the kept part
                            if k == "third_party_invite" {
                                return None;
                            }
                            c2.insert(k, new);
                            j.set("content", J::Obj(c2));
                        }
                    }
                }
                Ledger::TamperKeptField
            }
            4 => {
                // flip one bit of one signature
                let sigs = j.get("signatures")?.as_obj()?.clone();
                let ent = self.t.pick(&sigs.keys().cloned().collect::<Vec<_>>()).clone();
                let set = sigs.get(&ent)?.as_obj()?.clone();
                let kid = self.t.pick(&set.keys().cloned().collect::<Vec<_>>()).clone();
                let s = set.get(&kid)?.as_str()?.to_string();
                let mut raw = refmodel::rb64::decode_std_strict(&s)?;
                if raw.is_empty() {
                    return None;
                }
                let i = self.t.index(raw.len());
                raw[i] ^= 1 << self.t.below(8);
                let mut set2 = set.clone();
                set2.insert(kid, J::Str(refmodel::rb64::encode_std(&raw)));
                let mut sigs2 = sigs.clone();
                sigs2.insert(ent, J::Obj(set2));
                j.set("signatures", J::Obj(sigs2));
                Ledger::TamperSignature
            }
            _ => {
                // rename the signer's key id to one nobody has
                let sigs = j.get("signatures")?.as_obj()?.clone();
                let ent = self.t.pick(&sigs.keys().cloned().collect::<Vec<_>>()).clone();
                let set = sigs.get(&ent)?.as_obj()?.clone();
                let mut set2 = BTreeMap::new();
                for (k, val) in set {
                    set2.insert(format!("{k}x"), val);
                }
                let mut sigs2 = sigs.clone();
                sigs2.insert(ent, J::Obj(set2));
                j.set("signatures", J::Obj(sigs2));
                Ledger::TamperKeyId
            }
        };
        Some((rj::canonical(&j), ledger))
    }

    /// A relaying server hands out the redacted copy of an event (legal).
    fn relay_redact(&mut self, src: usize, text: &str) -> Option<String> {
        let j = rj::parse(text).ok()?;
        let v = self.cfg.v;
        let which = self.t.below(3);
        let hops = 1 + self.t.below(3);
        let mut cur = j;
        for _ in 0..hops {
            let model = revent::redact(&cur, v);
            if self.servers[src].kind == Kind::Ruma {
                let obj = conv::j_to_obj(&cur)?;
                let real = real::redact_via(&obj, &self.rules.clone(), None, which);
                self.check_redact(&cur, &real, &model, which, "relay");
                if self.stop() {
                    return None;
                }
            }
            match model {
                Redacted::Ok(r) => cur = r,
                Redacted::Undecided(_) => return None,
            }
        }
        Some(rj::canonical(&cur))
    }

    /// An event that carries `content.join_authorised_via_users_server` without being a join.
    pub fn confusion_shape(&self, j: &J) -> bool {
        let c = j.get("content");
        self.cfg.v >= 8
            && c.and_then(|c| c.get("join_authorised_via_users_server")).is_some()
            && !(j.get("type").and_then(|t| t.as_str()) == Some("m.room.member") && c.and_then(|c| c.get("membership")).and_then(|m| m.as_str()) == Some("join"))
    }

    pub fn blocked(&self, a: usize, b: usize) -> bool {
        match &self.partition {
            Some(side) => side.contains(&a) != side.contains(&b),
            None => false,
        }
    }

    // -----------------------------------------------------------------------------------------
    // oracles on single calls

    /// I-redact (C04): real redaction equals `rredact`.
    pub fn check_redact(&mut self, input: &J, real: &Outcome<CanonicalJsonObject>, model: &Redacted, which: u32, site: &str) {
        let v = self.cfg.v;
        let ty = input.get("type").and_then(|t| t.as_str()).unwrap_or("?").to_string();
        self.bump(&format!("redact.cell.v{v}.{}", if AUTH_RELEVANT.contains(&ty.as_str()) || ty.starts_with("m.room.") { ty.as_str() } else { "other" }));
        if let Some(p) = real.panic() {
            self.violate("C04", format!("rredact/panic.v{v}.{ty}"), json!({"oracle":"rredact","site":site,"entry_point":which,"panic":p,"input":rj::canonical(input)}));
            return;
        }
        match (real, model) {
            (_, Redacted::Undecided(_)) => self.bump("redact.undecided"),
            (Outcome::Ok(r), Redacted::Ok(m)) => {
                let rt = real::canonical_full(&ruma_common::CanonicalJsonValue::Object(r.clone()));
                let mt = rj::canonical(m);
                if rt != Outcome::Ok(mt.clone()) {
                    // name the first differing key for a narrow signature
                    let rj_ = conv::obj_to_j(r);
                    let diff = diff_key(&rj_, m);
                    self.violate(
                        "C04",
                        format!("rredact/v{v}.{ty}.{diff}"),
                        json!({"oracle":"rredact","site":site,"entry_point":(["redact","redact_in_place","redact+redact_content_in_place"][which as usize % 3]),"room_version":v,
                               "input":rj::canonical(input),"real":rt_string(&rt),"expected":mt}),
                    );
                }
            }
            (Outcome::Err(e), Redacted::Ok(m)) => {
                self.violate("C04", format!("rredact/refused.v{v}.{ty}"), json!({"oracle":"rredact","site":site,"real_error":e,"input":rj::canonical(input),"expected":rj::canonical(m)}));
            }
            _ => {}
        }
    }

    /// I-json (C01) at the ingestion seam: text → value → canonical bytes.
    pub fn check_parse(&mut self, text: &str, real: &Outcome<CanonicalJsonObject>, model: &Result<J, rj::ParseError>, ledger: &Ledger) {
        if let Some(p) = real.panic() {
            self.violate("C01", "rj/panic.parse".into(), json!({"oracle":"rj","panic":p,"text":clip(text)}));
            return;
        }
        match (real, model) {
            (Outcome::Ok(r), Ok(m)) => {
                let Some(mo) = m.as_obj() else {
                    self.violate("C01", "rj/accepted-non-object".into(), json!({"oracle":"rj","text":clip(text)}));
                    return;
                };
                let _ = mo;
                let rt = real::canonical_full(&ruma_common::CanonicalJsonValue::Object(r.clone()));
                let mt = rj::canonical(m);
                if rt != Outcome::Ok(mt.clone()) {
                    let tag = if *ledger == Ledger::Respelled { "respelled" } else { "plain" };
                    self.violate("C01", format!("rj/canonical-bytes.{tag}"), json!({"oracle":"rj","text":clip(text),"real":rt_string(&rt),"expected":mt}));
                    return;
                }
                // parsing the canonical text back gives an equal value
                if let Outcome::Ok(s) = &rt {
                    match real::parse_object(s) {
                        Outcome::Ok(r2) if r2 == *r => {}
                        other => {
                            self.violate("C01", "rj/parse-back".into(), json!({"oracle":"rj","canonical":clip(s),"second_parse":format!("{other:?}")}));
                        }
                    }
                }
                if mt.contains("\\u00") || mt.bytes().any(|b| b >= 0x80) {
                    self.flag("c01.nonascii");
                }
            }
            (Outcome::Ok(_), Err(rj::ParseError::NonCanonicalNumber(tok))) => {
                self.violate("C01", "rj/accepted-non-canonical-number".into(), json!({"oracle":"rj","number":tok,"text":clip(text)}));
            }
            (Outcome::Err(e), Ok(m)) => {
                if m.as_obj().is_some() && m.depth() < 100 {
                    self.violate("C01", "rj/refused-valid".into(), json!({"oracle":"rj","text":clip(text),"real_error":e}));
                }
            }
            _ => {}
        }
    }

    /// I-hash (C05): event id / reference hash.
    pub fn check_event_id(&mut self, j: &J, real: &Outcome<String>, model: &HashResult<String>) {
        let v = self.cfg.v;
        if let Some(p) = real.panic() {
            self.violate("C05", "rsha/panic.reference_hash".into(), json!({"oracle":"rsha","panic":p,"event":clip(&rj::canonical(j))}));
            return;
        }
        match (real, model) {
            (_, HashResult::Undecided(_)) => {}
            (Outcome::Ok(r), HashResult::Ok(m)) => {
                if r != m {
                    let what = if refmodel::rb64::encode_std(&[0xfb, 0xff]) != "" && r.replace('-', "+").replace('_', "/") == m.replace('-', "+").replace('_', "/") { "alphabet" } else { "value" };
                    self.violate("C05", format!("rsha/reference-hash.{what}.v{v}"), json!({"oracle":"rsha+rredact","room_version":v,"event":clip(&rj::canonical(j)),"real":r,"expected":m}));
                }
            }
            (Outcome::Ok(r), HashResult::TooLarge(n)) => {
                self.violate("C05", "rsha/size-limit.accepted".into(), json!({"oracle":"rsha","bytes":n,"real":r}));
            }
            (Outcome::Err(e), HashResult::Ok(m)) => {
                self.violate("C05", "rsha/reference-hash.refused".into(), json!({"oracle":"rsha","real_error":e,"expected":m,"event":clip(&rj::canonical(j))}));
            }
            _ => {}
        }
    }

    /// I-evsig (C03): verification result class.
    pub fn check_verify(&mut self, j: &J, real: &Outcome<Verified>, model: &EventVerdict, ledger: &Ledger, site: &str) {
        let v = self.cfg.v;
        let ty = j.get("type").and_then(|t| t.as_str()).unwrap_or("?").to_string();
        if let Some(p) = real.panic() {
            self.violate("C03", format!("rsig/panic.verify_event.{ty}"), json!({"oracle":"rsig","panic":p,"event":clip(&rj::canonical(j))}));
            return;
        }
        // two opinions: the ledger-derived expectation must agree with the model
        let ledger_expect = match ledger {
            Ledger::TamperUnsigned | Ledger::Respelled | Ledger::Clean => None, // same as the original: no class by itself
            Ledger::TamperStrippedContent | Ledger::TamperUnknownTopLevel => Some("signatures"),
            Ledger::TamperKeptField | Ledger::TamperSignature | Ledger::TamperKeyId => Some("fail"),
            _ => None,
        };
        let model_class = match model {
            EventVerdict::All => "all",
            EventVerdict::Signatures => "signatures",
            EventVerdict::Fail(_) => "fail",
            EventVerdict::Undecided(_) => "undecided",
        };
        if let Some(le) = ledger_expect {
            // a tamper of an already-failing or hash-mismatching copy keeps "fail"; only compare on clean expectations
            if model_class != "undecided" && !(le == model_class || (le == "signatures" && model_class == "fail")) {
                // TamperSignature may hit a signature of a server whose signature is not required ⇒ still all/signatures
                let benign = matches!(ledger, Ledger::TamperSignature | Ledger::TamperKeyId);
                if !benign {
                    // two opinions disagree: never an alarm, the message is simply not judged
                    self.bump("ledger.disagree");
                    return;
                }
            }
        }
        let real_class = match real {
            Outcome::Ok(Verified::All) => "all",
            Outcome::Ok(Verified::Signatures) => "signatures",
            _ => "fail",
        };
        self.bump(&format!("verify.{model_class}"));
        if model_class == "undecided" {
            return;
        }
        if real_class != "fail" && self.cfg.profile == "C05" {
            if let EventVerdict::Fail(w) = model {
                if w.starts_with("event too large") {
                    // the size clause is C05's: an oversized event is refused by every entry point
                    self.violate("C05", "rsha/size-limit.accepted-by-verify_event".into(), json!({"oracle":"rsha","room_version":v,"transport":format!("{ledger:?}"),"real":real_class,"expected":"fail","why":w,"event":clip(&rj::canonical(j))}));
                    return;
                }
            }
        }
        if real_class != model_class {
            let detail = match (real, model) {
                (Outcome::Err(e), _) => e.clone(),
                (_, EventVerdict::Fail(w)) => w.clone(),
                _ => String::new(),
            };
            let confusion = self.confusion_shape(j);
            let sig = if confusion && real_class == "fail" && (model_class == "all" || model_class == "signatures") {
                if self.known.is_known("C03", SIGNERS_SIG).is_some() {
                    self.out.known_hits.push(format!("C03:{SIGNERS_SIG}"));
                    return;
                }
                SIGNERS_SIG.to_string()
            } else {
                format!("rsig/verify_event.{site}.expected-{model_class}.got-{real_class}.{ty}")
            };
            self.violate("C03", sig, json!({"oracle":"rsig+rredact+rsigners","room_version":v,"transport":format!("{ledger:?}"),"real":real_class,"expected":model_class,"why":detail,"event":clip(&rj::canonical(j))}));
        }
    }
}

pub fn clip(s: &str) -> String {
    if s.len() > 4000 {
        let mut cut = 4000;
        while !s.is_char_boundary(cut) {
            cut -= 1;
        }
        format!("{}… ({} bytes)", &s[..cut], s.len())
    } else {
        s.to_string()
    }
}

pub fn rt_string(o: &Outcome<String>) -> String {
    match o {
        Outcome::Ok(s) => clip(s),
        Outcome::Err(e) => format!("Err({e})"),
        Outcome::Panic(p) => format!("panic({p})"),
    }
}

/// Name of the first key (top level or `content.<k>`) on which two event objects differ.
pub fn diff_key(a: &J, b: &J) -> String {
    let (Some(ma), Some(mb)) = (a.as_obj(), b.as_obj()) else { return "shape".into() };
    let keys: BTreeSet<&String> = ma.keys().chain(mb.keys()).collect();
    for k in keys {
        if ma.get(k) != mb.get(k) {
            if k == "content" {
                if let (Some(ca), Some(cb)) = (ma.get(k).and_then(|x| x.as_obj()), mb.get(k).and_then(|x| x.as_obj())) {
                    let ck: BTreeSet<&String> = ca.keys().chain(cb.keys()).collect();
                    for c in ck {
                        if ca.get(c) != cb.get(c) {
                            let known = ["membership", "join_authorised_via_users_server", "third_party_invite", "creator", "join_rule", "allow", "ban", "events", "events_default", "kick", "redact", "state_default", "users", "users_default", "invite", "aliases", "history_visibility", "redacts"];
                            return format!("content.{}", if known.contains(&c.as_str()) { c.as_str() } else { "other-key" });
                        }
                    }
                }
                return "content".into();
            }
            let known = ["event_id", "type", "room_id", "sender", "state_key", "hashes", "signatures", "depth", "prev_events", "auth_events", "origin_server_ts", "origin", "membership", "prev_state", "unsigned"];
            return if known.contains(&k.as_str()) { k.clone() } else { "other-key".into() };
        }
    }
    "none".into()
}

pub fn view_of(sim: &Sim<'_>, dag: &Dag, state: &StateSet) -> View {
    let mut view = View { v: sim.cfg.v, all_users: sim.all_users.clone(), creator: sim.creator.clone(), ..Default::default() };
    for ((t, k), id) in state {
        let Some(e) = dag.get(id) else { continue };
        match t.as_str() {
            "m.room.member" => {
                if let Some(m) = e.content.get("membership").and_then(|m| m.as_str()) {
                    view.members.insert(k.clone(), m.to_string());
                }
            }
            "m.room.power_levels" if k.is_empty() => view.pl = Some(e.content.clone()),
            "m.room.join_rules" if k.is_empty() => view.join_rule = e.content.get("join_rule").and_then(|r| r.as_str()).map(|s| s.to_string()),
            "m.room.third_party_invite" => view.tpi.push((k.clone(), e.sender.clone())),
            _ => {}
        }
    }
    view.message_ids = sim.message_ids.clone();
    view
}

pub fn state_lookup<'x>(dag: &'x Dag, st: &'x StateSet) -> impl Fn(&str, &str) -> Option<Rc<Ev>> + 'x {
    move |t: &str, k: &str| st.get(&key(t, k)).and_then(|id| dag.get(id)).cloned()
}

pub fn model_auth(v: u8, e: &Ev, dag: &Dag, st: &StateSet) -> Verdict {
    let look = state_lookup(dag, st);
    rauth::auth(e, &Ctx { v, state: &look })
}

pub fn selection_set(sel: &Selection) -> Option<BTreeSet<Key>> {
    match sel {
        Selection::Ok(v) => Some(v.iter().cloned().collect()),
        _ => None,
    }
}

#[allow(dead_code)]
pub fn resolved_ok(r: &Resolved) -> Option<&StateSet> {
    match r {
        Resolved::Ok(s) => Some(s),
        _ => None,
    }
}

#[allow(dead_code)]
pub fn unused(_: &rsr2::Stats) {}
