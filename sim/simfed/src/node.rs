//! Node pipeline (DESIGN §4.2): what a homeserver does with a received PDU — parse, event ID,
//! signatures + content hash, fetch missing ancestors, authorise against auth events and against
//! the state before the event (resolving forks), store — on `Ruma` nodes with the real calls and the
//! observer's oracles next to them, on `Ref`/`Byz` nodes with `refmodel`.

use std::collections::{BTreeMap, BTreeSet};
use std::rc::Rc;
use std::sync::{Condvar, Mutex};

use refmodel::rauth::{self, key, Ev, Key, Selection, Verdict};
use refmodel::revent::{self, EventVerdict, HashResult, Redacted};
use refmodel::rj::{self, J};
use refmodel::rsr2::{self, Resolved, StateSet};
use serde_json::json;

use crate::conv::{self, Pdu};
use crate::real::{self, Outcome};
use crate::sim::{clip, model_auth, selection_set, Kind, Ledger, Msg, NodeEv, Record, Sim, AUTH_RELEVANT};

const ML_SIG: &str = "rsr2/mainline.no-ancestor-vs-root";
const CL_SIG: &str = "rsr2/power-set.auth-chain-through-unconflicted";

struct Baton {
    m: Mutex<BatonState>,
    cv: Condvar,
}
struct BatonState {
    turn: usize,
    done: [bool; 2],
    sched: Vec<u8>,
    pos: usize,
    switches: u64,
}
impl Baton {
    fn wait_turn(&self, me: usize) {
        let mut g = self.m.lock().unwrap();
        while g.turn != me && !g.done[1 - me] {
            g = self.cv.wait(g).unwrap();
        }
    }
    fn yield_point(&self, me: usize) {
        let mut g = self.m.lock().unwrap();
        let pick = g.sched[g.pos % g.sched.len()] as usize % 2;
        g.pos += 1;
        let next = if g.done[pick] { me } else { pick };
        if next != me {
            g.switches += 1;
        }
        g.turn = next;
        self.cv.notify_all();
        while g.turn != me && !g.done[1 - me] {
            g = self.cv.wait(g).unwrap();
        }
    }
    fn finish(&self, me: usize) {
        let mut g = self.m.lock().unwrap();
        g.done[me] = true;
        g.turn = 1 - me;
        self.cv.notify_all();
    }
}

impl<'a> Sim<'a> {
    fn is_ruma(&self, n: usize) -> bool {
        self.servers[n].kind == Kind::Ruma
    }

    // -----------------------------------------------------------------------------------------
    // receipt of a PDU

    pub fn on_pdu(&mut self, n: usize, from: usize, text: &str, ledger: &Ledger, from_disk: bool) {
        if self.stop() {
            return;
        }
        let v = self.cfg.v;
        // 1. parse (C01 seam)
        let model = rj::parse(text);
        if self.is_ruma(n) {
            let real = real::parse_object(text);
            self.check_parse(text, &real, &model, ledger);
            if self.stop() {
                return;
            }
            if *ledger == Ledger::Respelled {
                self.flag("c01.respelled");
            }
        }
        let Ok(j) = model else {
            self.bump("rx.unparseable");
            return;
        };
        if j.as_obj().is_none() {
            self.bump("rx.unparseable");
            return;
        }
        // 2. event id (C05)
        let mid = revent::event_id(&j, v);
        if self.is_ruma(n) && v >= 3 {
            if let Some(obj) = conv::j_to_obj(&j) {
                let real = match real::reference_hash(&obj, &self.rules) {
                    Outcome::Ok(h) => Outcome::Ok(format!("${h}")),
                    Outcome::Err(e) => Outcome::Err(e),
                    Outcome::Panic(p) => Outcome::Panic(p),
                };
                self.check_event_id(&j, &real, &mid);
                if self.stop() {
                    return;
                }
            }
        }
        let HashResult::Ok(id) = mid else {
            self.bump("rx.no-id");
            return;
        };
        if *ledger == Ledger::RelayRedacted {
            self.flag("c05.id-from-redacted");
        }
        let dup = self.servers[n].have.contains_key(&id) || self.servers[n].pending.contains_key(&id);
        if dup && !self.t.chance(1, 4) {
            self.bump("rx.duplicate");
            return;
        }
        // 2b. content hash of the received object, whatever `hashes` / `signatures` / `unsigned` it carries (C05)
        if self.is_ruma(n) && !dup {
            if let Some(obj) = conv::j_to_obj(&j) {
                let real = real::content_hash(&obj);
                let want = revent::content_hash(&j);
                match (&real, &want) {
                    (Outcome::Panic(p), _) => {
                        self.violate("C05", "rsha/panic.content_hash".into(), json!({"panic":p,"event":clip(&rj::canonical(&j))}));
                        return;
                    }
                    (Outcome::Ok(r), HashResult::Ok(m)) if r.as_slice() != m.as_slice() => {
                        self.violate("C05", "rsha/content-hash.receipt".into(), json!({"oracle":"rsha","event":clip(&rj::canonical(&j)),"real":refmodel::rb64::encode_std(r),"expected":refmodel::rb64::encode_std(m)}));
                        return;
                    }
                    (Outcome::Err(e), HashResult::Ok(_)) => {
                        let len = revent::content_hash_input(&j).len();
                        self.violate("C05", "rsha/size-limit.refused-below-limit".into(), json!({"oracle":"rsha","real_error":e,"hashed_bytes":len,"limit":65535,"note":"content_hash of a received event"}));
                        return;
                    }
                    (Outcome::Ok(_), HashResult::TooLarge(nb)) => {
                        self.violate("C05", "rsha/size-limit.accepted".into(), json!({"oracle":"rsha","hashed_bytes":nb,"limit":65535,"note":"content_hash of a received event"}));
                        return;
                    }
                    _ => self.bump("hash.content-hash-compared"),
                }
            }
        }
        // 3. signatures + content hash (C03)
        let mverdict = revent::verify_event(&j, &self.keys, v);
        if self.is_ruma(n) {
            if let Some(obj) = conv::j_to_obj(&j) {
                let real = real::verify_event(&self.key_map, &obj, &self.rules);
                self.check_verify(&j, &real, &mverdict, ledger, if from_disk { "reload" } else { "receipt" });
                if self.stop() {
                    return;
                }
            }
        }
        match ledger {
            Ledger::RelayRedacted => self.flag("c03.verified-redacted-copy"),
            Ledger::TamperUnsigned => self.flag("c03.tamper.unsigned"),
            Ledger::TamperStrippedContent | Ledger::TamperUnknownTopLevel => self.flag("c03.tamper.stripped"),
            Ledger::TamperKeptField | Ledger::TamperSignature | Ledger::TamperKeyId => self.flag("c03.tamper.kept"),
            _ => {}
        }
        if dup {
            self.bump("rx.duplicate");
            return;
        }
        // Recorded finding C03 rsigners/authorising-server-demanded-for-non-join: while it is listed
        // as known, every node kind refuses such events (as the implementation under test does), so
        // that the federation stays consistent and the rest of the run is still judged.
        if self.confusion_shape(&j) && self.known.is_known("C03", crate::sim::SIGNERS_SIG).is_some() {
            self.bump("rx.known-finding-event-dropped");
            return;
        }
        let mut j = j;
        match mverdict {
            EventVerdict::All => {}
            EventVerdict::Signatures => {
                // hash mismatch ⇒ a homeserver keeps the redacted copy (C04 seam)
                let which = self.t.below(3);
                let model_red = revent::redact(&j, v);
                if self.is_ruma(n) {
                    if let Some(obj) = conv::j_to_obj(&j) {
                        let real = real::redact_via(&obj, &self.rules.clone(), None, which);
                        self.check_redact(&j, &real, &model_red, which, "hash-mismatch");
                        if self.stop() {
                            return;
                        }
                    }
                }
                let ty = j.get("type").and_then(|t| t.as_str()).unwrap_or("").to_string();
                let Redacted::Ok(r) = model_red else { return };
                // (in room versions 1-2 the redaction rule reads the top-level `redacts`, which redaction strips)
                if AUTH_RELEVANT.contains(&ty.as_str()) || (v <= 2 && ty == "m.room.redaction") {
                    // never stored: authorisation could read stripped keys; refetched later
                    self.bump("rx.redacted-copy-dropped");
                    return;
                }
                self.bump("rx.redacted-copy-stored");
                j = r;
            }
            EventVerdict::Fail(_) | EventVerdict::Undecided(_) => {
                self.bump("rx.verify-failed");
                return;
            }
        }
        // 4. shape the stub needs
        let Ok(ev) = conv::ev_from_j(&j, &id) else {
            self.bump("rx.malformed");
            return;
        };
        if ev.room_id != self.room_id {
            self.bump("rx.other-room");
            return;
        }
        let stored_text = rj::canonical(&j);
        // 5. missing ancestors ⇒ park and fetch
        let missing: Vec<String> = ev.prev.iter().chain(ev.auth.iter()).filter(|a| !self.servers[n].have.contains_key(*a)).cloned().collect::<BTreeSet<_>>().into_iter().collect();
        if !missing.is_empty() {
            self.bump("rx.parked");
            self.servers[n].pending.insert(id.clone(), (stored_text, missing.clone()));
            if !from_disk && from != n {
                let want: Vec<String> = missing.iter().filter(|m| !self.servers[n].pending.contains_key(*m)).cloned().collect();
                if !want.is_empty() {
                    self.send(n, from, Msg::Fetch(want));
                }
            }
            return;
        }
        self.process(n, &id, ev, &stored_text, from_disk);
        self.drain_pending(n, from_disk);
    }

    fn drain_pending(&mut self, n: usize, from_disk: bool) {
        loop {
            if self.stop() {
                return;
            }
            let ready: Option<String> = self.servers[n]
                .pending
                .iter()
                .find(|(_, (_, missing))| missing.iter().all(|m| self.servers[n].have.contains_key(m)))
                .map(|(id, _)| id.clone());
            let Some(id) = ready else { return };
            let (text, _) = self.servers[n].pending.remove(&id).unwrap();
            let Ok(j) = rj::parse(&text) else { continue };
            let Ok(ev) = conv::ev_from_j(&j, &id) else { continue };
            self.process(n, &id, ev, &text, from_disk);
        }
    }

    // -----------------------------------------------------------------------------------------
    // authorisation + state

    /// Authorise `ev` against `st` on node `n`. Ruma nodes: real `auth_check`, compared with `rauth`
    /// (I-auth, C08) and with the selection (I-ni, C09). Returns `None` if the run must stop.
    pub fn auth_on(&mut self, n: usize, ev: &Rc<Ev>, pdu: Option<&Pdu>, st: &StateSet, site: &str) -> Option<bool> {
        let v = self.cfg.v;
        let model = model_auth(v, ev, &self.servers[n].dag, st);
        if !self.is_ruma(n) {
            return match model {
                Verdict::Allow => Some(true),
                Verdict::Reject(_) => Some(false),
                Verdict::Undecided(w) => {
                    self.log(|| format!("model undecided on a Ref node ({w}); run abandoned"));
                    self.bump("run.undecided-abort");
                    self.failed = true;
                    None
                }
            };
        }
        let pdu = pdu?;
        let (real, reads) = {
            let node = &self.servers[n];
            let look = |k: &Key| st.get(k).and_then(|id| node.have.get(id)).and_then(|ne| ne.pdu.clone());
            real::auth_check(&self.rules.authorization, pdu, &look)
        };
        self.judge_auth(ev, st, &real, &reads, &model, site, n);
        if self.stop() {
            return None;
        }
        Some(real.is_ok())
    }

    /// Compare one real `auth_check` outcome with the model's verdict.
    pub fn judge_auth(&mut self, ev: &Ev, st: &StateSet, real: &Outcome<()>, reads: &[Key], model: &Verdict, site: &str, n: usize) {
        let v = self.cfg.v;
        let membership = ev.content.get("membership").and_then(|m| m.as_str()).unwrap_or("");
        let cell = if ev.ty == "m.room.member" { format!("member.{membership}") } else { short_type(&ev.ty).to_string() };
        if let Some(p) = real.panic() {
            self.violate("C08", format!("rauth/panic.{cell}"), json!({"oracle":"rauth","panic":p,"event":ev_json(ev)}));
            return;
        }
        // I-ni: the reads of auth_check lie inside the selection
        let sel = rauth::select(&ev.ty, &ev.sender, ev.state_key.as_deref(), &ev.content, v);
        if let Some(selset) = selection_set(&sel) {
            for r in reads {
                if !selset.contains(r) {
                    self.violate(
                        "C09",
                        format!("rsel/read-outside-selection.{cell}.{}", short_type(&r.0)),
                        json!({"oracle":"rsel","event":ev_json(ev),"read":[r.0,r.1],"selection":selset.iter().map(|k| format!("{}|{}",k.0,k.1)).collect::<Vec<_>>()}),
                    );
                    return;
                }
            }
            self.bump("ni.reads-checked");
        }
        match model {
            Verdict::Undecided(w) => {
                self.bump("auth.undecided");
                let slug: String = w.chars().map(|c| if c.is_ascii_alphanumeric() { c } else { '-' }).take(48).collect();
                self.bump(&format!("undecided.auth.{slug}"));
            }
            Verdict::Allow => {
                self.bump(&format!("auth.cell.v{v}.{cell}.allow"));
                if let Outcome::Err(e) = real {
                    self.violate(
                        "C08",
                        format!("rauth/rejected-allowed.{cell}"),
                        json!({"oracle":"rauth","site":site,"room_version":v,"real":"reject","real_error":e,"expected":"allow","event":ev_json(ev),"state":self.state_json(n, st, ev)}),
                    );
                }
            }
            Verdict::Reject(rule) => {
                self.bump(&format!("auth.cell.v{v}.{cell}.reject.{rule}"));
                if real.is_ok() {
                    let vr = match rule {
                        &"member.knock.join_rule" if (7..=9).contains(&v) => "[v7-9]",
                        _ => "",
                    };
                    self.violate(
                        "C08",
                        format!("rauth/{rule}{vr}"),
                        json!({"oracle":"rauth","site":site,"room_version":v,"real":"allow","expected":format!("reject by rule {rule}"),"event":ev_json(ev),"state":self.state_json(n, st, ev)}),
                    );
                }
            }
        }
    }

    fn state_json(&self, n: usize, st: &StateSet, ev: &Ev) -> serde_json::Value {
        // only the entries authorisation can look at
        let sel = rauth::select(&ev.ty, &ev.sender, ev.state_key.as_deref(), &ev.content, self.cfg.v);
        let mut out = serde_json::Map::new();
        if let Some(keys) = selection_set(&sel) {
            for k in keys {
                if let Some(e) = st.get(&k).and_then(|id| self.servers[n].dag.get(id).or_else(|| self.dag.get(id))) {
                    out.insert(format!("{}|{}", k.0, k.1), json!({"sender": e.sender, "content": serde_json::from_str::<serde_json::Value>(&rj::canonical(&e.content)).unwrap_or_default()}));
                }
            }
        }
        serde_json::Value::Object(out)
    }

    /// State before an event = states after its prev events, resolved.
    fn state_before(&mut self, n: usize, ev: &Ev) -> Option<Rc<StateSet>> {
        let sets: Vec<Rc<StateSet>> = ev.prev.iter().filter_map(|p| self.servers[n].have.get(p).map(|ne| ne.state_after.clone())).collect();
        match sets.len() {
            0 => Some(Rc::new(StateSet::new())),
            1 => Some(sets[0].clone()),
            _ => self.resolve_on(n, &sets, "state-before").map(Rc::new),
        }
    }

    /// Resolve state sets on node `n`. Ruma nodes: real `resolve`, judged by I-sr2 (C07) against
    /// `rsr2` and by I-agree (C06) against its own repetitions under permuted arguments, fresh hash
    /// keys and cooperative threads.
    pub fn resolve_on(&mut self, n: usize, sets: &[Rc<StateSet>], site: &str) -> Option<StateSet> {
        let v = self.cfg.v;
        let plain: Vec<StateSet> = sets.iter().map(|s| (**s).clone()).collect();
        let mut stats = rsr2::Stats::default();
        let mut steps: Vec<(String, BTreeMap<Key, String>, Verdict)> = Vec::new();
        let spec_model = {
            let dag = &self.servers[n].dag;
            rsr2::resolve(dag, &plain, v, &mut stats, &mut |e, st, verdict| {
                steps.push((e.id.clone(), st.iter().map(|(k, x)| (k.clone(), x.id.clone())).collect(), verdict.clone()));
            })
        };
        // Recorded findings of C07 (DESIGN §10): where a deviation of the implementation under test
        // can matter, the corresponding model variant is computed too. While a finding is listed as
        // known, its variant is the expected value (on every node kind, so the federation stays
        // consistent and everything else is still judged); otherwise variants only serve to name a
        // violation precisely.
        let ml_known = self.known.is_known("C07", ML_SIG).is_some();
        let cl_known = self.known.is_known("C07", CL_SIG).is_some();
        let ml_matters = stats.no_mainline_ancestor > 0 && stats.with_mainline_ancestor > 0;
        let cl_matters = stats.closure_differs;
        let run_variant = |me: &Sim<'_>, var: rsr2::Variant| -> (Resolved, Vec<(String, BTreeMap<Key, String>, Verdict)>) {
            let mut st2 = rsr2::Stats::default();
            let mut steps2: Vec<(String, BTreeMap<Key, String>, Verdict)> = Vec::new();
            let d = rsr2::resolve_with(&me.servers[n].dag, &plain, v, var, &mut st2, &mut |e, st, verdict| {
                steps2.push((e.id.clone(), st.iter().map(|(k, x)| (k.clone(), x.id.clone())).collect(), verdict.clone()));
            });
            (d, steps2)
        };
        // (whether one deviation matters can depend on the other, so known flags are always applied together)
        let expected_variant = rsr2::Variant { no_ancestor_shares_root_position: ml_known, power_closure_through_conflicted_only: cl_known };
        let mut model = spec_model.clone();
        if expected_variant != rsr2::Variant::default() {
            let (d, st2) = run_variant(self, expected_variant);
            if d != spec_model {
                // attribute the manifestation to the finding(s) that cause it
                let only_ml = expected_variant.no_ancestor_shares_root_position && run_variant(self, rsr2::Variant { no_ancestor_shares_root_position: true, ..Default::default() }).0 != spec_model;
                let only_cl = expected_variant.power_closure_through_conflicted_only && run_variant(self, rsr2::Variant { power_closure_through_conflicted_only: true, ..Default::default() }).0 != spec_model;
                if only_ml || !only_cl {
                    if expected_variant.no_ancestor_shares_root_position {
                        self.out.known_hits.push(format!("C07:{ML_SIG}"));
                    }
                }
                if only_cl || !only_ml {
                    if expected_variant.power_closure_through_conflicted_only {
                        self.out.known_hits.push(format!("C07:{CL_SIG}"));
                    }
                }
                steps = st2;
                model = d;
            }
        }
        // candidate explanations for a mismatch, used only to name it
        let mut explanations: Vec<(&'static str, Resolved)> = Vec::new();
        if !ml_known && (ml_matters || cl_matters) {
            explanations.push((ML_SIG, run_variant(self, rsr2::Variant { no_ancestor_shares_root_position: true, ..expected_variant }).0));
        }
        if !cl_known && cl_matters {
            explanations.push((CL_SIG, run_variant(self, rsr2::Variant { power_closure_through_conflicted_only: true, ..expected_variant }).0));
        }
        self.bump("resolve.calls");
        if sets.len() >= 3 {
            self.flag("sr.three-sets");
            self.bump("resolve.three-or-more-sets");
        }
        if stats.conflicted_keys >= 2 {
            self.flag("sr.two-conflicted-keys");
        }
        if stats.auth_diff >= 2 {
            self.flag("sr.auth-diff");
        }
        if stats.power_ts_ties > 0 {
            self.flag("sr.power-ts-tie");
            self.bump("resolve.power-ts-tie");
        }
        if stats.no_mainline_ancestor > 0 && stats.with_mainline_ancestor > 0 {
            self.flag("sr.mixed-mainline");
            self.bump("resolve.mixed-mainline-ancestry");
        }
        if stats.rejected_in_resolution > 0 {
            self.flag("sr.rejected-in-resolution");
            self.bump("resolve.rejected-in-resolution");
        }
        if stats.power_events > 0 {
            self.bump("resolve.with-power-events");
        }
        if stats.partial_pl_overrides_unconflicted {
            self.bump("resolve.partial-pl-overrides-unconflicted");
            self.flag("sr.partial-pl-overrides");
        }
        if stats.conflicted_keys > 0 {
            self.bump("resolve.conflicted");
        }
        if !self.is_ruma(n) {
            return match model {
                Resolved::Ok(s) => Some(s),
                Resolved::Undecided(w) => {
                    self.log(|| format!("rsr2 undecided on a Ref node ({w}); run abandoned"));
                    self.bump("run.undecided-abort");
                    self.failed = true;
                    None
                }
            };
        }
        // real side
        let chains: Vec<BTreeSet<String>> = plain.iter().map(|s| rsr2::auth_chain_of_set(&self.servers[n].dag, s)).collect();
        let store: BTreeMap<String, Pdu> = self.servers[n].have.iter().filter_map(|(id, ne)| ne.pdu.clone().map(|p| (id.clone(), p))).collect();
        let fetch = |id: &str| store.get(id).cloned();
        let ident: Vec<usize> = (0..plain.len()).collect();
        let first = real::resolve(&self.rules.authorization, &plain, &chains, &ident, &ident, &fetch, &|| {});
        let first_set = match &first {
            Outcome::Ok(s) => s.clone(),
            Outcome::Err(e) => {
                self.violate("C07", "rsr2/resolve-error".into(), json!({"oracle":"rsr2","site":site,"error":e,"sets":sets_json(&plain)}));
                return None;
            }
            Outcome::Panic(p) => {
                self.violate("C07", "rsr2/panic.resolve".into(), json!({"oracle":"rsr2","site":site,"panic":p,"sets":sets_json(&plain)}));
                return None;
            }
        };
        // I-agree (C06): repetitions under permuted arguments and fresh hash keys
        for rep in 0..self.cfg.resolve_repeats {
            let mut order = ident.clone();
            let mut corder = ident.clone();
            self.t.shuffle(&mut order);
            self.t.shuffle(&mut corder);
            let again = real::resolve(&self.rules.authorization, &plain, &chains, &order, &corder, &fetch, &|| {});
            self.bump("agree.repetitions");
            if order != ident || corder != ident {
                self.flag("c06.permuted");
            }
            if again != first {
                let what = if order != ident || corder != ident { "permutation" } else { "repetition" };
                self.violate(
                    "C06",
                    format!("agree/resolve.{what}"),
                    json!({"oracle":"equality","site":site,"repetition":rep,"state_set_order":order,"auth_chain_order":corder,"first":outcome_json(&first),"again":outcome_json(&again),"sets":sets_json(&plain)}),
                );
                return None;
            }
        }
        // "however often": an unrelated resolution in between - the twin of this very room (same room
        // ID and event IDs, users rotated, so another creator and other power holders) resolved on
        // this thread - must not change what the next resolution of the real room returns
        if self.t.chance(1, 4) {
            let users = self.all_users.clone();
            let rot = 1 + self.t.index(users.len().max(2) - 1);
            let map: Vec<(String, String)> = users.iter().enumerate().map(|(i, u)| (u.clone(), users[(i + rot) % users.len()].clone())).collect();
            // synthetic rooms have their own users
            let mut extra: BTreeSet<String> = BTreeSet::new();
            for s in &plain {
                for (k, _) in s.iter() {
                    if k.0 == "m.room.member" && !users.contains(&k.1) {
                        extra.insert(k.1.clone());
                    }
                }
            }
            let extra: Vec<String> = extra.into_iter().collect();
            let map: Vec<(String, String)> = if extra.len() >= 2 { extra.iter().enumerate().map(|(i, u)| (u.clone(), extra[(i + 1) % extra.len()].clone())).collect() } else { map };
            let twin: BTreeMap<String, Pdu> = store.iter().filter_map(|(id, p)| crate::conv::twin_pdu(p, &map).map(|tp| (id.clone(), tp))).collect();
            let tfetch = |id: &str| twin.get(id).cloned();
            // either on this thread (the twin is the latest call before the real one) or on a brand-new
            // thread (the twin is the very first call the thread ever makes)
            let on_new_thread = self.t.chance(1, 2);
            let again = if on_new_thread {
                let seed = self.t.u64();
                let (rules, plain, chains, ident, fetch, tfetch) = (&self.rules.authorization, &plain, &chains, &ident, &fetch, &tfetch);
                std::thread::scope(|sc| {
                    sc.spawn(move || {
                        simcore::hashseed::set_thread_seed(seed);
                        let _ = real::resolve(rules, plain, chains, ident, ident, tfetch, &|| {});
                        real::resolve(rules, plain, chains, ident, ident, fetch, &|| {})
                    })
                    .join()
                    .unwrap_or(Outcome::Panic("thread died".into()))
                })
            } else {
                let _ = real::resolve(&self.rules.authorization, &plain, &chains, &ident, &ident, &tfetch, &|| {});
                real::resolve(&self.rules.authorization, &plain, &chains, &ident, &ident, &fetch, &|| {})
            };
            self.bump(if on_new_thread { "agree.after-twin-room.new-thread" } else { "agree.after-twin-room.this-thread" });
            self.bump("agree.after-twin-room");
            self.flag("c06.twin-room");
            if again != first {
                self.violate(
                    "C06",
                    "agree/resolve.after-unrelated-call".into(),
                    json!({"oracle":"equality","site":site,"first":outcome_json(&first),"after_resolving_the_twin_room":outcome_json(&again),"user_map":map,"sets":sets_json(&plain)}),
                );
                return None;
            }
        }
        // "over a given event store", whatever it holds: with one event missing from the store (a lost
        // write) the outcome - a state map or an error - is still the same under every argument order,
        // and it is never a panic. (What the right state map is with events missing is not the
        // specification's business, so there is no model comparison here.)
        if self.t.chance(1, 6) {
            let mut cands: BTreeSet<String> = BTreeSet::new();
            for s in &plain {
                cands.extend(s.values().cloned());
            }
            for c in &chains {
                cands.extend(c.iter().cloned());
            }
            let cands: Vec<String> = cands.into_iter().filter(|id| store.get(id).is_some_and(|p| p.ty != ruma_events::TimelineEventType::RoomCreate)).collect();
            if !cands.is_empty() {
                let gone = self.t.pick(&cands).clone();
                let hfetch = |id: &str| if id == gone { None } else { store.get(id).cloned() };
                let a = real::resolve(&self.rules.authorization, &plain, &chains, &ident, &ident, &hfetch, &|| {});
                let mut order = ident.clone();
                let mut corder = ident.clone();
                self.t.shuffle(&mut order);
                self.t.shuffle(&mut corder);
                let b = real::resolve(&self.rules.authorization, &plain, &chains, &order, &corder, &hfetch, &|| {});
                self.bump("agree.missing-event-resolutions");
                self.bump("fault.store.event-missing-at-resolution");
                let what = if a.panic().is_some() || b.panic().is_some() { Some("panic") } else if a != b { Some("permutation") } else { None };
                if let Some(what) = what {
                    self.violate(
                        "C06",
                        format!("agree/resolve.missing-event.{what}"),
                        json!({"oracle":"equality","site":site,"missing_event":gone,"state_set_order":order,"auth_chain_order":corder,"first":outcome_json(&a),"again":outcome_json(&b),"sets":sets_json(&plain)}),
                    );
                    return None;
                }
            }
        }
        // identity clauses
        if self.t.chance(1, 4) {
            let s = plain[self.t.index(plain.len())].clone();
            let k = 1 + self.t.below(3) as usize;
            let same: Vec<StateSet> = (0..k).map(|_| s.clone()).collect();
            let ch: Vec<BTreeSet<String>> = (0..k).map(|_| rsr2::auth_chain_of_set(&self.servers[n].dag, &s)).collect();
            let idn: Vec<usize> = (0..k).collect();
            let r = real::resolve(&self.rules.authorization, &same, &ch, &idn, &idn, &fetch, &|| {});
            self.bump("agree.identity-probes");
            if r != Outcome::Ok(s.clone()) {
                self.violate("C06", format!("agree/identity.{}", if k == 1 { "single-set" } else { "identical-sets" }), json!({"oracle":"equality","copies":k,"set":state_json(&s),"real":outcome_json(&r)}));
                return None;
            }
        }
        // cooperative threads
        if self.cfg.threads && self.t.chance(1, 3) {
            let seeds = [self.t.u64(), self.t.u64()];
            let sched: Vec<u8> = self.t.bytes(64);
            let mut orders = [ident.clone(), ident.clone()];
            self.t.shuffle(&mut orders[0]);
            self.t.shuffle(&mut orders[1]);
            let baton = Baton { m: Mutex::new(BatonState { turn: sched[0] as usize % 2, done: [false; 2], sched: sched.clone(), pos: 1, switches: 0 }), cv: Condvar::new() };
            let rules = self.rules.authorization.clone();
            let results: Vec<Outcome<StateSet>> = std::thread::scope(|sc| {
                let hs: Vec<_> = (0..2usize)
                    .map(|me| {
                        let (baton, plain, chains, order, fetch, rules) = (&baton, &plain, &chains, &orders[me], &fetch, &rules);
                        let seed = seeds[me];
                        sc.spawn(move || {
                            simcore::hashseed::set_thread_seed(seed);
                            baton.wait_turn(me);
                            let r = real::resolve(rules, plain, chains, order, order, fetch, &|| baton.yield_point(me));
                            baton.finish(me);
                            r
                        })
                    })
                    .collect();
                hs.into_iter().map(|h| h.join().unwrap_or(Outcome::Panic("thread died".into()))).collect()
            });
            let switches = baton.m.lock().unwrap().switches;
            self.out.add("agree.thread-switches", switches);
            self.bump("agree.thread-runs");
            self.flag("c06.threads");
            for (i, r) in results.iter().enumerate() {
                if *r != first {
                    self.violate("C06", "agree/resolve.thread".into(), json!({"oracle":"equality","thread":i,"hash_seed":seeds[i],"schedule":sched,"first":outcome_json(&first),"on_thread":outcome_json(r),"sets":sets_json(&plain)}));
                    return None;
                }
            }
        }
        // (the C06 oracles come first: a nondeterministic result would otherwise always be reported
        //  as a mismatch with the model and the run would end before equality is judged)
        // I-sr2 (C07)
        match &model {
            Resolved::Ok(m) => {
                if *m != first_set {
                    let (k, ty) = first_diff(m, &first_set);
                    let tag = if stats.no_mainline_ancestor > 0 && stats.with_mainline_ancestor > 0 { ".mixed-pl-ancestry" } else { "" };
                    let sig = match explanations.iter().find(|(_, d)| crate::sim::resolved_ok(d) == Some(&first_set)) {
                        Some((name, _)) => name.to_string(),
                        None => format!("rsr2/state-differs.{ty}{tag}"),
                    };
                    self.violate(
                        "C07",
                        sig,
                        json!({"oracle":"rsr2","site":site,"room_version":v,"first_differing_key":k,"real":state_json(&first_set),"expected":state_json(m),
                               "sets":sets_json(&plain),"stats":format!("{stats:?}"),"events":self.events_json(n, &plain, &chains)}),
                    );
                    return None;
                }
                self.bump("resolve.compared-with-rsr2");
            }
            Resolved::Undecided(w) => {
                self.bump("resolve.undecided");
                let slug: String = w.chars().map(|c| if c.is_ascii_alphanumeric() { c } else { '-' }).take(48).collect();
                self.bump(&format!("undecided.resolve.{slug}"));
            }
        }
        // I-auth inside resolution: every iterative-auth step of the model, re-judged by the real auth_check
        for (id, st, verdict) in steps.iter().take(12) {
            let Some(ne) = self.servers[n].have.get(id) else { continue };
            let (Some(pdu), ev) = (ne.pdu.clone(), ne.ev.clone()) else { continue };
            let stset: StateSet = st.clone();
            let (real, reads) = {
                let node = &self.servers[n];
                let look = |k: &Key| stset.get(k).and_then(|id| node.have.get(id)).and_then(|x| x.pdu.clone());
                real::auth_check(&self.rules.authorization, &pdu, &look)
            };
            self.judge_auth(&ev, &stset, &real, &reads, verdict, "iterative-auth", n);
            if self.stop() {
                return None;
            }
        }
        Some(first_set)
    }

    fn events_json(&self, n: usize, sets: &[StateSet], chains: &[BTreeSet<String>]) -> serde_json::Value {
        let mut ids: BTreeSet<String> = BTreeSet::new();
        for s in sets {
            ids.extend(s.values().cloned());
        }
        for c in chains {
            ids.extend(c.iter().cloned());
        }
        let mut out = serde_json::Map::new();
        for id in ids {
            if let Some(e) = self.servers[n].dag.get(&id) {
                out.insert(id, ev_json(e));
            }
        }
        serde_json::Value::Object(out)
    }

    /// Process an event whose ancestors are all known to node `n`.
    fn process(&mut self, n: usize, id: &str, ev: Rc<Ev>, text: &str, from_disk: bool) {
        if self.stop() || self.servers[n].have.contains_key(id) {
            return;
        }
        let pdu = if self.is_ruma(n) {
            match conv::pdu_from_ev(&ev) {
                Ok(p) => Some(p),
                Err(_) => {
                    self.bump("rx.untypable");
                    return;
                }
            }
        } else {
            None
        };
        self.servers[n].dag.insert(id.to_string(), ev.clone());
        // (a) rejected auth events ⇒ reject (the caller's job, per auth_check's documentation)
        let auth_rejected = ev.auth.iter().any(|a| self.servers[n].have.get(a).is_some_and(|x| !x.accepted));
        // envelope: two auth events with the same (type, state_key) are not judged (DESIGN §4.5)
        let mut auth_state = StateSet::new();
        let mut dup_auth = false;
        for a in &ev.auth {
            if let Some(x) = self.servers[n].have.get(a) {
                if let Some(sk) = &x.ev.state_key {
                    if auth_state.insert(key(&x.ev.ty, sk), a.clone()).is_some() {
                        dup_auth = true;
                    }
                }
            }
        }
        let mut accepted = !auth_rejected && !dup_auth;
        // (b) against the auth events
        if accepted {
            match self.auth_on(n, &ev, pdu.as_ref(), &auth_state, "auth-events") {
                Some(ok) => accepted = ok,
                None => return,
            }
        }
        // (c) state before
        let Some(before) = self.state_before(n, &ev) else { return };
        // (d) against the state before
        if accepted {
            match self.auth_on(n, &ev, pdu.as_ref(), &before, "state-before") {
                Some(ok) => accepted = ok,
                None => return,
            }
        }
        let after = if accepted && ev.state_key.is_some() { Rc::new(rsr2::apply(&before, &ev)) } else { before.clone() };
        // I-agree (C06): every node that processes the event reaches the same verdict and state
        match self.records.get(id) {
            None => {
                self.records.insert(id.to_string(), Record { accepted, state_before: before.clone(), by: n });
            }
            Some(rec) => {
                if rec.accepted != accepted || *rec.state_before != *before {
                    let what = if rec.accepted != accepted { "accepted" } else { "state-before" };
                    let (by, racc, rstate) = (rec.by, rec.accepted, state_json(&rec.state_before));
                    let reload = if from_disk { ".after-restart" } else { "" };
                    self.violate(
                        "C06",
                        format!("agree/node-disagreement.{what}{reload}"),
                        json!({"oracle":"equality","event":ev_json(&ev),"node_a":self.servers[by].name,"kind_a":format!("{:?}",self.servers[by].kind),"accepted_a":racc,"state_before_a":rstate,
                               "node_b":self.servers[n].name,"kind_b":format!("{:?}",self.servers[n].kind),"accepted_b":accepted,"state_before_b":state_json(&before)}),
                    );
                    return;
                }
                self.bump("agree.node-comparisons");
            }
        }
        let depth = ev.prev.iter().filter_map(|p| self.servers[n].have.get(p).map(|x| x.depth)).max().unwrap_or(0) + 1;
        let node = &mut self.servers[n];
        if accepted {
            // rejected events never become (or consume) forward extremities
            for p in &ev.prev {
                node.extremities.remove(p);
            }
            node.extremities.insert(id.to_string());
        }
        node.current = None;
        node.have.insert(id.to_string(), NodeEv { ev: ev.clone(), pdu, accepted, state_after: after, depth });
        if !from_disk {
            node.disk.push((id.to_string(), text.to_string()));
        }
        self.bump(if accepted { "node.accepted" } else { "node.rejected" });
        let name = self.servers[n].name.clone();
        self.log(|| format!("{name} processed {} {} {}{} => {}", short_id(id), ev.ty, ev.sender, ev.state_key.as_ref().map(|k| format!(" key={k}")).unwrap_or_default(), if accepted { "accepted" } else { "REJECTED" }));
    }

    /// The node's current room state: the states after its forward extremities, resolved.
    pub fn current_state(&mut self, n: usize) -> Option<Rc<StateSet>> {
        if let Some(c) = &self.servers[n].current {
            return Some(c.clone());
        }
        let sets: Vec<Rc<StateSet>> = self.servers[n].extremities.iter().filter_map(|e| self.servers[n].have.get(e).map(|x| x.state_after.clone())).collect();
        let st = match sets.len() {
            0 => Rc::new(StateSet::new()),
            1 => sets[0].clone(),
            _ => Rc::new(self.resolve_on(n, &sets, "current-state")?),
        };
        self.servers[n].current = Some(st.clone());
        Some(st)
    }

    // -----------------------------------------------------------------------------------------
    // crash / restart (DESIGN §3.4)

    pub fn crash(&mut self, n: usize) {
        if !self.servers[n].up {
            return;
        }
        self.bump("fault.crash");
        let name = self.servers[n].name.clone();
        let node = &mut self.servers[n];
        node.up = false;
        node.have.clear();
        node.dag.clear();
        node.pending.clear();
        node.extremities.clear();
        node.current = None;
        node.kp = None;
        // disk faults
        let lost = !node.disk.is_empty() && self.t.chance(1, 4);
        if lost {
            node.disk.pop();
        }
        let flip = !node.disk.is_empty() && self.t.chance(1, 6);
        if flip {
            let i = self.t.index(node.disk.len());
            let mut b = node.disk[i].1.clone().into_bytes();
            if !b.is_empty() {
                let k = self.t.index(b.len());
                b[k] ^= 1 << self.t.below(7);
            }
            node.disk[i].1 = String::from_utf8_lossy(&b).into_owned();
        }
        if lost {
            self.bump("fault.disk.lost-write");
        }
        if flip {
            self.bump("fault.disk.flipped-byte");
        }
        self.log(|| format!("{name} CRASHED (lost_write={lost} flipped_byte={flip})"));
    }

    pub fn restart(&mut self, n: usize) {
        if self.servers[n].up {
            return;
        }
        let seed = self.servers[n].seed;
        let ver = self.servers[n].key_version.clone();
        if self.servers[n].kind == Kind::Ruma {
            match real::keypair(&seed, &ver) {
                Ok(kp) => self.servers[n].kp = Some(kp),
                Err(e) => {
                    self.violate("C02", "rsig/from_der.rejected-valid-document".into(), json!({"oracle":"rsig","error":e}));
                    return;
                }
            }
        }
        self.servers[n].up = true;
        self.bump("fault.restart");
        let disk: Vec<(String, String)> = std::mem::take(&mut self.servers[n].disk);
        let name = self.servers[n].name.clone();
        self.log(|| format!("{name} restarting: reloading {} stored events through the real parser / verifier", disk.len()));
        let mut kept = Vec::new();
        for (id, text) in disk {
            let before = self.servers[n].have.len();
            self.on_pdu(n, n, &text, &Ledger::Clean, true);
            if self.stop() {
                return;
            }
            if self.servers[n].have.len() > before || self.servers[n].pending.contains_key(&id) {
                kept.push((id, text));
            } else {
                self.bump("restart.stored-event-unusable");
            }
        }
        self.servers[n].disk = kept;
        self.flag("restart.reloaded");
        self.bump("restart.reloads");
    }
}

pub fn short_id(id: &str) -> String {
    id.chars().take(9).collect()
}

pub fn short_type(t: &str) -> &str {
    match t {
        "m.room.create" => "create",
        "m.room.member" => "member",
        "m.room.power_levels" => "power_levels",
        "m.room.join_rules" => "join_rules",
        "m.room.third_party_invite" => "third_party_invite",
        "m.room.aliases" => "aliases",
        "m.room.redaction" => "redaction",
        "m.room.name" | "m.room.topic" => "plain-state",
        "m.room.message" => "message",
        _ => "other",
    }
}

pub fn ev_json(e: &Ev) -> serde_json::Value {
    json!({"id": e.id, "type": e.ty, "sender": e.sender, "state_key": e.state_key, "ts": e.ts,
           "content": serde_json::from_str::<serde_json::Value>(&clip(&rj::canonical(&e.content))).unwrap_or(json!("(large)")),
           "auth_events": e.auth, "prev_events": e.prev, "redacts": e.redacts})
}

pub fn state_json(s: &StateSet) -> serde_json::Value {
    serde_json::Value::Object(s.iter().map(|((t, k), id)| (format!("{t}|{k}"), json!(id))).collect())
}

pub fn sets_json(sets: &[StateSet]) -> serde_json::Value {
    json!(sets.iter().map(state_json).collect::<Vec<_>>())
}

fn outcome_json(o: &Outcome<StateSet>) -> serde_json::Value {
    match o {
        Outcome::Ok(s) => state_json(s),
        Outcome::Err(e) => json!({"error": e}),
        Outcome::Panic(p) => json!({"panic": p}),
    }
}

fn first_diff(a: &StateSet, b: &StateSet) -> (String, String) {
    let keys: BTreeSet<&Key> = a.keys().chain(b.keys()).collect();
    for k in keys {
        if a.get(k) != b.get(k) {
            return (format!("{}|{}", k.0, k.1), short_type(&k.0).to_string());
        }
    }
    ("none".into(), "none".into())
}

#[allow(dead_code)]
fn unused(_: &J, _: &Selection) {}
