//! Workload generators (DESIGN §4.3/§4.4): event contents for simulated clients and Byzantine
//! candidates. Everything is drawn from the tape.

use std::collections::BTreeMap;

use refmodel::rj::{J, MAX_INT, MIN_INT};
use simcore::Tape;

pub const KEY_ALPHABET: [&str; 18] = ["a", "b", "k", "é", "日本", "😀", "\u{1}", "\u{7f}", "A", "_", "z\u{10ffff}", "\"q\"", "back\\slash", "nl\n", "\u{ffff}", "\u{e000}", "\u{10000}", "ab"];
pub const STR_ALPHABET: [&str; 16] =
    ["", "x", "hello world", "é", "日本語", "😀🎉", "\u{0}\u{1}\u{1f}", "\u{7f}\u{80}", "tab\there", "q\"uote", "sl/ash", "back\\", "\u{2028}\u{2029}", "\u{fffd}\u{ffff}", "\u{10000}\u{10ffff}", "line\r\nfeed"];

pub fn boundary_int(t: &mut Tape) -> i64 {
    match t.below(12) {
        0 => 0,
        1 => 1,
        2 => -1,
        3 => MAX_INT,
        4 => MAX_INT - 1,
        5 => MAX_INT - 2,
        6 => MIN_INT,
        7 => MIN_INT + 1,
        8 => MIN_INT + 2,
        9 => 1 << 31,
        10 => -(1 << 31),
        _ => t.below(2000) as i64 - 1000,
    }
}

/// Arbitrary JSON value: nesting, astral/control characters, integers at the ±2^53 boundary.
pub fn gen_json(t: &mut Tape, depth: u32) -> J {
    let leaf = depth == 0 || t.chance(2, 5);
    if leaf {
        match t.below(6) {
            0 => J::Null,
            1 => J::Bool(t.chance(1, 2)),
            2 | 3 => J::Int(boundary_int(t)),
            _ => {
                let mut s = String::new();
                for _ in 0..t.below(3) + 1 {
                    s.push_str(t.pick_s(&STR_ALPHABET));
                }
                J::Str(s)
            }
        }
    } else if t.chance(1, 3) {
        J::Arr((0..t.below(4)).map(|_| gen_json(t, depth - 1)).collect())
    } else {
        let mut m = BTreeMap::new();
        for _ in 0..t.below(5) {
            let mut k = t.pick(&KEY_ALPHABET).to_string();
            if t.chance(1, 3) {
                k.push_str(t.pick_s(&KEY_ALPHABET));
            }
            m.insert(k, gen_json(t, depth - 1));
        }
        J::Obj(m)
    }
}

/// What a client or Byzantine server knows about the room when it acts.
#[derive(Clone, Debug, Default)]
pub struct View {
    pub v: u8,
    pub all_users: Vec<String>,
    pub members: BTreeMap<String, String>,
    pub pl: Option<J>,
    pub join_rule: Option<String>,
    pub creator: String,
    /// (token, sender) of m.room.third_party_invite events in the state
    pub tpi: Vec<(String, String)>,
    pub message_ids: Vec<String>,
}

impl View {
    pub fn membership(&self, u: &str) -> &str {
        self.members.get(u).map(|s| s.as_str()).unwrap_or("leave")
    }
    pub fn power(&self, u: &str) -> i64 {
        match &self.pl {
            Some(pl) => {
                if let Some(n) = pl.get("users").and_then(|us| us.get(u)).and_then(lvl) {
                    return n;
                }
                pl.get("users_default").and_then(lvl).unwrap_or(0)
            }
            None => {
                if u == self.creator {
                    100
                } else {
                    0
                }
            }
        }
    }
    pub fn named(&self, field: &str, default: i64) -> i64 {
        self.pl.as_ref().and_then(|p| p.get(field)).and_then(lvl).unwrap_or(default)
    }
}

fn lvl(j: &J) -> Option<i64> {
    match j {
        J::Int(i) => Some(*i),
        J::Str(s) => s.parse().ok(),
        _ => None,
    }
}

fn obj(pairs: Vec<(&str, J)>) -> J {
    J::Obj(pairs.into_iter().map(|(k, v)| (k.to_string(), v)).collect())
}

/// Keys that mean something for one event type, sprinkled into events of other types.
pub fn key_confusion(t: &mut Tape, content: &mut J, view: &View) {
    if !t.chance(1, 6) {
        return;
    }
    let u = t.pick(&view.all_users).clone();
    let (k, v) = match t.below(8) {
        0 => ("membership", J::s(t.pick_s(&["join", "leave", "ban", "invite", "knock"]))),
        1 => ("join_authorised_via_users_server", J::Str(u)),
        2 => ("third_party_invite", obj(vec![("display_name", J::s("x")), ("signed", obj(vec![("mxid", J::Str(u)), ("token", J::s("tok0"))]))])),
        3 => ("redacts", J::s("$nothing:x")),
        4 => ("creator", J::Str(u)),
        5 => ("join_rule", J::s("public")),
        6 => ("users", obj(vec![(u.as_str(), J::Int(100))])),
        _ => ("allow", J::Arr(vec![obj(vec![("type", J::s("m.room_membership")), ("room_id", J::s("!other:x"))])])),
    };
    if let Some(m) = content.as_obj_mut() {
        m.entry(k.to_string()).or_insert(v);
    }
}

pub fn level_value(t: &mut Tape, n: i64, v: u8, allow_bad: bool) -> J {
    if v < 10 && t.chance(1, 5) {
        // string-typed level, legal before v10; sometimes with an unusual but pure integer spelling
        return J::Str(match t.below(6) {
            0 if n >= 0 => format!("00{n}"),
            1 if n == 0 => "-0".to_string(),
            2 if n < 0 => format!("-0{}", -n),
            _ => n.to_string(),
        });
    }
    if allow_bad && t.chance(1, 12) {
        // v10+: must be rejected; before v10 only integer strings are used by the envelope
        return if v >= 10 { J::Str(n.to_string()) } else { J::Int(n) };
    }
    J::Int(n)
}

fn around(t: &mut Tape, base: i64) -> i64 {
    base + (t.below(3) as i64 - 1)
}

/// Power-levels content: every field present/absent; thresholds at actor level −1/0/+1;
/// users entries for actor/target below/equal/above.
pub fn gen_power_levels(t: &mut Tape, view: &View, actor: &str, malformed_ok: bool) -> J {
    let ap = view.power(actor);
    // admins often make small edits that keep them admins (so that several admins keep editing
    // concurrently and power-level events fork and merge)
    if ap >= 100 && t.chance(1, 2) {
        if let Some(J::Obj(cur)) = &view.pl {
            let mut m = cur.clone();
            if t.chance(1, 2) {
                let mut evs: BTreeMap<String, J> = m.get("events").and_then(|u| u.as_obj()).cloned().unwrap_or_default();
                let ty = *t.pick(&["m.room.topic", "m.room.name", "org.x.custom"]);
                evs.insert(ty.to_string(), J::Int(*t.pick(&[0i64, 10, 25, 50])));
                m.insert("events".to_string(), J::Obj(evs));
            } else {
                let mut users: BTreeMap<String, J> = m.get("users").and_then(|u| u.as_obj()).cloned().unwrap_or_default();
                let low: Vec<&String> = view.all_users.iter().filter(|u| u.as_str() != actor && view.power(u) < 100).collect();
                if let Some(who) = if low.is_empty() { None } else { Some((*t.pick(&low)).clone()) } {
                    users.insert(who, J::Int(*t.pick(&[0i64, 10, 25, 50, 75])));
                }
                m.insert("users".to_string(), J::Obj(users));
            }
            return J::Obj(m);
        }
    }
    let mut m: BTreeMap<String, J> = match (&view.pl, t.chance(3, 4)) {
        (Some(J::Obj(cur)), true) => cur.clone(), // edit the current one
        _ => BTreeMap::new(),
    };
    let v = view.v;
    let n_edits = t.range(1, 4);
    for _ in 0..n_edits {
        match t.below(12) {
            0..=4 => {
                let f = *t.pick(&["users_default", "events_default", "state_default", "ban", "redact", "kick", "invite"]);
                if t.chance(1, 4) {
                    m.remove(f);
                } else {
                    let base = match t.below(4) {
                        0 => ap,
                        1 => match m.get(f).and_then(lvl) {
                            Some(c) => c,
                            None => ap,
                        },
                        2 => *t.pick(&[0, 50, 100]),
                        _ => ap,
                    };
                    m.insert(f.to_string(), { let nv = around(t, base); level_value(t, nv, v, malformed_ok) });
                }
            }
            5..=8 => {
                // users
                let mut users: BTreeMap<String, J> = m.get("users").and_then(|u| u.as_obj()).cloned().unwrap_or_default();
                let who = if t.chance(1, 3) { actor.to_string() } else { t.pick(&view.all_users).clone() };
                if t.chance(1, 4) {
                    users.remove(&who);
                } else {
                    let base = if t.chance(1, 2) { ap } else { users.get(&who).and_then(lvl).unwrap_or(ap) };
                    users.insert(who, { let nv = around(t, base); level_value(t, nv, v, malformed_ok) });
                }
                if malformed_ok && t.chance(1, 25) {
                    users.insert("not-a-user-id".to_string(), J::Int(1));
                }
                m.insert("users".to_string(), J::Obj(users));
            }
            9..=10 => {
                let mut evs: BTreeMap<String, J> = m.get("events").and_then(|u| u.as_obj()).cloned().unwrap_or_default();
                let ty = *t.pick(&["m.room.name", "m.room.power_levels", "m.room.message", "m.room.join_rules", "org.x.custom", "m.room.topic", "m.room.redaction"]);
                if t.chance(1, 4) {
                    evs.remove(ty);
                } else {
                    let base = if t.chance(1, 2) { ap } else { evs.get(ty).and_then(lvl).unwrap_or(50) };
                    evs.insert(ty.to_string(), { let nv = around(t, base); level_value(t, nv, v, malformed_ok) });
                }
                m.insert("events".to_string(), J::Obj(evs));
            }
            _ => {
                let mut nf: BTreeMap<String, J> = m.get("notifications").and_then(|u| u.as_obj()).cloned().unwrap_or_default();
                if t.chance(1, 4) {
                    nf.remove("room");
                } else {
                    let base = if t.chance(1, 2) { ap } else { nf.get("room").and_then(lvl).unwrap_or(50) };
                    nf.insert("room".to_string(), { let nv = around(t, base); level_value(t, nv, v, malformed_ok) });
                }
                m.insert("notifications".to_string(), J::Obj(nf));
            }
        }
    }
    if malformed_ok && t.chance(1, 30) {
        m.insert("users".to_string(), J::s("nope"));
    }
    J::Obj(m)
}

/// A fresh first power-levels event in the usual shape (creator 100).
pub fn initial_power_levels(t: &mut Tape, view: &View, many_admins: bool) -> J {
    let mut users = BTreeMap::new();
    // (sometimes the creator gets no entry: with a power-levels event present the implicit 100 is gone)
    if !t.chance(1, 8) {
        users.insert(view.creator.clone(), level_value(t, 100, view.v, false));
    }
    for u in &view.all_users {
        if *u != view.creator && many_admins && t.chance(1, 2) {
            // several admins on different servers: power-level changes can race across a partition
            users.insert(u.clone(), level_value(t, 100, view.v, false));
            continue;
        }
        if *u != view.creator && t.chance(1, 3) {
            users.insert(u.clone(), { let nv = *t.pick(&[0, 25, 50, 75, 100]); level_value(t, nv, view.v, false) });
        }
    }
    let mut m = BTreeMap::new();
    if !(users.is_empty() && t.chance(1, 2)) {
        m.insert("users".to_string(), J::Obj(users));
    }
    for (f, d) in [("ban", 50), ("kick", 50), ("redact", 50), ("invite", 0), ("state_default", 50), ("events_default", 0), ("users_default", 0)] {
        if t.chance(1, 2) {
            m.insert(f.to_string(), level_value(t, d, view.v, false));
        }
    }
    J::Obj(m)
}

pub fn gen_join_rules(t: &mut Tape, view: &View) -> J {
    let rule = if view.join_rule.is_none() && t.chance(1, 2) {
        "public" // a first join rule that lets the room fill up
    } else {
        *t.pick(&["public", "public", "invite", "invite", "knock", "restricted", "knock_restricted", "private", "org.x.unknown"])
    };
    let mut m = BTreeMap::new();
    m.insert("join_rule".to_string(), J::s(rule));
    if matches!(rule, "restricted" | "knock_restricted") || t.chance(1, 6) {
        m.insert("allow".to_string(), J::Arr(vec![obj(vec![("type", J::s("m.room_membership")), ("room_id", J::s("!other:x"))])]));
    }
    if t.chance(1, 5) {
        m.insert("extra".to_string(), gen_json(t, 2));
    }
    let _ = view;
    J::Obj(m)
}

pub fn member_content(t: &mut Tape, membership: &str) -> J {
    let mut m = BTreeMap::new();
    m.insert("membership".to_string(), J::s(membership));
    if t.chance(1, 3) {
        m.insert("displayname".to_string(), J::s(t.pick_s(&STR_ALPHABET)));
    }
    if t.chance(1, 8) {
        m.insert("reason".to_string(), gen_json(t, 1));
    }
    J::Obj(m)
}

pub fn message_content(t: &mut Tape) -> J {
    let mut m = BTreeMap::new();
    m.insert("msgtype".to_string(), J::s("m.text"));
    let mut body = String::new();
    for _ in 0..t.below(4) + 1 {
        body.push_str(t.pick_s(&STR_ALPHABET));
    }
    m.insert("body".to_string(), J::Str(body));
    if t.chance(1, 2) {
        m.insert("x".to_string(), gen_json(t, 3));
    }
    J::Obj(m)
}

/// Top-level extras: keys redaction treats specially plus unknown ones.
pub fn top_level_extras(t: &mut Tape, ev: &mut J) {
    if !t.chance(1, 4) {
        return;
    }
    for _ in 0..t.range(1, 3) {
        let (k, v) = match t.below(7) {
            0 => ("origin", J::s("origin.example")),
            1 => ("membership", J::s("join")),
            2 => ("prev_state", J::Arr(vec![])),
            3 => ("redacts", J::s("$someone:else")),
            4 => ("org.x.unknown", gen_json(t, 2)),
            5 => ("age", J::Int(boundary_int(t))),
            _ => ("replaces_state", J::s("$old:x")),
        };
        if let Some(m) = ev.as_obj_mut() {
            m.entry(k.to_string()).or_insert(v);
        }
    }
}
