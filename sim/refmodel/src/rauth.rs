//! `rsel` (auth-event selection, A.6) and `rauth` (authorization rules v1–v11, A.7).
//! One function per rule block; answers Allow / Reject(rule tag) / Undecided(zone).
//! `Undecided` marks inputs outside the spec-decidable envelope (DESIGN §4.5): never judged.

use std::collections::BTreeMap;
use std::rc::Rc;

use crate::revent;
use crate::rj::{J, MAX_INT, MIN_INT};

#[derive(Clone, Debug, PartialEq, Eq)]
pub struct Ev {
    pub id: String,
    pub room_id: String,
    pub sender: String,
    pub ty: String,
    pub state_key: Option<String>,
    pub content: J,
    pub ts: i64,
    pub prev: Vec<String>,
    pub auth: Vec<String>,
    pub redacts: Option<String>,
}

pub type Key = (String, String);
pub fn key(t: &str, k: &str) -> Key {
    (t.to_string(), k.to_string())
}

#[derive(Clone, Debug, PartialEq, Eq)]
pub enum Verdict {
    Allow,
    Reject(&'static str),
    Undecided(&'static str),
}

// ---------------------------------------------------------------------------------------------
// A.6 selection

#[derive(Clone, Debug, PartialEq, Eq)]
pub enum Selection {
    Ok(Vec<Key>),
    /// content malformed on a path that is read: the real function must report an error
    MustErr(&'static str),
    Undecided(&'static str),
}

pub fn plainly_valid_user_id(s: &str) -> Option<bool> {
    // Some(true): plainly valid; Some(false): plainly not a user id; None: grammar corner case (C10's business)
    if !s.starts_with('@') || !s.contains(':') {
        return Some(false);
    }
    let (local, server) = s[1..].split_once(':').unwrap();
    let local_ok = !local.is_empty() && local.bytes().all(|b| matches!(b, b'a'..=b'z' | b'0'..=b'9' | b'.' | b'_' | b'=' | b'-' | b'/' | b'+'));
    let server_ok = !server.is_empty()
        && s.len() <= 255
        && (server.bytes().all(|b| matches!(b, b'a'..=b'z' | b'A'..=b'Z' | b'0'..=b'9' | b'.' | b'-' | b':'))
            && !server.starts_with(':')
            && !server.ends_with(':')
            && server.bytes().filter(|b| *b == b':').count() <= 1
            && server.split(':').nth(1).is_none_or(|p| !p.is_empty() && p.len() <= 5 && p.bytes().all(|b| b.is_ascii_digit()))
            && !server.split(':').next().unwrap().is_empty()
            || is_bracketed_v6(server));
    if local_ok && server_ok {
        Some(true)
    } else {
        None
    }
}

fn is_bracketed_v6(server: &str) -> bool {
    // [hex:colons] with optional :port — only the shapes the simulation itself produces
    let Some(rest) = server.strip_prefix('[') else { return false };
    let Some((addr, tail)) = rest.split_once(']') else { return false };
    let addr_ok = !addr.is_empty() && addr.bytes().all(|b| b.is_ascii_hexdigit() || b == b':') && addr.parse::<std::net::Ipv6Addr>().is_ok();
    let tail_ok = tail.is_empty() || (tail.starts_with(':') && tail.len() > 1 && tail.len() <= 6 && tail[1..].bytes().all(|b| b.is_ascii_digit()));
    addr_ok && tail_ok
}

pub fn select(ty: &str, sender: &str, state_key: Option<&str>, content: &J, v: u8) -> Selection {
    if ty == "m.room.create" {
        return Selection::Ok(vec![]);
    }
    let mut out = vec![key("m.room.create", ""), key("m.room.power_levels", ""), key("m.room.member", sender)];
    let mut push = |k: Key, out: &mut Vec<Key>| {
        if !out.contains(&k) {
            out.push(k);
        }
    };
    if ty == "m.room.member" {
        let Some(sk) = state_key else { return Selection::MustErr("member event without state_key") };
        push(key("m.room.member", sk), &mut out);
        let Some(c) = content.as_obj() else { return Selection::MustErr("member content is not an object") };
        let membership = match c.get("membership") {
            Some(J::Str(m)) => m.as_str(),
            _ => return Selection::MustErr("membership missing or not a string"),
        };
        if matches!(membership, "join" | "invite" | "knock") {
            push(key("m.room.join_rules", ""), &mut out);
        }
        if membership == "invite" {
            match c.get("third_party_invite") {
                None => {}
                Some(J::Null) => return Selection::Undecided("third_party_invite: null"),
                Some(J::Obj(tpi)) => match tpi.get("signed") {
                    Some(J::Obj(signed)) => match signed.get("token") {
                        Some(J::Str(tok)) => push(key("m.room.third_party_invite", tok), &mut out),
                        _ => return Selection::MustErr("third_party_invite.signed.token missing or not a string"),
                    },
                    _ => return Selection::MustErr("third_party_invite.signed missing or not an object"),
                },
                Some(_) => return Selection::MustErr("third_party_invite is not an object"),
            }
        }
        if membership == "join" && v >= 8 {
            match c.get("join_authorised_via_users_server") {
                None => {}
                Some(J::Null) => return Selection::Undecided("join_authorised_via_users_server: null"),
                Some(J::Str(u)) => match plainly_valid_user_id(u) {
                    Some(true) => push(key("m.room.member", u), &mut out),
                    Some(false) => return Selection::MustErr("join_authorised_via_users_server is not a user id"),
                    None => return Selection::Undecided("join_authorised_via_users_server: user-id grammar corner"),
                },
                Some(_) => return Selection::MustErr("join_authorised_via_users_server is not a string"),
            }
        }
    }
    Selection::Ok(out)
}

// ---------------------------------------------------------------------------------------------
// power levels

#[derive(Clone, Copy, Debug, PartialEq, Eq)]
pub enum Lv {
    Absent,
    Val(i64),
    /// present but not acceptable as a level in this room version
    Bad,
    /// acceptability not stated by the specification
    Unclear,
}

fn level(j: Option<&J>, v: u8) -> Lv {
    match j {
        None => Lv::Absent,
        Some(J::Int(i)) => Lv::Val(*i),
        Some(J::Str(s)) if v < 10 => {
            let digits = s.strip_prefix('-').unwrap_or(s);
            if !digits.is_empty() && digits.len() <= 15 && digits.bytes().all(|b| b.is_ascii_digit()) {
                match s.parse::<i64>() {
                    Ok(n) if (MIN_INT..=MAX_INT).contains(&n) => Lv::Val(n),
                    _ => Lv::Unclear,
                }
            } else {
                Lv::Unclear
            }
        }
        Some(_) if v >= 10 => Lv::Bad,
        Some(_) => Lv::Unclear,
    }
}

pub const INT_FIELDS: [(&str, i64); 7] =
    [("users_default", 0), ("events_default", 0), ("state_default", 50), ("ban", 50), ("redact", 50), ("kick", 50), ("invite", 0)];

fn default_of(field: &str) -> i64 {
    INT_FIELDS.iter().find(|(n, _)| *n == field).map(|(_, d)| *d).unwrap_or(0)
}

/// Parsed view of a power-levels content.
#[derive(Clone, Debug)]
pub struct Pl {
    pub fields: BTreeMap<&'static str, Lv>,
    pub users: MapLv,
    pub events: MapLv,
    pub notifications: MapLv,
}

#[derive(Clone, Debug, PartialEq, Eq)]
pub enum MapLv {
    Absent,
    Map(BTreeMap<String, i64>),
    Bad,
    Unclear,
}

fn level_map(j: Option<&J>, v: u8, keys_are_users: bool) -> MapLv {
    match j {
        None => MapLv::Absent,
        Some(J::Obj(m)) => {
            let mut out = BTreeMap::new();
            let mut bad = false;
            let mut unclear = false;
            for (k, val) in m {
                if keys_are_users {
                    match plainly_valid_user_id(k) {
                        Some(true) => {}
                        Some(false) => bad = true,
                        None => unclear = true,
                    }
                }
                match level(Some(val), v) {
                    Lv::Val(n) => {
                        out.insert(k.clone(), n);
                    }
                    Lv::Bad => bad = true,
                    Lv::Unclear => unclear = true,
                    Lv::Absent => {}
                }
            }
            if bad {
                MapLv::Bad
            } else if unclear {
                MapLv::Unclear
            } else {
                MapLv::Map(out)
            }
        }
        // `users` that is not an object is rejected in every version; for events/notifications
        // the rule exists from v10 only
        Some(_) if keys_are_users || v >= 10 => MapLv::Bad,
        Some(_) => MapLv::Unclear,
    }
}

pub fn parse_pl(content: &J, v: u8) -> Option<Pl> {
    let c = content.as_obj()?;
    let mut fields = BTreeMap::new();
    for (name, _) in INT_FIELDS {
        fields.insert(name, level(c.get(name), v));
    }
    Some(Pl { fields, users: level_map(c.get("users"), v, true), events: level_map(c.get("events"), v, false), notifications: level_map(c.get("notifications"), v, false) })
}

impl Pl {
    fn well_formed(&self) -> Result<(), Verdict> {
        let mut unclear = false;
        for l in self.fields.values() {
            match l {
                Lv::Bad => return Err(Verdict::Reject("power_levels.malformed-field")),
                Lv::Unclear => unclear = true,
                _ => {}
            }
        }
        for m in [&self.users, &self.events, &self.notifications] {
            match m {
                MapLv::Bad => return Err(Verdict::Reject("power_levels.malformed-map")),
                MapLv::Unclear => unclear = true,
                _ => {}
            }
        }
        if unclear {
            return Err(Verdict::Undecided("power level value outside the decidable envelope"));
        }
        Ok(())
    }
    fn field(&self, name: &str) -> Option<i64> {
        match self.fields.get(name) {
            Some(Lv::Val(n)) => Some(*n),
            _ => None,
        }
    }
    fn field_or_default(&self, name: &str) -> i64 {
        self.field(name).unwrap_or_else(|| default_of(name))
    }
    fn map<'a>(m: &'a MapLv) -> Option<&'a BTreeMap<String, i64>> {
        match m {
            MapLv::Map(m) => Some(m),
            _ => None,
        }
    }
}

/// The view of the room state the rules need.
pub struct Ctx<'a> {
    pub v: u8,
    pub state: &'a dyn Fn(&str, &str) -> Option<Rc<Ev>>,
}

impl Ctx<'_> {
    fn get(&self, t: &str, k: &str) -> Option<Rc<Ev>> {
        (self.state)(t, k)
    }
    /// current power levels; Err if the state event is outside the envelope
    fn pl(&self) -> Result<Option<Pl>, Verdict> {
        match self.get("m.room.power_levels", "") {
            None => Ok(None),
            Some(e) => {
                let Some(pl) = parse_pl(&e.content, self.v) else { return Err(Verdict::Undecided("state power_levels content is not an object")) };
                match pl.well_formed() {
                    Ok(()) => Ok(Some(pl)),
                    Err(Verdict::Reject(_)) => Err(Verdict::Undecided("malformed power_levels event in state")),
                    Err(x) => Err(x),
                }
            }
        }
    }
    fn membership(&self, user: &str) -> Result<String, Verdict> {
        match self.get("m.room.member", user) {
            None => Ok("leave".to_string()),
            Some(e) => match e.content.get("membership") {
                Some(J::Str(m)) => Ok(m.clone()),
                _ => Err(Verdict::Undecided("member event in state without string membership")),
            },
        }
    }
    fn join_rule(&self) -> Result<String, Verdict> {
        match self.get("m.room.join_rules", "") {
            None => Err(Verdict::Undecided("no join_rules event in state")),
            Some(e) => match e.content.get("join_rule") {
                Some(J::Str(r)) => Ok(r.clone()),
                _ => Err(Verdict::Undecided("join_rules event in state without string join_rule")),
            },
        }
    }
}

fn creator_of(create: &Ev, v: u8) -> Result<String, Verdict> {
    if v >= 11 {
        Ok(create.sender.clone())
    } else {
        match create.content.get("creator") {
            Some(J::Str(c)) if plainly_valid_user_id(c) == Some(true) => Ok(c.clone()),
            _ => Err(Verdict::Undecided("create event without plainly valid creator")),
        }
    }
}

fn power_of(pl: &Option<Pl>, user: &str, creator: &str) -> i64 {
    match pl {
        Some(p) => {
            if let Some(n) = Pl::map(&p.users).and_then(|m| m.get(user)) {
                *n
            } else {
                p.field_or_default("users_default")
            }
        }
        None => {
            if user == creator {
                100
            } else {
                0
            }
        }
    }
}

fn named_level(pl: &Option<Pl>, name: &str) -> i64 {
    match pl {
        Some(p) => p.field_or_default(name),
        None => default_of(name),
    }
}

fn required_level(pl: &Option<Pl>, ty: &str, is_state: bool) -> i64 {
    if let Some(p) = pl {
        if let Some(n) = Pl::map(&p.events).and_then(|m| m.get(ty)) {
            return *n;
        }
    }
    named_level(pl, if is_state { "state_default" } else { "events_default" })
}

macro_rules! tri {
    ($e:expr) => {
        match $e {
            Ok(v) => v,
            Err(verdict) => return verdict,
        }
    };
}

// ---------------------------------------------------------------------------------------------
// A.7 rules

pub fn auth(ev: &Ev, ctx: &Ctx<'_>) -> Verdict {
    let v = ctx.v;
    // 1. m.room.create
    if ev.ty == "m.room.create" {
        if !ev.prev.is_empty() {
            return Verdict::Reject("create.has-prev-events");
        }
        let room_server = match ev.room_id.split_once(':') {
            Some((_, s)) => s,
            None => return Verdict::Undecided("room id without server part"),
        };
        match revent::server_of_user(&ev.sender) {
            Some(s) if s == room_server => {}
            Some(_) => return Verdict::Reject("create.room-id-server"),
            None => return Verdict::Undecided("sender is not a user id"),
        }
        if v <= 10 {
            match ev.content.as_obj() {
                None => return Verdict::Undecided("create content is not an object"),
                Some(c) => {
                    if !c.contains_key("creator") {
                        return Verdict::Reject("create.no-creator");
                    }
                }
            }
        }
        return Verdict::Allow;
    }
    // 2. create event present and among the auth events
    let Some(create) = ctx.get("m.room.create", "") else { return Verdict::Reject("no-create-in-state") };
    if !ev.auth.contains(&create.id) {
        return Verdict::Reject("create-not-in-auth-events");
    }
    // 3. m.federate
    match create.content.get("m.federate") {
        None => {}
        Some(J::Bool(true)) => {}
        Some(J::Bool(false)) => {
            if revent::server_of_user(&ev.sender) != revent::server_of_user(&create.sender) {
                return Verdict::Reject("not-federated");
            }
        }
        Some(_) => return Verdict::Undecided("m.federate is not a boolean"),
    }
    // 4. aliases (v1-5)
    if v <= 5 && ev.ty == "m.room.aliases" {
        return if ev.state_key.as_deref() == revent::server_of_user(&ev.sender) && ev.state_key.is_some() {
            Verdict::Allow
        } else {
            Verdict::Reject("aliases.state-key-server")
        };
    }
    // 5. membership
    if ev.ty == "m.room.member" {
        return member(ev, ctx, &create);
    }
    // 6. sender must be joined
    if tri!(ctx.membership(&ev.sender)) != "join" {
        return Verdict::Reject("sender-not-joined");
    }
    let creator = tri!(creator_of(&create, v));
    let pl = tri!(ctx.pl());
    let sender_power = power_of(&pl, &ev.sender, &creator);
    // 7. third-party invite
    if ev.ty == "m.room.third_party_invite" {
        return if sender_power >= named_level(&pl, "invite") { Verdict::Allow } else { Verdict::Reject("third_party_invite.level") };
    }
    // 8. required level for the event type
    if required_level(&pl, &ev.ty, ev.state_key.is_some()) > sender_power {
        return Verdict::Reject("event-level");
    }
    // 9. state key naming another user
    if let Some(sk) = &ev.state_key {
        if sk.starts_with('@') && *sk != ev.sender {
            return Verdict::Reject("state-key-other-user");
        }
    }
    // 10. power levels
    if ev.ty == "m.room.power_levels" {
        return power_levels(ev, &pl, sender_power, v);
    }
    // 11. redactions in v1-2
    if v <= 2 && ev.ty == "m.room.redaction" {
        if sender_power >= named_level(&pl, "redact") {
            return Verdict::Allow;
        }
        let own = revent::server_of_event_id(&ev.id);
        let target = ev.redacts.as_deref().and_then(revent::server_of_event_id);
        return if own.is_some() && own == target { Verdict::Allow } else { Verdict::Reject("redaction.v1") };
    }
    // 12.
    Verdict::Allow
}

fn member(ev: &Ev, ctx: &Ctx<'_>, create: &Ev) -> Verdict {
    let v = ctx.v;
    let Some(target) = ev.state_key.as_deref() else { return Verdict::Reject("member.no-state-key") };
    match plainly_valid_user_id(target) {
        Some(true) => {}
        _ => return Verdict::Undecided("member state_key is not a plainly valid user id"),
    }
    let membership = match ev.content.get("membership") {
        Some(J::Str(m)) => m.as_str(),
        _ => return Verdict::Reject("member.no-membership"),
    };
    match membership {
        "join" => {
            let creator = tri!(creator_of(create, v));
            // (a) the creator's first join
            if ev.prev.len() == 1 && ev.prev[0] == create.id && target == creator {
                return Verdict::Allow;
            }
            if ev.sender != target {
                return Verdict::Reject("member.join.sender-mismatch");
            }
            let current = tri!(ctx.membership(target));
            if current == "ban" {
                return Verdict::Reject("member.join.banned");
            }
            let rule = tri!(ctx.join_rule());
            if (rule == "invite" || (v >= 7 && rule == "knock")) && (current == "invite" || current == "join") {
                return Verdict::Allow;
            }
            if (v >= 8 && rule == "restricted") || (v >= 10 && rule == "knock_restricted") {
                if current == "join" || current == "invite" {
                    return Verdict::Allow;
                }
                let via = match ev.content.get("join_authorised_via_users_server") {
                    None => return Verdict::Reject("member.join.restricted.no-authoriser"),
                    Some(J::Str(u)) if plainly_valid_user_id(u) == Some(true) => u.as_str(),
                    Some(J::Null) => return Verdict::Undecided("join_authorised_via_users_server: null"),
                    Some(_) => return Verdict::Undecided("join_authorised_via_users_server not a plainly valid user id"),
                };
                if tri!(ctx.membership(via)) != "join" {
                    return Verdict::Reject("member.join.restricted.authoriser-not-joined");
                }
                let pl = tri!(ctx.pl());
                return if power_of(&pl, via, &creator) >= named_level(&pl, "invite") {
                    Verdict::Allow
                } else {
                    Verdict::Reject("member.join.restricted.authoriser-level")
                };
            }
            if rule == "public" {
                Verdict::Allow
            } else {
                Verdict::Reject("member.join.rule")
            }
        }
        "invite" => {
            match ev.content.get("third_party_invite") {
                None => {}
                Some(J::Null) => return Verdict::Undecided("third_party_invite: null"),
                Some(tpi) => return third_party_invite(ev, ctx, target, tpi),
            }
            if tri!(ctx.membership(&ev.sender)) != "join" {
                return Verdict::Reject("member.invite.sender-not-joined");
            }
            let current = tri!(ctx.membership(target));
            if current == "join" || current == "ban" {
                return Verdict::Reject("member.invite.target-joined-or-banned");
            }
            let creator = tri!(creator_of(create, v));
            let pl = tri!(ctx.pl());
            if power_of(&pl, &ev.sender, &creator) >= named_level(&pl, "invite") {
                Verdict::Allow
            } else {
                Verdict::Reject("member.invite.level")
            }
        }
        "leave" => {
            let sender_m = tri!(ctx.membership(&ev.sender));
            if ev.sender == target {
                return if sender_m == "invite" || sender_m == "join" || (v >= 7 && sender_m == "knock") {
                    Verdict::Allow
                } else {
                    Verdict::Reject("member.leave.not-in-room")
                };
            }
            if sender_m != "join" {
                return Verdict::Reject("member.kick.sender-not-joined");
            }
            let creator = tri!(creator_of(create, v));
            let pl = tri!(ctx.pl());
            let sp = power_of(&pl, &ev.sender, &creator);
            let current = tri!(ctx.membership(target));
            if current == "ban" && sp < named_level(&pl, "ban") {
                return Verdict::Reject("member.unban.level");
            }
            if sp >= named_level(&pl, "kick") && power_of(&pl, target, &creator) < sp {
                Verdict::Allow
            } else {
                Verdict::Reject("member.kick.level")
            }
        }
        "ban" => {
            if tri!(ctx.membership(&ev.sender)) != "join" {
                return Verdict::Reject("member.ban.sender-not-joined");
            }
            let creator = tri!(creator_of(create, v));
            let pl = tri!(ctx.pl());
            let sp = power_of(&pl, &ev.sender, &creator);
            if sp >= named_level(&pl, "ban") && power_of(&pl, target, &creator) < sp {
                Verdict::Allow
            } else {
                Verdict::Reject("member.ban.level")
            }
        }
        "knock" if v >= 7 => {
            let rule = tri!(ctx.join_rule());
            if !(rule == "knock" || (v >= 10 && rule == "knock_restricted")) {
                return Verdict::Reject("member.knock.join_rule");
            }
            if ev.sender != target {
                return Verdict::Reject("member.knock.sender-mismatch");
            }
            let current = tri!(ctx.membership(&ev.sender));
            if current == "ban" || current == "invite" || current == "join" {
                Verdict::Reject("member.knock.membership")
            } else {
                Verdict::Allow
            }
        }
        _ => Verdict::Reject("member.unknown-membership"),
    }
}

fn third_party_invite(ev: &Ev, ctx: &Ctx<'_>, target: &str, tpi: &J) -> Verdict {
    if tri!(ctx.membership(target)) == "ban" {
        return Verdict::Reject("member.3pid.target-banned");
    }
    let Some(tpi) = tpi.as_obj() else { return Verdict::Reject("member.3pid.malformed") };
    let signed = match tpi.get("signed") {
        Some(J::Obj(s)) => s,
        _ => return Verdict::Reject("member.3pid.no-signed"),
    };
    let (Some(J::Str(mxid)), Some(J::Str(token))) = (signed.get("mxid"), signed.get("token")) else {
        return Verdict::Reject("member.3pid.no-mxid-or-token");
    };
    if mxid != target {
        return Verdict::Reject("member.3pid.mxid-mismatch");
    }
    let Some(tpe) = ctx.get("m.room.third_party_invite", token) else { return Verdict::Reject("member.3pid.no-invite-event") };
    if tpe.sender != ev.sender {
        return Verdict::Reject("member.3pid.sender-mismatch");
    }
    // public keys of the third_party_invite event
    let mut keys: Vec<Vec<u8>> = Vec::new();
    let mut collect = |j: Option<&J>| -> Result<(), ()> {
        match j {
            None => Ok(()),
            Some(J::Str(s)) => match crate::rb64::decode_std_strict(s) {
                Some(k) => {
                    keys.push(k);
                    Ok(())
                }
                None => Err(()),
            },
            Some(_) => Err(()),
        }
    };
    let c = tpe.content.as_obj();
    if collect(c.and_then(|c| c.get("public_key"))).is_err() {
        return Verdict::Undecided("third_party_invite event public_key not strict base64");
    }
    match c.and_then(|c| c.get("public_keys")) {
        None => {}
        Some(J::Arr(a)) => {
            for k in a {
                if collect(k.get("public_key")).is_err() || k.get("public_key").is_none() {
                    return Verdict::Undecided("third_party_invite event public_keys entry malformed");
                }
            }
        }
        Some(_) => return Verdict::Undecided("third_party_invite event public_keys not an array"),
    }
    let sigs = match signed.get("signatures") {
        Some(J::Obj(s)) => s,
        _ => return Verdict::Reject("member.3pid.no-signatures"),
    };
    let msg = revent::signed_bytes(&J::Obj(signed.clone()));
    for ent in sigs.values() {
        let Some(ent) = ent.as_obj() else { return Verdict::Undecided("signed.signatures entry is not an object") };
        for (kid, sig) in ent {
            if !kid.starts_with("ed25519:") {
                continue;
            }
            let Some(sig) = sig.as_str() else { continue };
            let Some(sig) = crate::rb64::decode_std_strict(sig) else {
                return Verdict::Undecided("signed.signatures value not strict base64");
            };
            for k in &keys {
                use ed25519_dalek::Verifier;
                let (Ok(pk), Ok(sg)) = (<[u8; 32]>::try_from(k.as_slice()), <[u8; 64]>::try_from(sig.as_slice())) else { continue };
                if let Ok(vk) = ed25519_dalek::VerifyingKey::from_bytes(&pk) {
                    if vk.verify(msg.as_bytes(), &ed25519_dalek::Signature::from_bytes(&sg)).is_ok() {
                        return Verdict::Allow;
                    }
                }
            }
        }
    }
    Verdict::Reject("member.3pid.no-valid-signature")
}

fn power_levels(ev: &Ev, current: &Option<Pl>, sender_power: i64, v: u8) -> Verdict {
    let Some(new) = parse_pl(&ev.content, v) else { return Verdict::Undecided("power_levels content is not an object") };
    if let Err(verdict) = new.well_formed() {
        return verdict;
    }
    let Some(cur) = current else { return Verdict::Allow };
    // the seven integer fields
    for (name, _) in INT_FIELDS {
        let (c, n) = (cur.field(name), new.field(name));
        if c == n {
            continue;
        }
        if c.is_none() || n.is_none() {
            // adding or removing a field: whether the absent side counts as its default is not
            // stated; only decidable when both readings agree
            let with_default = c.unwrap_or(default_of(name)) > sender_power || n.unwrap_or(default_of(name)) > sender_power;
            let skipping = c.is_some_and(|x| x > sender_power) || n.is_some_and(|x| x > sender_power);
            if with_default != skipping {
                return Verdict::Undecided("power_levels: field added/removed while its default exceeds the sender's level");
            }
            if skipping {
                return Verdict::Reject("power_levels.field");
            }
            continue;
        }
        if c.unwrap() > sender_power || n.unwrap() > sender_power {
            return Verdict::Reject("power_levels.field");
        }
    }
    let empty = BTreeMap::new();
    // events
    {
        let c = Pl::map(&cur.events).unwrap_or(&empty);
        let n = Pl::map(&new.events).unwrap_or(&empty);
        for k in c.keys().chain(n.keys()) {
            let (cv, nv) = (c.get(k), n.get(k));
            if cv == nv {
                continue;
            }
            if cv.is_some_and(|x| *x > sender_power) || nv.is_some_and(|x| *x > sender_power) {
                return Verdict::Reject("power_levels.events");
            }
        }
    }
    // notifications (v6+)
    if v >= 6 {
        let c = Pl::map(&cur.notifications).unwrap_or(&empty);
        let n = Pl::map(&new.notifications).unwrap_or(&empty);
        for k in c.keys().chain(n.keys()) {
            let (cv, nv) = (c.get(k), n.get(k));
            if cv == nv {
                continue;
            }
            if cv.is_some_and(|x| *x > sender_power) || nv.is_some_and(|x| *x > sender_power) {
                return Verdict::Reject("power_levels.notifications");
            }
        }
    }
    // users
    {
        let c = Pl::map(&cur.users).unwrap_or(&empty);
        let n = Pl::map(&new.users).unwrap_or(&empty);
        for k in c.keys().chain(n.keys()) {
            let (cv, nv) = (c.get(k), n.get(k));
            if cv == nv {
                continue;
            }
            if *k != ev.sender && cv.is_some_and(|x| *x >= sender_power) {
                return Verdict::Reject("power_levels.users.current");
            }
            if nv.is_some_and(|x| *x > sender_power) {
                return Verdict::Reject("power_levels.users.new");
            }
        }
    }
    Verdict::Allow
}
