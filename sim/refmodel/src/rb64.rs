//! `rb64` — unpadded base64, standard and URL-safe alphabets (RFC 4648).

const STD: &[u8; 64] = b"ABCDEFGHIJKLMNOPQRSTUVWXYZabcdefghijklmnopqrstuvwxyz0123456789+/";
const URL: &[u8; 64] = b"ABCDEFGHIJKLMNOPQRSTUVWXYZabcdefghijklmnopqrstuvwxyz0123456789-_";

fn encode_with(data: &[u8], alpha: &[u8; 64]) -> String {
    let mut out = String::new();
    for c in data.chunks(3) {
        let n = match c.len() {
            3 => ((c[0] as u32) << 16) | ((c[1] as u32) << 8) | c[2] as u32,
            2 => ((c[0] as u32) << 16) | ((c[1] as u32) << 8),
            _ => (c[0] as u32) << 16,
        };
        out.push(alpha[(n >> 18) as usize & 63] as char);
        out.push(alpha[(n >> 12) as usize & 63] as char);
        if c.len() > 1 {
            out.push(alpha[(n >> 6) as usize & 63] as char);
        }
        if c.len() > 2 {
            out.push(alpha[n as usize & 63] as char);
        }
    }
    out
}

pub fn encode_std(data: &[u8]) -> String {
    encode_with(data, STD)
}
pub fn encode_url(data: &[u8]) -> String {
    encode_with(data, URL)
}

/// Strict decode of *unpadded* standard-alphabet base64 with canonical trailing bits.
pub fn decode_std_strict(s: &str) -> Option<Vec<u8>> {
    let b = s.as_bytes();
    if b.len() % 4 == 1 {
        return None;
    }
    let mut out = Vec::new();
    for c in b.chunks(4) {
        let mut n = 0u32;
        for (i, ch) in c.iter().enumerate() {
            let v = STD.iter().position(|x| x == ch)? as u32;
            n |= v << (18 - 6 * i);
        }
        match c.len() {
            4 => out.extend_from_slice(&[(n >> 16) as u8, (n >> 8) as u8, n as u8]),
            3 => {
                if n & 0xff != 0 {
                    return None;
                }
                out.extend_from_slice(&[(n >> 16) as u8, (n >> 8) as u8]);
            }
            2 => {
                if n & 0xffff != 0 {
                    return None;
                }
                out.push((n >> 16) as u8);
            }
            _ => return None,
        }
    }
    Some(out)
}

#[cfg(test)]
mod tests {
    use super::*;
    #[test]
    fn rfc4648() {
        assert_eq!(encode_std(b""), "");
        assert_eq!(encode_std(b"f"), "Zg");
        assert_eq!(encode_std(b"fo"), "Zm8");
        assert_eq!(encode_std(b"foo"), "Zm9v");
        assert_eq!(encode_std(b"foob"), "Zm9vYg");
        assert_eq!(encode_std(b"fooba"), "Zm9vYmE");
        assert_eq!(encode_std(b"foobar"), "Zm9vYmFy");
        assert_eq!(encode_std(&[0xfb, 0xff]), "+/8");
        assert_eq!(encode_url(&[0xfb, 0xff]), "-_8");
        assert_eq!(decode_std_strict("Zm9vYmE").unwrap(), b"fooba");
        assert!(decode_std_strict("Zm9vYmF").is_none()); // non-canonical trailing bits
    }
}
