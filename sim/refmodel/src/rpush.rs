//! `rpush` — ordered-list model of push ruleset edits (DESIGN §5, Appendix A.9).

#[derive(Clone, Copy, PartialEq, Eq, Debug, PartialOrd, Ord)]
pub enum Kind {
    Override = 0,
    Content = 1,
    Room = 2,
    Sender = 3,
    Underride = 4,
}
pub const KINDS: [Kind; 5] = [Kind::Override, Kind::Content, Kind::Room, Kind::Sender, Kind::Underride];

impl Kind {
    pub fn name(self) -> &'static str {
        match self {
            Kind::Override => "override",
            Kind::Content => "content",
            Kind::Room => "room",
            Kind::Sender => "sender",
            Kind::Underride => "underride",
        }
    }
}

#[derive(Clone, PartialEq, Eq, Debug)]
pub struct MRule {
    pub id: String,
    pub enabled: bool,
    pub default: bool,
    /// identity of the actions vector (the harness maps tags to concrete actions)
    pub actions: String,
    /// the rest of the rule's payload: pattern (content rules) / conditions (override, underride)
    pub extra: String,
}

#[derive(Clone, PartialEq, Eq, Debug, Default)]
pub struct Model {
    pub lists: [Vec<MRule>; 5],
}

/// What the property statement fixes about the outcome of an operation.
#[derive(Clone, PartialEq, Eq, Debug)]
pub enum Expect {
    /// The operation must be refused (and leave the ruleset unchanged).
    MustErr(&'static str),
    /// The operation must succeed and the model has been updated to the prescribed result.
    MustOk,
    /// The statement fixes neither outcome; if it succeeds only uniqueness / membership are judged
    /// and the model must be re-synchronised from the real list (`placement_unjudged`).
    Either(&'static str),
    /// Must succeed; membership / flags are prescribed but the position is not (override rule
    /// inserted unpositioned into a non-empty list without `.m.rule.master` first).
    MustOkPlacementUnjudged,
}

impl Model {
    pub fn list(&self, k: Kind) -> &Vec<MRule> {
        &self.lists[k as usize]
    }
    pub fn list_mut(&mut self, k: Kind) -> &mut Vec<MRule> {
        &mut self.lists[k as usize]
    }
    fn pos(&self, k: Kind, id: &str) -> Option<usize> {
        self.list(k).iter().position(|r| r.id == id)
    }

    /// Relative position class of anchor w.r.t. an existing rule: used by the harness for
    /// coverage counters only.
    pub fn relation(&self, k: Kind, id: &str, anchor: &str) -> &'static str {
        match (self.pos(k, id), self.pos(k, anchor)) {
            (_, None) => "anchor-missing",
            (None, Some(_)) => "rule-new",
            (Some(p), Some(a)) if a == p => "self",
            (Some(p), Some(a)) if a < p => "anchor-above",
            _ => "anchor-below",
        }
    }

    pub fn insert(&mut self, k: Kind, id: &str, actions: &str, extra: &str, after: Option<&str>, before: Option<&str>) -> Expect {
        if id.starts_with('.') {
            return Expect::MustErr("server-default rule id cannot be created");
        }
        for a in [after, before].into_iter().flatten() {
            if a.starts_with('.') {
                return Expect::MustErr("server-default rule used as anchor");
            }
        }
        // self anchors: judged only for panic-freedom / atomicity / uniqueness
        if after == Some(id) || before == Some(id) {
            return Expect::Either("self-anchored insert");
        }
        for a in [after, before].into_iter().flatten() {
            if self.pos(k, a).is_none() {
                return Expect::MustErr("anchor rule does not exist");
            }
        }
        if id.contains('/') || id.contains('\\') {
            // the statement says nothing about these ids; the implementation refuses them
            return Expect::Either("rule id with path separator");
        }
        if k == Kind::Override && after.is_none() {
            if let Some(b) = before {
                let l = self.list(k);
                if self.pos(k, b) == Some(0) && l[0].id != ".m.rule.master" {
                    // only possible in a list without the master rule first: undefined by the statement
                    return Expect::Either("override rule placed before the first rule of a list without .m.rule.master");
                }
            }
        }
        let existing = self.pos(k, id);
        let prev = existing.map(|p| self.list(k)[p].clone());
        let mut l: Vec<MRule> = self.list(k).iter().filter(|r| r.id != id).cloned().collect();
        let ia = after.map(|a| l.iter().position(|r| r.id == a).unwrap());
        let ib = before.map(|b| l.iter().position(|r| r.id == b).unwrap());
        let rule = MRule {
            id: id.to_string(),
            enabled: prev.as_ref().map(|p| p.enabled).unwrap_or(true),
            default: false,
            actions: actions.to_string(),
            extra: extra.to_string(),
        };
        let mut unjudged = false;
        let at = match (ia, ib) {
            (Some(a), Some(b)) => {
                if a >= b {
                    // with both anchors an accepted insert leaves the rule below `after` and directly
                    // above `before`; when `before` is not below `after` (or is the same rule) no
                    // position does both, so the only outcome that keeps the placement clause is
                    // the documented error, with the set unchanged
                    return Expect::MustErr("`before` anchor is not below `after` anchor");
                }
                b
            }
            (Some(a), None) => a + 1,
            (None, Some(b)) => b,
            (None, None) => match existing {
                Some(p) => p,
                None => {
                    if k == Kind::Override {
                        if l.is_empty() {
                            0
                        } else if l[0].id == ".m.rule.master" {
                            1
                        } else {
                            unjudged = true;
                            1.min(l.len())
                        }
                    } else {
                        0
                    }
                }
            },
        };
        l.insert(at, rule);
        *self.list_mut(k) = l;
        if unjudged {
            Expect::MustOkPlacementUnjudged
        } else {
            Expect::MustOk
        }
    }

    pub fn remove(&mut self, k: Kind, id: &str) -> Expect {
        match self.pos(k, id) {
            None => Expect::MustErr("rule to remove does not exist"),
            Some(p) => {
                if self.list(k)[p].default {
                    Expect::MustErr("server-default rule cannot be removed")
                } else {
                    self.list_mut(k).remove(p);
                    Expect::MustOk
                }
            }
        }
    }

    pub fn set_enabled(&mut self, k: Kind, id: &str, enabled: bool) -> Expect {
        match self.pos(k, id) {
            None => Expect::MustErr("rule does not exist"),
            Some(p) => {
                self.list_mut(k)[p].enabled = enabled;
                Expect::MustOk
            }
        }
    }

    pub fn set_actions(&mut self, k: Kind, id: &str, actions: &str) -> Expect {
        match self.pos(k, id) {
            None => Expect::MustErr("rule does not exist"),
            Some(p) => {
                self.list_mut(k)[p].actions = actions.to_string();
                Expect::MustOk
            }
        }
    }

    /// Invariant: rule ids unique per kind.
    pub fn unique_ids(list: &[MRule]) -> bool {
        let mut ids: Vec<&str> = list.iter().map(|r| r.id.as_str()).collect();
        ids.sort();
        ids.windows(2).all(|w| w[0] != w[1])
    }
}
