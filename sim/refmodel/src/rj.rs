//! `rj` — JSON value model, strict parser and spec-literal canonical encoder (DESIGN Appendix A.1).
//! Written from the specification; shares no code with serde_json or ruma.

use std::collections::BTreeMap;

pub const MAX_INT: i64 = 9_007_199_254_740_991; // 2^53 - 1
pub const MIN_INT: i64 = -9_007_199_254_740_991;

#[derive(Clone, Debug, PartialEq, Eq, PartialOrd, Ord, Default)]
pub enum J {
    #[default]
    Null,
    Bool(bool),
    Int(i64),
    Str(String),
    Arr(Vec<J>),
    Obj(BTreeMap<String, J>),
}

#[derive(Clone, Debug, PartialEq, Eq)]
pub enum ParseError {
    /// not JSON at all
    Syntax(String),
    /// a number that canonical JSON cannot represent (fraction, exponent, -0, out of range):
    /// the whole text is refused
    NonCanonicalNumber(String),
}

impl J {
    pub fn obj() -> J {
        J::Obj(BTreeMap::new())
    }
    pub fn s(v: &str) -> J {
        J::Str(v.to_string())
    }
    pub fn as_obj(&self) -> Option<&BTreeMap<String, J>> {
        match self {
            J::Obj(m) => Some(m),
            _ => None,
        }
    }
    pub fn as_obj_mut(&mut self) -> Option<&mut BTreeMap<String, J>> {
        match self {
            J::Obj(m) => Some(m),
            _ => None,
        }
    }
    pub fn as_str(&self) -> Option<&str> {
        match self {
            J::Str(s) => Some(s),
            _ => None,
        }
    }
    pub fn as_int(&self) -> Option<i64> {
        match self {
            J::Int(i) => Some(*i),
            _ => None,
        }
    }
    pub fn as_arr(&self) -> Option<&Vec<J>> {
        match self {
            J::Arr(a) => Some(a),
            _ => None,
        }
    }
    pub fn get(&self, k: &str) -> Option<&J> {
        self.as_obj().and_then(|m| m.get(k))
    }
    pub fn set(&mut self, k: &str, v: J) {
        if let J::Obj(m) = self {
            m.insert(k.to_string(), v);
        }
    }
    pub fn remove(&mut self, k: &str) -> Option<J> {
        match self {
            J::Obj(m) => m.remove(k),
            _ => None,
        }
    }
    pub fn depth(&self) -> usize {
        match self {
            J::Arr(a) => 1 + a.iter().map(|x| x.depth()).max().unwrap_or(0),
            J::Obj(m) => 1 + m.values().map(|x| x.depth()).max().unwrap_or(0),
            _ => 0,
        }
    }
}

// ---------------------------------------------------------------------------------------------
// canonical encoder

fn enc_str(s: &str, out: &mut String) {
    out.push('"');
    for c in s.chars() {
        match c {
            '"' => out.push_str("\\\""),
            '\\' => out.push_str("\\\\"),
            '\u{8}' => out.push_str("\\b"),
            '\u{c}' => out.push_str("\\f"),
            '\n' => out.push_str("\\n"),
            '\r' => out.push_str("\\r"),
            '\t' => out.push_str("\\t"),
            c if (c as u32) < 0x20 => {
                const HEX: &[u8; 16] = b"0123456789abcdef";
                out.push_str("\\u00");
                out.push(HEX[((c as u32) >> 4) as usize] as char);
                out.push(HEX[((c as u32) & 15) as usize] as char);
            }
            c => out.push(c),
        }
    }
    out.push('"');
}

fn enc(j: &J, out: &mut String) {
    match j {
        J::Null => out.push_str("null"),
        J::Bool(true) => out.push_str("true"),
        J::Bool(false) => out.push_str("false"),
        J::Int(i) => out.push_str(&i.to_string()),
        J::Str(s) => enc_str(s, out),
        J::Arr(a) => {
            out.push('[');
            for (n, x) in a.iter().enumerate() {
                if n > 0 {
                    out.push(',');
                }
                enc(x, out);
            }
            out.push(']');
        }
        J::Obj(m) => {
            // BTreeMap<String, _> iterates in byte order of the UTF-8 keys = code-point order
            out.push('{');
            for (n, (k, v)) in m.iter().enumerate() {
                if n > 0 {
                    out.push(',');
                }
                enc_str(k, out);
                out.push(':');
                enc(v, out);
            }
            out.push('}');
        }
    }
}

/// The canonical JSON text of a value.
pub fn canonical(j: &J) -> String {
    let mut s = String::new();
    enc(j, &mut s);
    s
}

/// Canonical text of an object without the given top-level keys.
pub fn canonical_without(j: &J, drop: &[&str]) -> String {
    match j {
        J::Obj(m) => {
            let mut m2 = m.clone();
            for d in drop {
                m2.remove(*d);
            }
            canonical(&J::Obj(m2))
        }
        _ => canonical(j),
    }
}

// ---------------------------------------------------------------------------------------------
// strict parser

struct P<'a> {
    b: &'a [u8],
    i: usize,
}

impl<'a> P<'a> {
    fn ws(&mut self) {
        while self.i < self.b.len() && matches!(self.b[self.i], b' ' | b'\t' | b'\n' | b'\r') {
            self.i += 1;
        }
    }
    fn err<T>(&self, m: &str) -> Result<T, ParseError> {
        Err(ParseError::Syntax(format!("{m} at byte {}", self.i)))
    }
    fn value(&mut self, depth: usize) -> Result<J, ParseError> {
        if depth > 512 {
            return self.err("nesting too deep for the model");
        }
        self.ws();
        if self.i >= self.b.len() {
            return self.err("unexpected end");
        }
        match self.b[self.i] {
            b'{' => {
                self.i += 1;
                let mut m = BTreeMap::new();
                self.ws();
                if self.peek() == Some(b'}') {
                    self.i += 1;
                    return Ok(J::Obj(m));
                }
                loop {
                    self.ws();
                    if self.peek() != Some(b'"') {
                        return self.err("expected object key");
                    }
                    let k = self.string()?;
                    self.ws();
                    if self.peek() != Some(b':') {
                        return self.err("expected ':'");
                    }
                    self.i += 1;
                    let v = self.value(depth + 1)?;
                    // duplicate keys: the last occurrence wins
                    m.insert(k, v);
                    self.ws();
                    match self.peek() {
                        Some(b',') => self.i += 1,
                        Some(b'}') => {
                            self.i += 1;
                            return Ok(J::Obj(m));
                        }
                        _ => return self.err("expected ',' or '}'"),
                    }
                }
            }
            b'[' => {
                self.i += 1;
                let mut a = Vec::new();
                self.ws();
                if self.peek() == Some(b']') {
                    self.i += 1;
                    return Ok(J::Arr(a));
                }
                loop {
                    a.push(self.value(depth + 1)?);
                    self.ws();
                    match self.peek() {
                        Some(b',') => self.i += 1,
                        Some(b']') => {
                            self.i += 1;
                            return Ok(J::Arr(a));
                        }
                        _ => return self.err("expected ',' or ']'"),
                    }
                }
            }
            b'"' => Ok(J::Str(self.string()?)),
            b't' => self.lit("true", J::Bool(true)),
            b'f' => self.lit("false", J::Bool(false)),
            b'n' => self.lit("null", J::Null),
            b'-' | b'0'..=b'9' => self.number(),
            _ => self.err("unexpected character"),
        }
    }
    fn peek(&self) -> Option<u8> {
        self.b.get(self.i).copied()
    }
    fn lit(&mut self, word: &str, v: J) -> Result<J, ParseError> {
        if self.b[self.i..].starts_with(word.as_bytes()) {
            self.i += word.len();
            Ok(v)
        } else {
            self.err("bad literal")
        }
    }
    fn number(&mut self) -> Result<J, ParseError> {
        let start = self.i;
        let mut neg = false;
        if self.peek() == Some(b'-') {
            neg = true;
            self.i += 1;
        }
        let ds = self.i;
        match self.peek() {
            Some(b'0') => self.i += 1,
            Some(b'1'..=b'9') => {
                while matches!(self.peek(), Some(b'0'..=b'9')) {
                    self.i += 1;
                }
            }
            _ => return self.err("bad number"),
        }
        let int_digits = &self.b[ds..self.i];
        let mut frac_or_exp = false;
        if self.peek() == Some(b'.') {
            frac_or_exp = true;
            self.i += 1;
            if !matches!(self.peek(), Some(b'0'..=b'9')) {
                return self.err("bad fraction");
            }
            while matches!(self.peek(), Some(b'0'..=b'9')) {
                self.i += 1;
            }
        }
        if matches!(self.peek(), Some(b'e') | Some(b'E')) {
            frac_or_exp = true;
            self.i += 1;
            if matches!(self.peek(), Some(b'+') | Some(b'-')) {
                self.i += 1;
            }
            if !matches!(self.peek(), Some(b'0'..=b'9')) {
                return self.err("bad exponent");
            }
            while matches!(self.peek(), Some(b'0'..=b'9')) {
                self.i += 1;
            }
        }
        let tok = String::from_utf8_lossy(&self.b[start..self.i]).to_string();
        if frac_or_exp {
            return Err(ParseError::NonCanonicalNumber(tok));
        }
        if int_digits.len() > 16 {
            return Err(ParseError::NonCanonicalNumber(tok));
        }
        let mut v: i64 = 0;
        for d in int_digits {
            v = v * 10 + (*d - b'0') as i64;
        }
        if neg {
            if v == 0 {
                return Err(ParseError::NonCanonicalNumber(tok)); // negative zero
            }
            v = -v;
        }
        if !(MIN_INT..=MAX_INT).contains(&v) {
            return Err(ParseError::NonCanonicalNumber(tok));
        }
        Ok(J::Int(v))
    }
    fn hex4(&mut self) -> Result<u32, ParseError> {
        if self.i + 4 > self.b.len() {
            return self.err("short \\u escape");
        }
        let mut v = 0u32;
        for k in 0..4 {
            let c = self.b[self.i + k];
            let d = match c {
                b'0'..=b'9' => c - b'0',
                b'a'..=b'f' => c - b'a' + 10,
                b'A'..=b'F' => c - b'A' + 10,
                _ => return self.err("bad hex digit"),
            };
            v = v * 16 + d as u32;
        }
        self.i += 4;
        Ok(v)
    }
    fn string(&mut self) -> Result<String, ParseError> {
        // at opening quote
        self.i += 1;
        let mut out: Vec<u8> = Vec::new();
        loop {
            let Some(c) = self.peek() else { return self.err("unterminated string") };
            match c {
                b'"' => {
                    self.i += 1;
                    break;
                }
                b'\\' => {
                    self.i += 1;
                    let Some(e) = self.peek() else { return self.err("unterminated escape") };
                    self.i += 1;
                    match e {
                        b'"' => out.push(b'"'),
                        b'\\' => out.push(b'\\'),
                        b'/' => out.push(b'/'),
                        b'b' => out.push(8),
                        b'f' => out.push(12),
                        b'n' => out.push(b'\n'),
                        b'r' => out.push(b'\r'),
                        b't' => out.push(b'\t'),
                        b'u' => {
                            let mut cp = self.hex4()?;
                            if (0xD800..0xDC00).contains(&cp) {
                                // high surrogate: needs a low surrogate escape
                                if self.peek() == Some(b'\\') && self.b.get(self.i + 1) == Some(&b'u') {
                                    self.i += 2;
                                    let lo = self.hex4()?;
                                    if !(0xDC00..0xE000).contains(&lo) {
                                        return self.err("invalid surrogate pair");
                                    }
                                    cp = 0x10000 + ((cp - 0xD800) << 10) + (lo - 0xDC00);
                                } else {
                                    return self.err("lone high surrogate");
                                }
                            } else if (0xDC00..0xE000).contains(&cp) {
                                return self.err("lone low surrogate");
                            }
                            let ch = char::from_u32(cp).ok_or_else(|| ParseError::Syntax("bad code point".into()))?;
                            let mut buf = [0u8; 4];
                            out.extend_from_slice(ch.encode_utf8(&mut buf).as_bytes());
                        }
                        _ => return self.err("bad escape"),
                    }
                }
                c if c < 0x20 => return self.err("raw control character in string"),
                c => {
                    out.push(c);
                    self.i += 1;
                }
            }
        }
        String::from_utf8(out).map_err(|_| ParseError::Syntax("invalid UTF-8 in string".into()))
    }
}

/// Parse a JSON text into its value (duplicate keys: last wins). A text containing a number
/// canonical JSON cannot represent is refused as a whole.
pub fn parse(text: &str) -> Result<J, ParseError> {
    let mut p = P { b: text.as_bytes(), i: 0 };
    // scan the whole text first so that a syntax error takes precedence only if it comes first;
    // callers only distinguish Ok / refused, so the order does not matter to them.
    let v = p.value(0)?;
    p.ws();
    if p.i != p.b.len() {
        return p.err("trailing characters");
    }
    Ok(v)
}

// ---------------------------------------------------------------------------------------------
// respelling (the "respell (legal)" transport fault, DESIGN §3.3): the same value, written
// differently — key order permuted at every depth, whitespace, escape spellings, and a duplicate
// key with a different value inserted *before* the real one (last wins).

pub fn respell(j: &J, choose: &mut dyn FnMut(u32) -> u32) -> String {
    let mut out = String::new();
    resp(j, choose, &mut out);
    out
}

fn ws(choose: &mut dyn FnMut(u32) -> u32, out: &mut String) {
    match choose(6) {
        0 => out.push(' '),
        1 => out.push('\n'),
        2 => out.push_str("\t "),
        3 => out.push_str("\r\n"),
        _ => {}
    }
}

fn resp_str(s: &str, choose: &mut dyn FnMut(u32) -> u32, out: &mut String) {
    out.push('"');
    for c in s.chars() {
        let cp = c as u32;
        let mode = choose(8);
        match c {
            '"' => out.push_str(if mode == 0 { "\\u0022" } else { "\\\"" }),
            '\\' => out.push_str(if mode == 0 { "\\u005c" } else { "\\\\" }),
            '/' => out.push_str(if mode < 2 { "\\/" } else { "/" }),
            '\n' => out.push_str(if mode == 0 { "\\u000A" } else { "\\n" }),
            '\t' => out.push_str(if mode == 0 { "\\u0009" } else { "\\t" }),
            '\r' => out.push_str(if mode == 0 { "\\u000d" } else { "\\r" }),
            '\u{8}' => out.push_str(if mode == 0 { "\\u0008" } else { "\\b" }),
            '\u{c}' => out.push_str(if mode == 0 { "\\u000C" } else { "\\f" }),
            _ if cp < 0x20 => out.push_str(&if mode < 4 { format!("\\u{cp:04X}") } else { format!("\\u{cp:04x}") }),
            c if mode == 0 || (mode == 1 && cp > 0x7e) => {
                // \uXXXX spelling (surrogate pair for astral characters)
                if cp >= 0x10000 {
                    let v = cp - 0x10000;
                    out.push_str(&format!("\\u{:04x}\\u{:04X}", 0xD800 + (v >> 10), 0xDC00 + (v & 0x3ff)));
                } else {
                    out.push_str(&format!("\\u{cp:04x}"));
                }
                let _ = c;
            }
            c => out.push(c),
        }
    }
    out.push('"');
}

fn decoy(v: &J) -> J {
    match v {
        J::Null => J::Int(0),
        J::Bool(b) => J::Bool(!b),
        J::Int(i) => J::Int(if *i == MAX_INT { 0 } else { i + 1 }),
        J::Str(s) => J::Str(format!("{s}~")),
        J::Arr(_) => J::obj(),
        J::Obj(_) => J::Arr(vec![]),
    }
}

fn resp(j: &J, choose: &mut dyn FnMut(u32) -> u32, out: &mut String) {
    match j {
        J::Null => out.push_str("null"),
        J::Bool(b) => out.push_str(if *b { "true" } else { "false" }),
        J::Int(i) => out.push_str(&i.to_string()),
        J::Str(s) => resp_str(s, choose, out),
        J::Arr(a) => {
            out.push('[');
            ws(choose, out);
            for (n, x) in a.iter().enumerate() {
                if n > 0 {
                    out.push(',');
                    ws(choose, out);
                }
                resp(x, choose, out);
                ws(choose, out);
            }
            out.push(']');
        }
        J::Obj(m) => {
            let mut keys: Vec<&String> = m.keys().collect();
            // permute
            for i in (1..keys.len()).rev() {
                let k = choose(i as u32 + 1) as usize;
                keys.swap(i, k);
            }
            out.push('{');
            ws(choose, out);
            let mut first = true;
            // duplicate key, different value, placed before the real occurrence
            if !keys.is_empty() && choose(5) == 0 {
                let k = keys[choose(keys.len() as u32) as usize];
                resp_str(k, choose, out);
                out.push(':');
                resp(&decoy(&m[k]), choose, out);
                first = false;
            }
            for k in keys {
                if !first {
                    out.push(',');
                    ws(choose, out);
                }
                first = false;
                resp_str(k, choose, out);
                ws(choose, out);
                out.push(':');
                ws(choose, out);
                resp(&m[k], choose, out);
                ws(choose, out);
            }
            out.push('}');
        }
    }
}

#[cfg(test)]
mod tests {
    use super::*;
    #[test]
    fn basics() {
        let v = parse(r#"{ "b":1, "a" : [true,null,"xé😀"], "b": 2 }"#).unwrap();
        assert_eq!(canonical(&v), "{\"a\":[true,null,\"xé😀\"],\"b\":2}");
        assert!(matches!(parse("1.0"), Err(ParseError::NonCanonicalNumber(_))));
        assert!(matches!(parse("-0"), Err(ParseError::NonCanonicalNumber(_))));
        assert!(matches!(parse("1e2"), Err(ParseError::NonCanonicalNumber(_))));
        assert!(matches!(parse("9007199254740992"), Err(ParseError::NonCanonicalNumber(_))));
        assert_eq!(parse("9007199254740991").unwrap(), J::Int(MAX_INT));
        assert_eq!(parse("-9007199254740991").unwrap(), J::Int(MIN_INT));
        assert!(matches!(parse(r#""\ud800""#), Err(ParseError::Syntax(_))));
        let mut n = 0u32;
        let mut ch = |m: u32| {
            n = n.wrapping_mul(1103515245).wrapping_add(12345);
            (n >> 8) % m
        };
        for _ in 0..200 {
            let t = respell(&v, &mut ch);
            assert_eq!(parse(&t).unwrap(), v, "{t}");
        }
    }
}
