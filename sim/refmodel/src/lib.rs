//! Reference models (DESIGN §3.7, Appendix A). No ruma code is used here.
pub mod rpush;
pub mod rauth;
pub mod rb64;
pub mod revent;
pub mod rj;
pub mod rsha;
pub mod rsr2;
