//! Reference models (DESIGN §3.7, Appendix A). No ruma code is used here.
pub mod rpush;
