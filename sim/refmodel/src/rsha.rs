//! `rsha` — SHA-256 written out (FIPS 180-4), so hashes/IDs do not share `sha2` with ruma.

const K: [u32; 64] = [
    0x428a2f98, 0x71374491, 0xb5c0fbcf, 0xe9b5dba5, 0x3956c25b, 0x59f111f1, 0x923f82a4, 0xab1c5ed5,
    0xd807aa98, 0x12835b01, 0x243185be, 0x550c7dc3, 0x72be5d74, 0x80deb1fe, 0x9bdc06a7, 0xc19bf174,
    0xe49b69c1, 0xefbe4786, 0x0fc19dc6, 0x240ca1cc, 0x2de92c6f, 0x4a7484aa, 0x5cb0a9dc, 0x76f988da,
    0x983e5152, 0xa831c66d, 0xb00327c8, 0xbf597fc7, 0xc6e00bf3, 0xd5a79147, 0x06ca6351, 0x14292967,
    0x27b70a85, 0x2e1b2138, 0x4d2c6dfc, 0x53380d13, 0x650a7354, 0x766a0abb, 0x81c2c92e, 0x92722c85,
    0xa2bfe8a1, 0xa81a664b, 0xc24b8b70, 0xc76c51a3, 0xd192e819, 0xd6990624, 0xf40e3585, 0x106aa070,
    0x19a4c116, 0x1e376c08, 0x2748774c, 0x34b0bcb5, 0x391c0cb3, 0x4ed8aa4a, 0x5b9cca4f, 0x682e6ff3,
    0x748f82ee, 0x78a5636f, 0x84c87814, 0x8cc70208, 0x90befffa, 0xa4506ceb, 0xbef9a3f7, 0xc67178f2,
];

pub fn sha256(data: &[u8]) -> [u8; 32] {
    let mut h: [u32; 8] = [
        0x6a09e667, 0xbb67ae85, 0x3c6ef372, 0xa54ff53a, 0x510e527f, 0x9b05688c, 0x1f83d9ab, 0x5be0cd19,
    ];
    let mut msg = data.to_vec();
    let bitlen = (data.len() as u64).wrapping_mul(8);
    msg.push(0x80);
    while msg.len() % 64 != 56 {
        msg.push(0);
    }
    msg.extend_from_slice(&bitlen.to_be_bytes());
    for block in msg.chunks(64) {
        let mut w = [0u32; 64];
        for i in 0..16 {
            w[i] = u32::from_be_bytes([block[4 * i], block[4 * i + 1], block[4 * i + 2], block[4 * i + 3]]);
        }
        for i in 16..64 {
            let s0 = w[i - 15].rotate_right(7) ^ w[i - 15].rotate_right(18) ^ (w[i - 15] >> 3);
            let s1 = w[i - 2].rotate_right(17) ^ w[i - 2].rotate_right(19) ^ (w[i - 2] >> 10);
            w[i] = w[i - 16].wrapping_add(s0).wrapping_add(w[i - 7]).wrapping_add(s1);
        }
        let mut a = h;
        for i in 0..64 {
            let s1 = a[4].rotate_right(6) ^ a[4].rotate_right(11) ^ a[4].rotate_right(25);
            let ch = (a[4] & a[5]) ^ (!a[4] & a[6]);
            let t1 = a[7].wrapping_add(s1).wrapping_add(ch).wrapping_add(K[i]).wrapping_add(w[i]);
            let s0 = a[0].rotate_right(2) ^ a[0].rotate_right(13) ^ a[0].rotate_right(22);
            let maj = (a[0] & a[1]) ^ (a[0] & a[2]) ^ (a[1] & a[2]);
            let t2 = s0.wrapping_add(maj);
            a[7] = a[6];
            a[6] = a[5];
            a[5] = a[4];
            a[4] = a[3].wrapping_add(t1);
            a[3] = a[2];
            a[2] = a[1];
            a[1] = a[0];
            a[0] = t1.wrapping_add(t2);
        }
        for i in 0..8 {
            h[i] = h[i].wrapping_add(a[i]);
        }
    }
    let mut out = [0u8; 32];
    for i in 0..8 {
        out[4 * i..4 * i + 4].copy_from_slice(&h[i].to_be_bytes());
    }
    out
}

#[cfg(test)]
mod tests {
    #[test]
    fn vectors() {
        let hex = |b: [u8; 32]| b.iter().map(|x| format!("{x:02x}")).collect::<String>();
        assert_eq!(hex(super::sha256(b"")), "e3b0c44298fc1c149afbf4c8996fb92427ae41e4649b934ca495991b7852b855");
        assert_eq!(hex(super::sha256(b"abc")), "ba7816bf8f01cfea414140de5dae2223b00361a396177a9cb410ff61f20015ad");
        assert_eq!(
            hex(super::sha256(b"abcdbcdecdefdefgefghfghighijhijkijkljklmklmnlmnomnopnopq")),
            "248d6a61d20638b8e5c026930c3e6039a33ce45964ff2167f6ecedd419db06c1"
        );
        let million = vec![b'a'; 1_000_000];
        assert_eq!(hex(super::sha256(&million)), "cdc76e5c9914fb9281a1c7e284d73e67f1809a48a497200e046d39ccc7112cd0");
    }
}
