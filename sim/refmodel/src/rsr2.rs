//! `rsr2` — state resolution v2, literal (DESIGN Appendix A.8), with its own Kahn sort.

use std::collections::{BTreeMap, BTreeSet};
use std::rc::Rc;

use crate::rauth::{self, key, Ctx, Ev, Key, Selection, Verdict};
use crate::rj::J;

pub type StateSet = BTreeMap<Key, String>;
pub type Dag = BTreeMap<String, Rc<Ev>>;

#[derive(Debug, Clone, PartialEq, Eq)]
pub enum Resolved {
    Ok(StateSet),
    /// some step left the spec-decidable envelope; the comparison is skipped
    Undecided(String),
}

/// What happened inside a resolution (reach probes).
#[derive(Debug, Default, Clone)]
pub struct Stats {
    pub conflicted_keys: usize,
    pub auth_diff: usize,
    pub power_events: usize,
    pub other_events: usize,
    pub power_ts_ties: usize,
    pub no_mainline_ancestor: usize,
    pub with_mainline_ancestor: usize,
    pub rejected_in_resolution: usize,
    pub mainline_len: usize,
    pub closure_differs: bool,
    /// the power-event pass replaced an unconflicted power-levels entry in the partial state
    pub partial_pl_overrides_unconflicted: bool,
}

pub fn auth_chain(dag: &Dag, ids: impl IntoIterator<Item = String>) -> BTreeSet<String> {
    let mut seen = BTreeSet::new();
    let mut stack: Vec<String> = Vec::new();
    for id in ids {
        if let Some(e) = dag.get(&id) {
            for a in &e.auth {
                stack.push(a.clone());
            }
        }
    }
    while let Some(id) = stack.pop() {
        if !seen.insert(id.clone()) {
            continue;
        }
        if let Some(e) = dag.get(&id) {
            for a in &e.auth {
                if !seen.contains(a) {
                    stack.push(a.clone());
                }
            }
        }
    }
    seen
}

/// Auth chain of a state set: the transitive `auth_events` closure of its events (the events
/// themselves are not included unless another event of the set references them).
pub fn auth_chain_of_set(dag: &Dag, set: &StateSet) -> BTreeSet<String> {
    auth_chain(dag, set.values().cloned())
}

pub fn is_power_event(e: &Ev) -> bool {
    match e.ty.as_str() {
        "m.room.power_levels" | "m.room.join_rules" => e.state_key.is_some(),
        "m.room.member" => {
            let m = e.content.get("membership").and_then(|m| m.as_str());
            matches!(m, Some("leave") | Some("ban")) && e.state_key.as_deref() != Some(e.sender.as_str())
        }
        _ => false,
    }
}

fn creator_in(dag: &Dag, e: &Ev, v: u8) -> Option<String> {
    for a in &e.auth {
        if let Some(c) = dag.get(a) {
            if c.ty == "m.room.create" && c.state_key.as_deref() == Some("") {
                return if v >= 11 { Some(c.sender.clone()) } else { c.content.get("creator").and_then(|x| x.as_str()).map(|s| s.to_string()) };
            }
        }
    }
    None
}

/// The sender's power level at the event: from the power-levels / create events among its own
/// auth events.
pub fn sender_power_at(dag: &Dag, e: &Ev, v: u8) -> Result<i64, String> {
    // the create event has no auth events; every other event of the room has it in its auth chain,
    // so it is emitted first whatever level is assumed for it
    if e.ty == "m.room.create" && e.auth.is_empty() {
        return Ok(100);
    }
    let mut pl_ev = None;
    for a in &e.auth {
        if let Some(x) = dag.get(a) {
            if x.ty == "m.room.power_levels" && x.state_key.as_deref() == Some("") {
                pl_ev = Some(x.clone());
            }
        }
    }
    match pl_ev {
        Some(p) => {
            let Some(pl) = rauth::parse_pl(&p.content, v) else { return Err("power_levels content not an object".into()) };
            match &pl.users {
                rauth::MapLv::Map(m) => {
                    if let Some(n) = m.get(&e.sender) {
                        return Ok(*n);
                    }
                }
                rauth::MapLv::Absent => {}
                _ => return Err("power_levels.users outside envelope".into()),
            }
            match pl.fields.get("users_default") {
                Some(rauth::Lv::Val(n)) => Ok(*n),
                Some(rauth::Lv::Absent) => Ok(0),
                _ => Err("users_default outside envelope".into()),
            }
        }
        None => match creator_in(dag, e, v) {
            Some(c) => Ok(if c == e.sender { 100 } else { 0 }),
            None => Err("event without create event among its auth events".into()),
        },
    }
}

/// Reference Kahn sort: every node once, dependencies first; among ready nodes the greatest
/// power, then earliest timestamp, then smallest id. `deps[n]` = nodes that must come before `n`.
pub fn kahn(deps: &BTreeMap<String, BTreeSet<String>>, keyf: &dyn Fn(&str) -> (i64, i64)) -> Vec<String> {
    let mut remaining: BTreeMap<String, BTreeSet<String>> = BTreeMap::new();
    for (n, d) in deps {
        remaining.entry(n.clone()).or_default();
        for x in d {
            remaining.entry(x.clone()).or_default();
            if x != n {
                remaining.get_mut(n).unwrap().insert(x.clone());
            }
        }
    }
    let mut out = Vec::new();
    while !remaining.is_empty() {
        let mut ready: Vec<(i64, i64, String)> = remaining
            .iter()
            .filter(|(_, d)| d.is_empty())
            .map(|(n, _)| {
                let (p, ts) = keyf(n);
                (-p, ts, n.clone())
            })
            .collect();
        if ready.is_empty() {
            break; // cycle: cannot happen in a DAG
        }
        ready.sort();
        let next = ready[0].2.clone();
        remaining.remove(&next);
        for d in remaining.values_mut() {
            d.remove(&next);
        }
        out.push(next);
    }
    out
}

fn iterative_auth(dag: &Dag, order: &[String], mut partial: StateSet, v: u8, stats: &mut Stats, hook: &mut dyn FnMut(&Ev, &BTreeMap<Key, Rc<Ev>>, &Verdict)) -> Result<StateSet, String> {
    for id in order {
        let Some(e) = dag.get(id) else { return Err(format!("event {id} missing from the DAG")) };
        let Some(sk) = e.state_key.clone() else { return Err(format!("non-state event {id} in the conflicted set")) };
        // state = the event's auth events by (type, key) ...
        let mut st: BTreeMap<Key, Rc<Ev>> = BTreeMap::new();
        for a in &e.auth {
            if let Some(x) = dag.get(a) {
                if let Some(xk) = &x.state_key {
                    if st.insert(key(&x.ty, xk), x.clone()).is_some() {
                        return Err("two auth events with the same (type, state_key)".into());
                    }
                }
            }
        }
        // ... overridden by the partial state at the keys of the selection
        match rauth::select(&e.ty, &e.sender, Some(&sk), &e.content, v) {
            Selection::Ok(keys) => {
                for k in keys {
                    if let Some(pid) = partial.get(&k) {
                        if let Some(pe) = dag.get(pid) {
                            st.insert(k, pe.clone());
                        }
                    }
                }
            }
            Selection::MustErr(_) => continue, // malformed: never authorised
            Selection::Undecided(w) => return Err(w.to_string()),
        }
        let lookup = |t: &str, k: &str| st.get(&key(t, k)).cloned();
        let verdict = rauth::auth(e, &Ctx { v, state: &lookup });
        hook(e, &st, &verdict);
        if std::env::var("RSR2_DEBUG").is_ok() {
            eprintln!("  iterative auth {} {} -> {:?}", e.id, e.ty, verdict);
        }
        match verdict {
            Verdict::Allow => {
                partial.insert(key(&e.ty, &sk), id.clone());
            }
            Verdict::Reject(_) => stats.rejected_in_resolution += 1,
            Verdict::Undecided(w) => return Err(w.to_string()),
        }
    }
    Ok(partial)
}

/// Recorded deviations of the implementation under test from the literal algorithm. A flag is
/// switched on only while the corresponding finding is listed as known (or to name a violation).
#[derive(Clone, Copy, PartialEq, Eq, Debug, Default)]
pub struct Variant {
    /// events without a mainline ancestor share the position of events based on the oldest
    /// mainline event (specification: they come before every event based on the mainline)
    pub no_ancestor_shares_root_position: bool,
    /// the auth chain of a power event is followed only through members of the full conflicted set
    /// (specification: the whole auth chain, intersected with the full conflicted set)
    pub power_closure_through_conflicted_only: bool,
}

pub fn resolve(dag: &Dag, sets: &[StateSet], v: u8, stats: &mut Stats, hook: &mut dyn FnMut(&Ev, &BTreeMap<Key, Rc<Ev>>, &Verdict)) -> Resolved {
    resolve_with(dag, sets, v, Variant::default(), stats, hook)
}

pub fn resolve_with(dag: &Dag, sets: &[StateSet], v: u8, variant: Variant, stats: &mut Stats, hook: &mut dyn FnMut(&Ev, &BTreeMap<Key, Rc<Ev>>, &Verdict)) -> Resolved {
    let n = sets.len();
    if n == 0 {
        return Resolved::Ok(StateSet::new());
    }
    // (1) unconflicted / conflicted
    let mut all_keys: BTreeSet<&Key> = BTreeSet::new();
    for s in sets {
        all_keys.extend(s.keys());
    }
    let mut unconflicted = StateSet::new();
    let mut conflicted_events: BTreeSet<String> = BTreeSet::new();
    for k in all_keys {
        let vals: Vec<Option<&String>> = sets.iter().map(|s| s.get(k)).collect();
        if vals.iter().all(|x| x.is_some() && *x == vals[0]) {
            unconflicted.insert(k.clone(), vals[0].unwrap().clone());
        } else {
            stats.conflicted_keys += 1;
            for x in vals.into_iter().flatten() {
                conflicted_events.insert(x.clone());
            }
        }
    }
    if conflicted_events.is_empty() {
        return Resolved::Ok(unconflicted);
    }
    // (2) auth difference
    let chains: Vec<BTreeSet<String>> = sets.iter().map(|s| auth_chain_of_set(dag, s)).collect();
    let mut union: BTreeSet<String> = BTreeSet::new();
    for c in &chains {
        union.extend(c.iter().cloned());
    }
    let diff: BTreeSet<String> = union.into_iter().filter(|id| !chains.iter().all(|c| c.contains(id))).collect();
    stats.auth_diff = diff.len();
    let full: BTreeSet<String> = conflicted_events.union(&diff).filter(|id| dag.contains_key(*id)).cloned().collect();
    // (3) power events plus their auth-chain members inside the full conflicted set
    let mut x: BTreeSet<String> = BTreeSet::new();
    let mut x_narrow: BTreeSet<String> = BTreeSet::new();
    for id in &full {
        if is_power_event(&dag[id]) {
            x.insert(id.clone());
            for a in auth_chain(dag, [id.clone()]) {
                if full.contains(&a) {
                    x.insert(a);
                }
            }
            // the narrower closure: follow auth events only through members of the conflicted set
            let mut stack = vec![id.clone()];
            while let Some(cur) = stack.pop() {
                if !x_narrow.insert(cur.clone()) {
                    continue;
                }
                for a in &dag[&cur].auth {
                    if full.contains(a) && !x_narrow.contains(a) {
                        stack.push(a.clone());
                    }
                }
            }
        }
    }
    stats.closure_differs = x != x_narrow;
    if variant.power_closure_through_conflicted_only {
        x = x_narrow;
    }
    stats.power_events = x.len();
    let mut deps: BTreeMap<String, BTreeSet<String>> = BTreeMap::new();
    for id in &x {
        // A.8 (3): Kahn on the auth_events edges within X (direct edges of the induced sub-DAG)
        deps.insert(id.clone(), dag[id].auth.iter().filter(|a| x.contains(*a)).cloned().collect());
    }
    let mut powers: BTreeMap<String, (i64, i64)> = BTreeMap::new();
    for id in &x {
        let e = &dag[id];
        match sender_power_at(dag, e, v) {
            Ok(p) => {
                powers.insert(id.clone(), (p, e.ts));
            }
            Err(w) => return Resolved::Undecided(w),
        }
    }
    {
        let mut seen: BTreeMap<(i64, i64), usize> = BTreeMap::new();
        for p in powers.values() {
            *seen.entry(*p).or_insert(0) += 1;
        }
        stats.power_ts_ties = seen.values().filter(|c| **c > 1).count();
    }
    let sorted_power = kahn(&deps, &|id| powers[id]);
    if std::env::var("RSR2_DEBUG").is_ok() {
        eprintln!("rsr2: full={full:?}\n  x={x:?}\n  powers={powers:?}\n  sorted_power={sorted_power:?}");
    }
    // (4) iterative auth over the power events
    let partial = match iterative_auth(dag, &sorted_power, unconflicted.clone(), v, stats, hook) {
        Ok(p) => p,
        Err(w) => return Resolved::Undecided(w),
    };
    if let Some(u) = unconflicted.get(&key("m.room.power_levels", "")) {
        stats.partial_pl_overrides_unconflicted = partial.get(&key("m.room.power_levels", "")) != Some(u);
    }
    // (5) mainline ordering of the rest
    let rest: Vec<String> = full.iter().filter(|id| !x.contains(*id)).cloned().collect();
    stats.other_events = rest.len();
    let mut mainline: Vec<String> = Vec::new(); // index 0 = resolved power levels event P
    let mut cur = partial.get(&key("m.room.power_levels", "")).cloned();
    while let Some(p) = cur {
        if mainline.contains(&p) {
            break;
        }
        mainline.push(p.clone());
        cur = None;
        if let Some(e) = dag.get(&p) {
            for a in &e.auth {
                if let Some(x) = dag.get(a) {
                    if x.ty == "m.room.power_levels" && x.state_key.as_deref() == Some("") {
                        cur = Some(a.clone());
                        break;
                    }
                }
            }
        }
    }
    stats.mainline_len = mainline.len();
    // position: index of the closest mainline event (P = 0, older = larger); None = no mainline ancestor
    let position = |id: &String| -> Option<usize> {
        let mut cur = Some(id.clone());
        let mut guard = 0;
        while let Some(c) = cur {
            if let Some(i) = mainline.iter().position(|m| *m == c) {
                return Some(i);
            }
            guard += 1;
            if guard > 10_000 {
                return None;
            }
            cur = None;
            if let Some(e) = dag.get(&c) {
                for a in &e.auth {
                    if let Some(x) = dag.get(a) {
                        if x.ty == "m.room.power_levels" && x.state_key.as_deref() == Some("") {
                            cur = Some(a.clone());
                            break;
                        }
                    }
                }
            }
        }
        None
    };
    // order: events whose closest mainline event is older come first; "none" is before everything
    let mut keyed: Vec<((u8, i64), i64, String)> = rest
        .iter()
        .map(|id| {
            let pos = position(id);
            match pos {
                None => stats.no_mainline_ancestor += 1,
                Some(_) => stats.with_mainline_ancestor += 1,
            }
            let k = match pos {
                None if variant.no_ancestor_shares_root_position && !mainline.is_empty() => (1u8, -((mainline.len() - 1) as i64)),
                None => (0u8, 0i64),
                Some(i) => (1u8, -(i as i64)),
            };
            (k, dag[id].ts, id.clone())
        })
        .collect();
    keyed.sort();
    let sorted_rest: Vec<String> = keyed.into_iter().map(|k| k.2).collect();
    if std::env::var("RSR2_DEBUG").is_ok() {
        eprintln!("  mainline={mainline:?}\n  sorted_rest={sorted_rest:?}");
    }
    // (6) iterative auth continues
    let mut resolved = match iterative_auth(dag, &sorted_rest, partial, v, stats, hook) {
        Ok(p) => p,
        Err(w) => return Resolved::Undecided(w),
    };
    // (7) unconflicted state wins
    for (k, id) in unconflicted {
        resolved.insert(k, id);
    }
    Resolved::Ok(resolved)
}

/// State after applying an accepted state event to a state.
pub fn apply(state: &StateSet, e: &Ev) -> StateSet {
    let mut s = state.clone();
    if let Some(sk) = &e.state_key {
        s.insert(key(&e.ty, sk), e.id.clone());
    }
    s
}

pub fn content_str<'a>(e: &'a Ev, k: &str) -> Option<&'a str> {
    match e.content.get(k) {
        Some(J::Str(s)) => Some(s),
        _ => None,
    }
}
