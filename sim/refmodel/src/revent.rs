//! `rredact`, hashes / event IDs, `rsig`, `rsigners` (DESIGN Appendix A.2 – A.5), over `rj` values.
//! Ed25519 itself is `ed25519-dalek` called directly (trusted base).

use std::collections::BTreeMap;

use ed25519_dalek::{Signer, Verifier};

use crate::rb64;
use crate::rj::{canonical, canonical_without, J};
use crate::rsha::sha256;

pub const MAX_PDU_BYTES: usize = 65_535;

/// entity -> key id -> 32 public key bytes
pub type Keys = BTreeMap<String, BTreeMap<String, Vec<u8>>>;

// ---------------------------------------------------------------------------------------------
// A.3 redaction

#[derive(Debug, Clone, PartialEq, Eq)]
pub enum Redacted {
    Ok(J),
    /// the specification does not say what redaction of this malformed object is
    Undecided(&'static str),
}

const TOP_ALWAYS: [&str; 12] = [
    "event_id", "type", "room_id", "sender", "state_key", "content", "hashes", "signatures", "depth", "prev_events", "auth_events",
    "origin_server_ts",
];
const TOP_UNTIL_V10: [&str; 3] = ["origin", "membership", "prev_state"];

pub fn top_level_kept(key: &str, v: u8) -> bool {
    TOP_ALWAYS.contains(&key) || (v <= 10 && TOP_UNTIL_V10.contains(&key))
}

/// Content keys kept for an event type in a room version. `None` = everything is kept.
pub fn content_keys_kept(ty: &str, v: u8) -> Option<Vec<&'static str>> {
    Some(match ty {
        "m.room.member" => {
            let mut k = vec!["membership"];
            if v >= 9 {
                k.push("join_authorised_via_users_server");
            }
            if v >= 11 {
                k.push("third_party_invite"); // reduced to `signed`, see below
            }
            k
        }
        "m.room.create" => {
            if v >= 11 {
                return None;
            }
            vec!["creator"]
        }
        "m.room.join_rules" => {
            if v >= 8 {
                vec!["join_rule", "allow"]
            } else {
                vec!["join_rule"]
            }
        }
        "m.room.power_levels" => {
            let mut k = vec!["ban", "events", "events_default", "kick", "redact", "state_default", "users", "users_default"];
            if v >= 11 {
                k.push("invite");
            }
            k
        }
        "m.room.aliases" => {
            if v <= 5 {
                vec!["aliases"]
            } else {
                vec![]
            }
        }
        "m.room.history_visibility" => vec!["history_visibility"],
        "m.room.redaction" => {
            if v >= 11 {
                vec!["redacts"]
            } else {
                vec![]
            }
        }
        _ => vec![],
    })
}

/// Redact the content object of an event of type `ty`.
pub fn redact_content(content: &BTreeMap<String, J>, ty: &str, v: u8) -> Redacted {
    let Some(keep) = content_keys_kept(ty, v) else {
        return Redacted::Ok(J::Obj(content.clone()));
    };
    let mut out = BTreeMap::new();
    for (k, val) in content {
        if !keep.contains(&k.as_str()) {
            continue;
        }
        if ty == "m.room.member" && k == "third_party_invite" {
            // v11: keep only `signed`; drop the key if that leaves it empty
            let Some(tpi) = val.as_obj() else {
                return Redacted::Undecided("member.third_party_invite is not an object");
            };
            if let Some(signed) = tpi.get("signed") {
                let mut m = BTreeMap::new();
                m.insert("signed".to_string(), signed.clone());
                out.insert(k.clone(), J::Obj(m));
            }
            continue;
        }
        out.insert(k.clone(), val.clone());
    }
    Redacted::Ok(J::Obj(out))
}

pub fn redact(ev: &J, v: u8) -> Redacted {
    let Some(m) = ev.as_obj() else { return Redacted::Undecided("event is not an object") };
    let ty = match m.get("type") {
        Some(J::Str(t)) => t.clone(),
        _ => return Redacted::Undecided("type missing or not a string"),
    };
    let mut out = BTreeMap::new();
    for (k, val) in m {
        if !top_level_kept(k, v) {
            continue;
        }
        if k == "content" {
            let Some(c) = val.as_obj() else { return Redacted::Undecided("content is not an object") };
            match redact_content(c, &ty, v) {
                Redacted::Ok(c2) => {
                    out.insert(k.clone(), c2);
                }
                u => return u,
            }
        } else {
            out.insert(k.clone(), val.clone());
        }
    }
    Redacted::Ok(J::Obj(out))
}

pub fn redact_because(ev: &J, v: u8, because: &J) -> Redacted {
    match redact(ev, v) {
        Redacted::Ok(mut r) => {
            let mut u = BTreeMap::new();
            u.insert("redacted_because".to_string(), because.clone());
            r.set("unsigned", J::Obj(u));
            Redacted::Ok(r)
        }
        u => u,
    }
}

// ---------------------------------------------------------------------------------------------
// A.4 hashes and IDs

#[derive(Debug, Clone, PartialEq, Eq)]
pub enum HashResult<T> {
    Ok(T),
    TooLarge(usize),
    Undecided(&'static str),
}

/// The bytes the content hash covers.
pub fn content_hash_input(ev: &J) -> String {
    canonical_without(ev, &["unsigned", "signatures", "hashes"])
}

pub fn content_hash(ev: &J) -> HashResult<[u8; 32]> {
    let text = content_hash_input(ev);
    if text.len() > MAX_PDU_BYTES {
        return HashResult::TooLarge(text.len());
    }
    HashResult::Ok(sha256(text.as_bytes()))
}

pub fn reference_hash_input(ev: &J, v: u8) -> Result<String, &'static str> {
    match redact(ev, v) {
        Redacted::Ok(r) => Ok(canonical_without(&r, &["signatures", "unsigned"])),
        Redacted::Undecided(w) => Err(w),
    }
}

pub fn reference_hash(ev: &J, v: u8) -> HashResult<String> {
    let text = match reference_hash_input(ev, v) {
        Ok(t) => t,
        Err(w) => return HashResult::Undecided(w),
    };
    if text.len() > MAX_PDU_BYTES {
        return HashResult::TooLarge(text.len());
    }
    let h = sha256(text.as_bytes());
    HashResult::Ok(if v <= 3 { rb64::encode_std(&h) } else { rb64::encode_url(&h) })
}

/// Event ID: the `event_id` member in v1-2, `$` + reference hash from v3.
pub fn event_id(ev: &J, v: u8) -> HashResult<String> {
    if v <= 2 {
        match ev.get("event_id").and_then(|e| e.as_str()) {
            Some(s) => HashResult::Ok(s.to_string()),
            None => HashResult::Undecided("v1-2 event without event_id"),
        }
    } else {
        match reference_hash(ev, v) {
            HashResult::Ok(h) => HashResult::Ok(format!("${h}")),
            HashResult::TooLarge(n) => HashResult::TooLarge(n),
            HashResult::Undecided(w) => HashResult::Undecided(w),
        }
    }
}

// ---------------------------------------------------------------------------------------------
// A.2 signing JSON

pub struct SignKey {
    pub sk: ed25519_dalek::SigningKey,
    pub version: String,
}

impl SignKey {
    pub fn from_seed(seed: [u8; 32], version: &str) -> SignKey {
        SignKey { sk: ed25519_dalek::SigningKey::from_bytes(&seed), version: version.to_string() }
    }
    pub fn public(&self) -> [u8; 32] {
        self.sk.verifying_key().to_bytes()
    }
    pub fn key_id(&self) -> String {
        format!("ed25519:{}", self.version)
    }
}

#[derive(Debug, Clone, PartialEq, Eq)]
pub enum SignResult {
    /// signed; the object now carries the signature
    Ok,
    /// must be refused, and the object left as it was
    MustErr(&'static str),
}

/// The bytes a JSON signature covers.
pub fn signed_bytes(obj: &J) -> String {
    canonical_without(obj, &["signatures", "unsigned"])
}

pub fn sign_json(obj: &mut J, entity: &str, key: &SignKey) -> SignResult {
    let Some(m) = obj.as_obj() else { return SignResult::MustErr("not an object") };
    match m.get("signatures") {
        None => {}
        Some(J::Obj(sigs)) => {
            if let Some(e) = sigs.get(entity) {
                if e.as_obj().is_none() {
                    return SignResult::MustErr("signatures[entity] is not an object");
                }
            }
        }
        Some(_) => return SignResult::MustErr("signatures is not an object"),
    }
    let sig = key.sk.sign(signed_bytes(obj).as_bytes());
    let b64 = rb64::encode_std(&sig.to_bytes());
    let m = obj.as_obj_mut().unwrap();
    let sigs = m.entry("signatures".to_string()).or_insert_with(J::obj);
    let ent = sigs.as_obj_mut().unwrap().entry(entity.to_string()).or_insert_with(J::obj);
    ent.as_obj_mut().unwrap().insert(key.key_id(), J::Str(b64));
    SignResult::Ok
}

#[derive(Debug, Clone, PartialEq, Eq)]
pub enum VerifyExpect {
    MustPass,
    MustFail(String),
    /// between the necessary and the sufficient condition, or malformed beyond the statement
    Undecided(String),
}

fn check_sig(pk: &[u8], sig_b64: &str, msg: &[u8]) -> Option<bool> {
    let sig = rb64::decode_std_strict(sig_b64)?; // None: decoding leniency is not the model's business
    let Ok(sig) = <[u8; 64]>::try_from(sig.as_slice()) else { return Some(false) };
    let Ok(pk) = <[u8; 32]>::try_from(pk) else { return Some(false) };
    let Ok(vk) = ed25519_dalek::VerifyingKey::from_bytes(&pk) else { return Some(false) };
    Some(vk.verify(msg, &ed25519_dalek::Signature::from_bytes(&sig)).is_ok())
}

/// Judge the signatures one entity placed on `msg`.
fn judge_entity(entity: &str, sigs: &BTreeMap<String, J>, keys: &Keys, msg: &[u8]) -> VerifyExpect {
    let set = match sigs.get(entity) {
        None => return VerifyExpect::MustFail(format!("no signatures for {entity}")),
        Some(J::Obj(s)) => s,
        Some(_) => return VerifyExpect::MustFail(format!("signatures[{entity}] is not an object")),
    };
    let mut good = 0;
    let mut bad = 0;
    let mut unsure = 0;
    let mut forged = 0;
    for (kid, val) in set {
        if !kid.starts_with("ed25519:") {
            continue; // other algorithms are ignored in both directions
        }
        let plain_kid = kid.len() > 8 && kid[8..].bytes().all(|b| b.is_ascii_alphanumeric() || b == b'_');
        let pk = keys.get(entity).and_then(|k| k.get(kid));
        match (pk, val) {
            (Some(pk), J::Str(s)) => match check_sig(pk, s, msg) {
                Some(true) => good += 1,
                Some(false) => {
                    bad += 1;
                    // "any change to signed content, signature or key makes it fail": a well-formed
                    // signature under a supplied key that does not verify is such a change, whatever
                    // other signatures the entity has
                    if plain_kid {
                        forged += 1;
                    }
                }
                None => unsure += 1,
            },
            _ => bad += 1,
        }
    }
    if forged > 0 {
        VerifyExpect::MustFail(format!("a signature of {entity} under a supplied key does not verify"))
    } else if good == 0 && unsure == 0 {
        VerifyExpect::MustFail(format!("no valid ed25519 signature for {entity}"))
    } else if bad == 0 && unsure == 0 {
        VerifyExpect::MustPass
    } else {
        VerifyExpect::Undecided(format!("{entity}: good={good} bad={bad} undecodable={unsure}"))
    }
}

fn combine(parts: Vec<VerifyExpect>) -> VerifyExpect {
    let mut undecided = None;
    for p in parts {
        match p {
            VerifyExpect::MustFail(w) => return VerifyExpect::MustFail(w),
            VerifyExpect::Undecided(w) => undecided = Some(w),
            VerifyExpect::MustPass => {}
        }
    }
    match undecided {
        Some(w) => VerifyExpect::Undecided(w),
        None => VerifyExpect::MustPass,
    }
}

pub fn verify_json(obj: &J, keys: &Keys) -> VerifyExpect {
    let Some(m) = obj.as_obj() else { return VerifyExpect::MustFail("not an object".into()) };
    let sigs = match m.get("signatures") {
        Some(J::Obj(s)) => s,
        _ => return VerifyExpect::MustFail("signatures missing or not an object".into()),
    };
    let msg = signed_bytes(obj);
    combine(sigs.keys().map(|e| judge_entity(e, sigs, keys, msg.as_bytes())).collect())
}

// ---------------------------------------------------------------------------------------------
// events: hash + sign, required signers, verification

pub fn server_of_user(user: &str) -> Option<&str> {
    if !user.starts_with('@') {
        return None;
    }
    user.split_once(':').map(|(_, s)| s)
}
pub fn server_of_event_id(id: &str) -> Option<&str> {
    if !id.starts_with('$') {
        return None;
    }
    id.split_once(':').map(|(_, s)| s)
}

/// `hash_and_sign_event`: adds `hashes.sha256` and the entity's signature over the redacted event.
pub fn hash_and_sign_event(ev: &mut J, entity: &str, key: &SignKey, v: u8) -> HashResult<()> {
    let h = match content_hash(ev) {
        HashResult::Ok(h) => h,
        HashResult::TooLarge(n) => return HashResult::TooLarge(n),
        HashResult::Undecided(w) => return HashResult::Undecided(w),
    };
    match ev.get("hashes") {
        None | Some(J::Obj(_)) => {}
        Some(_) => return HashResult::Undecided("hashes is not an object"),
    }
    {
        let m = ev.as_obj_mut().unwrap();
        let hashes = m.entry("hashes".to_string()).or_insert_with(J::obj);
        hashes.as_obj_mut().unwrap().insert("sha256".to_string(), J::Str(rb64::encode_std(&h)));
    }
    let mut red = match redact(ev, v) {
        Redacted::Ok(r) => r,
        Redacted::Undecided(w) => return HashResult::Undecided(w),
    };
    match sign_json(&mut red, entity, key) {
        SignResult::Ok => {}
        SignResult::MustErr(w) => return HashResult::Undecided(w),
    }
    let sigs = red.get("signatures").cloned().unwrap();
    ev.set("signatures", sigs);
    HashResult::Ok(())
}

#[derive(Debug, Clone, PartialEq, Eq)]
pub enum Signers {
    Ok(Vec<String>),
    Undecided(&'static str),
}

/// A.5: the servers whose signature an event needs.
pub fn required_signers(ev: &J, v: u8) -> Signers {
    let ty = match ev.get("type") {
        Some(J::Str(t)) => t.as_str(),
        _ => return Signers::Undecided("type missing"),
    };
    let content = ev.get("content");
    let membership = content.and_then(|c| c.get("membership")).and_then(|m| m.as_str());
    let mut out: Vec<String> = Vec::new();
    let mut third_party = false;
    if ty == "m.room.member" {
        if content.and_then(|c| c.as_obj()).is_none() || membership.is_none() {
            return Signers::Undecided("member event without string membership");
        }
        if membership == Some("invite") {
            match content.and_then(|c| c.get("third_party_invite")) {
                None => {}
                Some(J::Obj(_)) => third_party = true,
                Some(_) => return Signers::Undecided("third_party_invite is not an object"),
            }
        }
    }
    if !third_party {
        match ev.get("sender").and_then(|s| s.as_str()).and_then(server_of_user) {
            Some(s) => out.push(s.to_string()),
            None => return Signers::Undecided("sender is not a user id"),
        }
    }
    if v <= 2 {
        match ev.get("event_id").and_then(|s| s.as_str()).and_then(server_of_event_id) {
            Some(s) => out.push(s.to_string()),
            None => return Signers::Undecided("v1-2 event_id missing or without server"),
        }
    }
    if v >= 8 && ty == "m.room.member" && membership == Some("join") {
        if let Some(a) = content.and_then(|c| c.get("join_authorised_via_users_server")) {
            match a.as_str().and_then(server_of_user) {
                Some(s) => out.push(s.to_string()),
                None => return Signers::Undecided("join_authorised_via_users_server is not a user id"),
            }
        }
    }
    out.sort();
    out.dedup();
    Signers::Ok(out)
}

#[derive(Debug, Clone, PartialEq, Eq)]
pub enum EventVerdict {
    /// signatures and content hash valid
    All,
    /// signatures valid, content hash differs
    Signatures,
    Fail(String),
    Undecided(String),
}

pub fn verify_event(ev: &J, keys: &Keys, v: u8) -> EventVerdict {
    let Some(m) = ev.as_obj() else { return EventVerdict::Undecided("not an object".into()) };
    let red = match redact(ev, v) {
        Redacted::Ok(r) => r,
        Redacted::Undecided(w) => return EventVerdict::Undecided(w.into()),
    };
    let signers = match required_signers(ev, v) {
        Signers::Ok(s) => s,
        Signers::Undecided(w) => return EventVerdict::Undecided(w.into()),
    };
    let sigs = match m.get("signatures") {
        Some(J::Obj(s)) => s,
        _ => return EventVerdict::Fail("signatures missing or not an object".into()),
    };
    let stored_hash = match m.get("hashes") {
        Some(J::Obj(h)) => match h.get("sha256") {
            Some(J::Str(s)) => s.clone(),
            _ => return EventVerdict::Undecided("hashes.sha256 missing or not a string".into()),
        },
        _ => return EventVerdict::Undecided("hashes missing or not an object".into()),
    };
    let msg = signed_bytes(&red);
    match combine(signers.iter().map(|e| judge_entity(e, sigs, keys, msg.as_bytes())).collect()) {
        VerifyExpect::MustFail(w) => return EventVerdict::Fail(w),
        VerifyExpect::Undecided(w) => return EventVerdict::Undecided(w),
        VerifyExpect::MustPass => {}
    }
    match content_hash(ev) {
        HashResult::TooLarge(n) => EventVerdict::Fail(format!("event too large: {n} bytes")),
        HashResult::Undecided(w) => EventVerdict::Undecided(w.into()),
        HashResult::Ok(h) => {
            if rb64::decode_std_strict(&stored_hash).is_some_and(|d| d == h) {
                EventVerdict::All
            } else if rb64::decode_std_strict(&stored_hash).is_none() && !stored_hash.is_empty() && stored_hash.bytes().all(|b| b.is_ascii_alphanumeric() || b == b'+' || b == b'/' || b == b'=') {
                // decoding leniency (padding / trailing bits) is not the model's business
                EventVerdict::Undecided("stored hash is not strict unpadded base64".into())
            } else {
                EventVerdict::Signatures
            }
        }
    }
}

pub fn canonical_text(j: &J) -> String {
    canonical(j)
}
