//! Engine B — `pushsim` (DESIGN §5): one account's push ruleset on a server node, edited by
//! 1-3 client devices over a lossy transport (drop / duplicate / reorder ⇒ retries), with
//! server crash/restart through the JSON-persisted form. Oracle: `refmodel::rpush`.

use std::collections::BTreeMap;
use std::time::Duration;

use refmodel::rpush::{Expect, Kind, MRule, Model, KINDS};
use ruma_common::push::{
    insert_and_move_rule, Action, PushCondition, AnyPushRuleRef, NewConditionalPushRule, NewPatternedPushRule,
    NewPushRule, NewSimplePushRule, PatternedPushRule, PatternedPushRuleInit, RuleKind, Ruleset,
    Tweak,
};
use ruma_common::{OwnedRoomId, OwnedUserId, UserId};
use serde_json::json;
use simcore::sched::Sched;
use simcore::{guarded, CheckSpec, Engine, ExtraResult, Known, RunOutcome, Tape, Tier, Violation};

simcore::install_getrandom_seam!();

const PROP: &str = "C13";

#[derive(Clone, Debug, PartialEq, Eq)]
enum Op {
    Insert { kind: Kind, id: String, tag: u8, after: Option<String>, before: Option<String> },
    Remove { kind: Kind, id: String },
    SetEnabled { kind: Kind, id: String, on: bool },
    SetActions { kind: Kind, id: String, tag: u8 },
    Get { kind: Kind, id: String },
    Iter,
    /// `insert_and_move_rule` called directly on the content `IndexSet` (default position 0)
    FreeInsert { id: String, tag: u8, after: Option<String>, before: Option<String> },
}

fn op_text(op: &Op) -> String {
    match op {
        Op::Insert { kind, id, tag, after, before } => {
            format!("insert {}/{id} actions#{tag} after={after:?} before={before:?}", kind.name())
        }
        Op::Remove { kind, id } => format!("remove {}/{id}", kind.name()),
        Op::SetEnabled { kind, id, on } => format!("set_enabled {}/{id} {on}", kind.name()),
        Op::SetActions { kind, id, tag } => format!("set_actions {}/{id} actions#{tag}", kind.name()),
        Op::Get { kind, id } => format!("get {}/{id}", kind.name()),
        Op::Iter => "iter".to_string(),
        Op::FreeInsert { id, tag, after, before } => {
            format!("insert_and_move_rule content/{id} actions#{tag} after={after:?} before={before:?}")
        }
    }
}

fn actions(tag: u8) -> Vec<Action> {
    match tag {
        0 => vec![],
        1 => vec![Action::Notify],
        2 => vec![Action::Notify, Action::SetTweak(Tweak::Highlight(true))],
        n => vec![Action::Notify, Action::SetTweak(Tweak::Sound(format!("s{n}")))],
    }
}
fn actions_key(a: &[Action]) -> String {
    serde_json::to_string(a).unwrap_or_else(|_| "?".into())
}

fn rule_kind(k: Kind) -> RuleKind {
    match k {
        Kind::Override => RuleKind::Override,
        Kind::Content => RuleKind::Content,
        Kind::Room => RuleKind::Room,
        Kind::Sender => RuleKind::Sender,
        Kind::Underride => RuleKind::Underride,
    }
}

fn snapshot(rs: &Ruleset) -> [Vec<MRule>; 5] {
    let mut out: [Vec<MRule>; 5] = Default::default();
    for r in rs.iter() {
        let k = match r {
            AnyPushRuleRef::Override(_) => Kind::Override,
            AnyPushRuleRef::Content(_) => Kind::Content,
            AnyPushRuleRef::Room(_) => Kind::Room,
            AnyPushRuleRef::Sender(_) => Kind::Sender,
            AnyPushRuleRef::Underride(_) => Kind::Underride,
            _ => continue,
        };
        let extra = match r {
            AnyPushRuleRef::Override(c) | AnyPushRuleRef::Underride(c) => serde_json::to_string(&c.conditions).unwrap_or_default(),
            AnyPushRuleRef::Content(p) => p.pattern.clone(),
            _ => String::new(),
        };
        out[k as usize].push(MRule {
            id: r.rule_id().to_string(),
            enabled: r.enabled(),
            default: r.is_server_default(),
            actions: actions_key(r.actions()),
            extra,
        });
    }
    out
}

fn show(l: &[MRule]) -> Vec<String> {
    l.iter().map(|r| format!("{}{}", r.id, if r.enabled { "" } else { "(off)" })).collect()
}

fn conditions(tag: u8) -> Vec<PushCondition> {
    match tag {
        0 => vec![],
        n => vec![PushCondition::EventMatch { key: "type".into(), pattern: format!("t{n}") }],
    }
}
fn pattern(tag: u8) -> String {
    format!("pat{tag}*")
}
/// The payload besides the actions, as the model records it.
fn extra_key(kind: Kind, tag: u8) -> String {
    match kind {
        Kind::Override | Kind::Underride => serde_json::to_string(&conditions(tag)).unwrap_or_default(),
        Kind::Content => pattern(tag),
        _ => String::new(),
    }
}

fn new_rule(kind: Kind, id: &str, tag: u8) -> Option<NewPushRule> {
    Some(match kind {
        Kind::Override => NewPushRule::Override(NewConditionalPushRule::new(id.to_string(), conditions(tag), actions(tag))),
        Kind::Underride => NewPushRule::Underride(NewConditionalPushRule::new(id.to_string(), conditions(tag), actions(tag))),
        Kind::Content => NewPushRule::Content(NewPatternedPushRule::new(id.to_string(), pattern(tag), actions(tag))),
        Kind::Room => {
            let rid: OwnedRoomId = id.try_into().ok()?;
            NewPushRule::Room(NewSimplePushRule::new(rid, actions(tag)))
        }
        Kind::Sender => {
            let uid: OwnedUserId = id.try_into().ok()?;
            NewPushRule::Sender(NewSimplePushRule::new(uid, actions(tag)))
        }
    })
}

struct OpResult {
    /// class tags for coverage counters
    tags: Vec<String>,
    rejected: bool,
}

fn viol(sig: String, op: &Op, before: &[Vec<MRule>; 5], real: &[Vec<MRule>; 5], model: &Model, note: &str) -> Violation {
    let k = match op {
        Op::Insert { kind, .. } | Op::Remove { kind, .. } | Op::SetEnabled { kind, .. } | Op::SetActions { kind, .. } | Op::Get { kind, .. } => *kind,
        _ => Kind::Content,
    };
    Violation {
        property: PROP.to_string(),
        signature: sig,
        detail: json!({
            "oracle": "rpush",
            "operation": op_text(op),
            "note": note,
            "list_before": show(&before[k as usize]),
            "real_after": show(&real[k as usize]),
            "expected_after": show(model.list(k)),
        }),
    }
}

/// Apply one operation to the real ruleset and to the model and judge it (DESIGN §5 oracle 1-5).
fn apply_and_check(real: &mut Ruleset, model: &mut Model, op: &Op) -> Result<OpResult, Violation> {
    let before = snapshot(real);
    let model_before = model.clone();
    let mut tags = Vec::new();
    // --- model side
    let (expect, kind, opname): (Expect, Kind, &str) = match op {
        Op::Insert { kind, id, tag, after, before } => {
            let exists = model.list(*kind).iter().any(|r| &r.id == id);
            let pos = match (after, before) {
                (None, None) => "unpositioned",
                (Some(_), None) => "after",
                (None, Some(_)) => "before",
                _ => "both",
            };
            let mut rel = String::new();
            for a in [after, before].into_iter().flatten() {
                rel.push('.');
                rel.push_str(model.relation(*kind, id, a));
            }
            tags.push(format!("insert.{}.{pos}{rel}", if exists { "existing" } else { "new" }));
            (model.insert(*kind, id, &actions_key(&actions(*tag)), &extra_key(*kind, *tag), after.as_deref(), before.as_deref()), *kind, "insert")
        }
        Op::FreeInsert { id, tag, after, before } => {
            tags.push("free_insert".to_string());
            // the free function performs no id validation; placement semantics are the same
            let e = if id.starts_with('.') || after.as_deref().is_some_and(|a| a.starts_with('.')) || before.as_deref().is_some_and(|a| a.starts_with('.')) {
                Expect::Either("free function with dot-prefixed ids: validation is the caller's job")
            } else {
                model.insert(Kind::Content, id, &actions_key(&actions(*tag)), &extra_key(Kind::Content, *tag), after.as_deref(), before.as_deref())
            };
            (e, Kind::Content, "free_insert")
        }
        Op::Remove { kind, id } => (model.remove(*kind, id), *kind, "remove"),
        Op::SetEnabled { kind, id, on } => (model.set_enabled(*kind, id, *on), *kind, "set_enabled"),
        Op::SetActions { kind, id, tag } => (model.set_actions(*kind, id, &actions_key(&actions(*tag))), *kind, "set_actions"),
        Op::Get { kind, id } => {
            let got = guarded(|| real.get(rule_kind(*kind), id).map(|r| (r.enabled(), actions_key(r.actions()))));
            let want = model.list(*kind).iter().find(|r| &r.id == id).map(|r| (r.enabled, r.actions.clone()));
            return match got {
                Err(p) => Err(viol(format!("rpush/panic.get"), op, &before, &before, model, &p)),
                Ok(g) if g != want => Err(viol("rpush/get.mismatch".into(), op, &before, &before, model, &format!("got {g:?}, expected {want:?}"))),
                Ok(_) => Ok(OpResult { tags: vec!["get".into()], rejected: false }),
            };
        }
        Op::Iter => {
            for k in KINDS {
                if &before[k as usize] != model.list(k) {
                    return Err(viol(format!("rpush/iter.order.{}", k.name()), op, &before, &before, model, "iteration order differs from model"));
                }
            }
            return Ok(OpResult { tags: vec!["iter".into()], rejected: false });
        }
    };
    // --- real side
    let real_result: Result<Result<(), String>, String> = guarded(|| match op {
        Op::Insert { kind, id, tag, after, before } => match new_rule(*kind, id, *tag) {
            Some(r) => real.insert(r, after.as_deref(), before.as_deref()).map_err(|e| e.to_string()),
            None => Err("harness: id not representable for this kind".to_string()),
        },
        Op::FreeInsert { id, tag, after, before } => {
            let rule: PatternedPushRule = PatternedPushRuleInit {
                actions: actions(*tag),
                default: false,
                enabled: real.content.get(id.as_str()).map(|r| r.enabled).unwrap_or(true),
                rule_id: id.clone(),
                pattern: pattern(*tag),
            }
            .into();
            insert_and_move_rule(&mut real.content, rule, 0, after.as_deref(), before.as_deref()).map_err(|e| e.to_string())
        }
        Op::Remove { kind, id } => real.remove(rule_kind(*kind), id).map_err(|e| e.to_string()),
        Op::SetEnabled { kind, id, on } => real.set_enabled(rule_kind(*kind), id, *on).map_err(|e| e.to_string()),
        Op::SetActions { kind, id, tag } => real.set_actions(rule_kind(*kind), id, actions(*tag)).map_err(|e| e.to_string()),
        _ => unreachable!(),
    });
    let after = snapshot(real);
    let class = tags.first().cloned().unwrap_or_else(|| opname.to_string());
    // (1) no panic
    let real_result = match real_result {
        Err(p) => {
            let site = match op {
                Op::Insert { kind: Kind::Override, after: None, before: None, .. } if before[Kind::Override as usize].is_empty() => "override-empty-list".to_string(),
                Op::Insert { id, after: a, before: b, .. } | Op::FreeInsert { id, after: a, before: b, .. } if a.as_deref() == Some(id) || b.as_deref() == Some(id) => "self-anchor".to_string(),
                _ => String::new(),
            };
            let sig = if site.is_empty() { format!("rpush/panic.{class}") } else { format!("rpush/panic.{opname}.{site}") };
            return Err(viol(sig, op, &before, &after, &model_before, &p));
        }
        Ok(r) => r,
    };
    // (4) ids unique per kind, always
    for k in KINDS {
        if !Model::unique_ids(&after[k as usize]) {
            return Err(viol(format!("rpush/duplicate-id.{opname}"), op, &before, &after, model, "rule ids not unique"));
        }
    }
    match (&real_result, &expect) {
        (Err(e), Expect::MustErr(_)) | (Err(e), Expect::Either(_)) => {
            // (2) failed operations leave the ruleset unchanged
            if after != before {
                return Err(viol(format!("rpush/atomicity.{opname}"), op, &before, &after, &model_before, &format!("returned Err({e}) but the ruleset changed")));
            }
            *model = model_before;
            tags.push(format!("{opname}.rejected"));
            Ok(OpResult { tags, rejected: true })
        }
        (Err(e), Expect::MustOk) | (Err(e), Expect::MustOkPlacementUnjudged) => {
            if after != before {
                return Err(viol(format!("rpush/atomicity.{opname}"), op, &before, &after, &model_before, &format!("returned Err({e}) but the ruleset changed")));
            }
            Err(viol(format!("rpush/outcome.{opname}.refused"), op, &before, &after, model, &format!("operation the placement semantics define was refused: {e}")))
        }
        (Ok(()), Expect::MustErr(why)) => {
            let slug: String = why.chars().map(|c| if c.is_ascii_alphanumeric() { c } else { '-' }).collect();
            Err(viol(format!("rpush/outcome.{opname}.accepted.{slug}"), op, &before, &after, &model_before, why))
        }
        (Ok(()), Expect::MustOk) => {
            // (3) order per kind equals the model's
            for k in KINDS {
                if &after[k as usize] != model.list(k) {
                    let what = if after[k as usize].iter().map(|r| &r.id).eq(model.list(k).iter().map(|r| &r.id)) { "fields" } else { "placement" };
                    return Err(viol(format!("rpush/{what}.{class}"), op, &before, &after, model, "resulting list differs from the placement semantics"));
                }
            }
            Ok(OpResult { tags, rejected: false })
        }
        (Ok(()), Expect::MustOkPlacementUnjudged) | (Ok(()), Expect::Either(_)) => {
            // membership judged, position not: other kinds untouched, this kind = old ids ∪ {id}
            for k in KINDS {
                if k != kind && after[k as usize] != before[k as usize] {
                    return Err(viol(format!("rpush/other-kind-changed.{opname}"), op, &before, &after, model, "an edit changed a different kind"));
                }
            }
            if let Op::Insert { id, .. } | Op::FreeInsert { id, .. } = op {
                let mut want: Vec<String> = before[kind as usize].iter().map(|r| r.id.clone()).filter(|i| i != id).collect();
                want.push(id.clone());
                want.sort();
                let mut got: Vec<String> = after[kind as usize].iter().map(|r| r.id.clone()).collect();
                got.sort();
                if want != got {
                    return Err(viol(format!("rpush/membership.{opname}"), op, &before, &after, model, "set of rule ids is not old ∪ {inserted}"));
                }
                // relative order of the *other* rules must be preserved
                let others_before: Vec<&String> = before[kind as usize].iter().map(|r| &r.id).filter(|i| *i != id).collect();
                let others_after: Vec<&String> = after[kind as usize].iter().map(|r| &r.id).filter(|i| *i != id).collect();
                if others_before != others_after {
                    return Err(viol(format!("rpush/others-reordered.{opname}"), op, &before, &after, model, "other rules changed their relative order"));
                }
            }
            // resynchronise the model from the real list (position unjudged)
            *model = model_before;
            *model.list_mut(kind) = after[kind as usize].clone();
            tags.push(format!("{opname}.unjudged-placement"));
            Ok(OpResult { tags, rejected: false })
        }
    }
}

// ---------------------------------------------------------------------------------------------
// operation generator

const COND_IDS: [&str; 8] = ["a", "b", "c", "d", ".m.rule.master", ".x", "s/l", "b\\s"];
const ROOM_IDS: [&str; 4] = ["!a:x", "!b:x", "!c:x", "!d:x"];
const SENDER_IDS: [&str; 4] = ["@a:x", "@b:x", "@c:x", "@d:x"];

fn ids_for(kind: Kind) -> &'static [&'static str] {
    match kind {
        Kind::Room => &ROOM_IDS,
        Kind::Sender => &SENDER_IDS,
        _ => &COND_IDS,
    }
}

fn gen_anchor(t: &mut Tape, kind: Kind, id: &str, model: &Model) -> Option<String> {
    match t.below(10) {
        0..=3 => None,
        4..=6 => {
            // an existing user rule if any
            let l: Vec<&MRule> = model.list(kind).iter().filter(|r| !r.default).collect();
            if l.is_empty() {
                Some(t.pick(ids_for(kind)).to_string())
            } else {
                Some(t.pick(&l).id.clone())
            }
        }
        7 => Some(t.pick(ids_for(kind)).to_string()),
        8 => match t.below(3) {
            0 => Some("missing".to_string()),
            1 => Some(id.to_string()),
            _ => {
                let l: Vec<&MRule> = model.list(kind).iter().filter(|r| r.default).collect();
                if l.is_empty() {
                    Some(".m.rule.master".to_string())
                } else {
                    Some(t.pick(&l).id.clone())
                }
            }
        },
        _ => Some(t.pick(ids_for(kind)).to_string()),
    }
}

fn gen_op(t: &mut Tape, model: &Model, focus: &[Kind]) -> Op {
    let kind = *t.pick(focus);
    let ids = ids_for(kind);
    // bias ids towards the first four (ordinary user ids)
    let id = if t.chance(1, 6) { t.pick(ids).to_string() } else { ids[t.index(4.min(ids.len()))].to_string() };
    match t.below(20) {
        0..=10 => {
            let after = gen_anchor(t, kind, &id, model);
            let before = if after.is_some() && !t.chance(1, 4) { None } else { gen_anchor(t, kind, &id, model) };
            Op::Insert { kind, id, tag: t.below(5) as u8, after, before }
        }
        11..=12 => {
            // removal, sometimes of a server-default rule
            if t.chance(1, 5) {
                let l: Vec<&MRule> = model.list(kind).iter().filter(|r| r.default).collect();
                if !l.is_empty() {
                    return Op::Remove { kind, id: t.pick(&l).id.clone() };
                }
            }
            Op::Remove { kind, id }
        }
        13..=14 => {
            let l = model.list(kind);
            let id = if !l.is_empty() && t.chance(1, 2) { l[t.index(l.len())].id.clone() } else { id };
            Op::SetEnabled { kind, id, on: t.chance(1, 2) }
        }
        15 => Op::SetActions { kind, id, tag: t.below(5) as u8 },
        16 => Op::Get { kind, id },
        17 => Op::Iter,
        _ => {
            let cid = COND_IDS[t.index(4)].to_string();
            let after = gen_anchor(t, Kind::Content, &cid, model);
            let before = if after.is_some() { None } else { gen_anchor(t, Kind::Content, &cid, model) };
            Op::FreeInsert { id: cid, tag: t.below(5) as u8, after, before }
        }
    }
}

// ---------------------------------------------------------------------------------------------
// the simulated deployment

enum Ev {
    Issue { dev: usize },
    Request { dev: usize, opid: u32, attempt: u32 },
    Ack { opid: u32 },
    Timeout { dev: usize, opid: u32, attempt: u32 },
    Crash,
}

struct PushEngine;

fn initial(t: &mut Tape) -> (Ruleset, &'static str) {
    if t.chance(1, 2) {
        (Ruleset::new(), "empty")
    } else {
        let u: &UserId = "@u:x".try_into().unwrap();
        (Ruleset::server_default(u), "server_default")
    }
}

fn model_of(rs: &Ruleset) -> Model {
    Model { lists: snapshot(rs) }
}

impl Engine for PushEngine {
    fn name(&self) -> &'static str {
        "pushsim"
    }

    // IndexSet iteration order is insertion order; nothing in a run depends on hash keys.
    fn hash_order_sensitive(&self) -> bool {
        false
    }

    fn spec(&self, property: &str, tier: Tier) -> Option<CheckSpec> {
        if property != PROP {
            return None;
        }
        Some(CheckSpec {
            property: PROP.into(),
            profile: "C13".into(),
            runs: if tier == Tier::Quick { 400_000 } else { 6_000_000 },
            wall_cap: Duration::from_secs(if tier == Tier::Quick { 60 } else { 600 }),
            rule: "one run = one simulated account: 1-3 devices issue 5-40 edit operations (small id alphabet so collisions are common) over a \
                   transport with drop/duplicate/delay (lost acks are retried, so edits arrive twice and reordered), optional server crash/restart \
                   through the JSON form; every applied operation is judged against the rpush list model. Non-trivial run: >=1 re-insertion of an \
                   existing rule with its anchor above it, >=1 with its anchor below it, and >=1 rejected operation. Distinct = distinct hash of the \
                   applied operation sequence (operation, kind, id, anchors) and initial ruleset."
                .into(),
            real_components: vec![
                "ruma_common::push::Ruleset::{new,server_default,insert,remove,set_enabled,set_actions,get,iter}".into(),
                "ruma_common::push::insert_and_move_rule".into(),
                "serde (de)serialization of Ruleset (restart path)".into(),
            ],
            stub_components: vec!["client devices, retry timers".into(), "transport (drop/dup/delay)".into(), "server request loop, persistence of the ruleset as JSON text".into()],
            assumptions: vec![
                "placement semantics as pinned in DESIGN.md §5 / Appendix A.9 (rpush)".into(),
                "override rules inserted unpositioned into a non-empty list without .m.rule.master first: position not judged".into(),
                "self-anchored inserts and inserts whose `before` anchor is not below `after`: only panic-freedom, atomicity, uniqueness judged".into(),
            ],
            probes: vec![
                "op.insert.existing.after.anchor-below".into(),
                "op.insert.existing.after.anchor-above".into(),
                "op.insert.existing.before.anchor-below".into(),
                "op.insert.existing.before.anchor-above".into(),
                "op.insert.new.unpositioned".into(),
                "op.insert.rejected".into(),
                "op.remove.rejected".into(),
                "restart.reloaded".into(),
                "fault.dup".into(),
                "fault.drop".into(),
            ],
            fault_prefix: "fault.".into(),
        })
    }

    fn run(&self, _profile: &str, _tier: Tier, t: &mut Tape, trace: bool, known: &Known) -> RunOutcome {
        let mut out = RunOutcome::default();
        let (mut real, init_name) = initial(t);
        let mut model = model_of(&real);
        let devices = t.range(1, 3) as usize;
        let n_ops = t.range(5, 40);
        // swarm: fault kinds enabled per run
        let drop_pct = if t.chance(1, 2) { t.range(1, 25) } else { 0 };
        let dup_pct = if t.chance(1, 2) { t.range(1, 25) } else { 0 };
        let crash_enabled = t.chance(1, 3);
        let lost_write_enabled = crash_enabled && t.chance(1, 2);
        // focus kinds
        let focus: Vec<Kind> = match t.below(4) {
            0 => vec![Kind::Override],
            1 => vec![Kind::Content, Kind::Underride],
            2 => vec![Kind::Room, Kind::Sender, Kind::Override],
            _ => KINDS.to_vec(),
        };
        if trace {
            out.trace.push(format!("init={init_name} devices={devices} ops={n_ops} drop%={drop_pct} dup%={dup_pct} crash={crash_enabled} lost_write={lost_write_enabled}"));
        }
        let mut sched: Sched<Ev> = Sched::new();
        let mut issued = 0u32;
        let mut ops: BTreeMap<u32, Op> = BTreeMap::new();
        let mut acked: BTreeMap<u32, bool> = BTreeMap::new();
        for d in 0..devices {
            sched.after(t.below(50) as u64, Ev::Issue { dev: d });
        }
        if crash_enabled {
            sched.after(t.range(20, 2000) as u64, Ev::Crash);
        }
        // durable copies
        let mut durable_text = serde_json::to_string(&real).unwrap();
        let mut durable_model = model.clone();
        let mut fp: u64 = simcore::fnv(init_name.as_bytes());
        let mut reins_above = false;
        let mut reins_below = false;
        let mut any_rejected = false;

        while let Some((seq, ev)) = sched.pop() {
            if sched.steps > 5000 {
                break;
            }
            match ev {
                Ev::Issue { dev } => {
                    if issued >= n_ops {
                        continue;
                    }
                    let op = gen_op(t, &model, &focus);
                    let opid = issued;
                    issued += 1;
                    ops.insert(opid, op);
                    acked.insert(opid, false);
                    sched.after(t.range(1, 40) as u64, Ev::Request { dev, opid, attempt: 0 });
                    sched.after(300, Ev::Timeout { dev, opid, attempt: 0 });
                    sched.after(t.range(1, 120) as u64, Ev::Issue { dev });
                }
                Ev::Timeout { dev, opid, attempt } => {
                    if !acked[&opid] && attempt < 3 {
                        // retry: the same edit is sent again
                        out.bump("fault.retry");
                        sched.after(t.range(1, 40) as u64, Ev::Request { dev, opid, attempt: attempt + 1 });
                        sched.after(300, Ev::Timeout { dev, opid, attempt: attempt + 1 });
                    }
                }
                Ev::Request { dev, opid, attempt } => {
                    if drop_pct > 0 && t.chance(drop_pct, 100) {
                        out.bump("fault.drop");
                        if trace {
                            out.trace.push(format!("[{seq} t={}] dev{dev} op{opid} request lost", sched.now));
                        }
                        continue;
                    }
                    if dup_pct > 0 && t.chance(dup_pct, 100) {
                        out.bump("fault.dup");
                        sched.after(t.range(1, 200) as u64, Ev::Request { dev, opid, attempt });
                    }
                    let op = ops[&opid].clone();
                    let r = apply_and_check(&mut real, &mut model, &op);
                    match r {
                        Ok(res) => {
                            for tg in &res.tags {
                                out.bump(&format!("op.{tg}"));
                                if tg.starts_with("insert.existing") && tg.contains("anchor-above") {
                                    reins_above = true;
                                }
                                if tg.starts_with("insert.existing") && tg.contains("anchor-below") {
                                    reins_below = true;
                                }
                            }
                            any_rejected |= res.rejected;
                            fp = simcore::fnv_mix(fp, simcore::fnv(op_text(&op).as_bytes()));
                            if trace {
                                out.trace.push(format!(
                                    "[{seq} t={}] dev{dev} op{opid}#{attempt} {} => {}",
                                    sched.now,
                                    op_text(&op),
                                    if res.rejected { "Err (unchanged)" } else { "Ok" }
                                ));
                            }
                        }
                        Err(v) => {
                            if trace {
                                out.trace.push(format!("[{seq} t={}] dev{dev} op{opid}#{attempt} {} => VIOLATION {}", sched.now, op_text(&op), v.signature));
                            }
                            if known.is_known(&v.property, &v.signature).is_some() {
                                // step over a recorded finding: resynchronise and end the run quietly
                                out.known_hits.push(format!("{}:{}", v.property, v.signature));
                                break;
                            }
                            out.violation = Some(v);
                            break;
                        }
                    }
                    // persistence of the acknowledged edit
                    if lost_write_enabled && t.chance(1, 8) {
                        out.bump("fault.lost_write");
                    } else {
                        durable_text = serde_json::to_string(&real).unwrap();
                        durable_model = model.clone();
                    }
                    // ack (may be lost => retry)
                    if drop_pct > 0 && t.chance(drop_pct, 100) {
                        out.bump("fault.drop_ack");
                    } else {
                        sched.after(t.range(1, 40) as u64, Ev::Ack { opid });
                    }
                }
                Ev::Ack { opid } => {
                    acked.insert(opid, true);
                }
                Ev::Crash => {
                    out.bump("fault.crash");
                    // restart from the durable JSON text through the real deserializer
                    let reloaded: Result<Result<Ruleset, String>, String> = guarded(|| serde_json::from_str::<Ruleset>(&durable_text).map_err(|e| e.to_string()));
                    match reloaded {
                        Ok(Ok(rs)) => {
                            let snap = snapshot(&rs);
                            if snap != durable_model.lists {
                                out.violation = Some(Violation {
                                    property: PROP.into(),
                                    signature: "rpush/restart.serde-roundtrip".into(),
                                    detail: json!({"oracle":"rpush","note":"ruleset reloaded from its JSON form differs from the persisted one","json":durable_text}),
                                });
                                break;
                            }
                            real = rs;
                            model = durable_model.clone();
                            out.bump("restart.reloaded");
                            if trace {
                                out.trace.push(format!("[{seq} t={}] server crash; ruleset reloaded from JSON ({} bytes)", sched.now, durable_text.len()));
                            }
                        }
                        Ok(Err(e)) => {
                            out.violation = Some(Violation {
                                property: PROP.into(),
                                signature: "rpush/restart.reload-failed".into(),
                                detail: json!({"oracle":"rpush","note":format!("persisted ruleset does not deserialize: {e}"),"json":durable_text}),
                            });
                            break;
                        }
                        Err(p) => {
                            out.violation = Some(Violation {
                                property: PROP.into(),
                                signature: "rpush/panic.reload".into(),
                                detail: json!({"oracle":"rpush","note":p,"json":durable_text}),
                            });
                            break;
                        }
                    }
                    if t.chance(1, 2) {
                        sched.after(t.range(50, 2000) as u64, Ev::Crash);
                    }
                }
            }
        }
        out.fingerprint = fp;
        out.nontrivial = reins_above && reins_below && any_rejected;
        out.sim_time_ms = sched.now;
        out.steps = sched.steps;
        out
    }

    /// Exhaustive walk of every operation sequence up to length 2 (quick) / 3 (thorough) over a
    /// small alphabet, from both initial rulesets, one kind at a time (kinds are independent lists).
    fn extra(&self, _profile: &str, tier: Tier, known: &Known) -> Option<ExtraResult> {
        let max_len = if tier == Tier::Quick { 2 } else { 3 };
        let mut total: u64 = 0;
        let mut distinct_final: std::collections::BTreeSet<u64> = Default::default();
        let mut violations: BTreeMap<String, (Vec<u32>, Violation)> = BTreeMap::new();
        let mut known_hits = Vec::new();
        let u: &UserId = "@u:x".try_into().unwrap();
        for kind in [Kind::Override, Kind::Content] {
            let ids = ["a", "b", "c"];
            let mut alphabet: Vec<Op> = Vec::new();
            let anchors: Vec<Option<String>> = vec![None, Some("a".into()), Some("b".into()), Some("c".into()), Some("missing".into())];
            for id in ids {
                for a in &anchors {
                    for b in &anchors {
                        if b.as_deref() == Some("missing") && a.is_some() {
                            continue;
                        }
                        alphabet.push(Op::Insert { kind, id: id.into(), tag: 1, after: a.clone(), before: b.clone() });
                    }
                }
                alphabet.push(Op::Remove { kind, id: id.into() });
                alphabet.push(Op::SetEnabled { kind, id: id.into(), on: false });
            }
            let alpha_n = alphabet.len();
            for init in 0..2 {
                let base = if init == 0 { Ruleset::new() } else { Ruleset::server_default(u) };
                // iterate over all sequences of length 1..=max_len by counting
                for len in 1..=max_len {
                    let count = (alpha_n as u64).pow(len as u32);
                    let results: Vec<(u64, Option<(Vec<usize>, Violation)>)> = par_map(count, |n| {
                        let mut idxs = Vec::with_capacity(len);
                        let mut m = n;
                        for _ in 0..len {
                            idxs.push((m % alpha_n as u64) as usize);
                            m /= alpha_n as u64;
                        }
                        let mut real = base.clone();
                        let mut model = model_of(&real);
                        for &i in &idxs {
                            if let Err(v) = apply_and_check(&mut real, &mut model, &alphabet[i]) {
                                return (0, Some((idxs, v)));
                            }
                        }
                        let mut h = simcore::fnv(kind.name().as_bytes()) ^ init as u64;
                        for r in &snapshot(&real)[kind as usize] {
                            h = simcore::fnv_mix(h, simcore::fnv(r.id.as_bytes()) ^ r.enabled as u64);
                        }
                        (h, None)
                    });
                    for (h, v) in results {
                        total += 1;
                        match v {
                            None => {
                                distinct_final.insert(h);
                            }
                            Some((idxs, mut v)) => {
                                if known.is_known(&v.property, &v.signature).is_some() {
                                    known_hits.push(format!("{}:{}", v.property, v.signature));
                                    continue;
                                }
                                let seq: Vec<String> = idxs.iter().map(|&i| op_text(&alphabet[i])).collect();
                                v.detail["sequence"] = json!(seq);
                                v.detail["initial"] = json!(if init == 0 { "empty" } else { "server_default" });
                                violations.entry(v.signature.clone()).or_insert((vec![], v));
                            }
                        }
                    }
                }
            }
        }
        known_hits.sort();
        known_hits.dedup();
        let mut coverage = BTreeMap::new();
        coverage.insert(
            "exhaustive_subspace".to_string(),
            json!({
                "exhaustive": true,
                "what": format!("every sequence of 1..={max_len} operations over the alphabet insert(id∈{{a,b,c}} × after∈{{-,a,b,c,missing}} × before∈{{-,a,b,c,missing}}), remove(id), set_enabled(id,false); kinds override and content separately; from Ruleset::new() and Ruleset::server_default()"),
                "sequences": total,
                "distinct_final_lists": distinct_final.len(),
            }),
        );
        Some(ExtraResult { coverage, violations: violations.into_values().collect(), known_hits })
    }
}

fn par_map<T: Send>(count: u64, f: impl Fn(u64) -> T + Sync) -> Vec<T> {
    let jobs = std::env::var("VERIF_JOBS").ok().and_then(|s| s.parse().ok()).unwrap_or(16usize);
    let chunk = count.div_ceil(jobs as u64).max(1);
    let mut out: Vec<Vec<T>> = Vec::new();
    std::thread::scope(|s| {
        let mut hs = Vec::new();
        for j in 0..jobs as u64 {
            let lo = j * chunk;
            let hi = ((j + 1) * chunk).min(count);
            if lo >= hi {
                break;
            }
            let f = &f;
            hs.push(s.spawn(move || (lo..hi).map(f).collect::<Vec<T>>()));
        }
        for h in hs {
            out.push(h.join().expect("enumeration worker"));
        }
    });
    out.into_iter().flatten().collect()
}

fn main() {
    std::process::exit(simcore::driver_main(&PushEngine));
}
