//! Simulator core shared by all engines (DESIGN §3): tape, hash-seed seam, parallel batch
//! runner, minimiser, replay files, known findings, evidence writer, command-line driver.

pub mod hashseed;
pub mod sched;
pub mod tape;

use std::collections::{BTreeMap, BTreeSet};
use std::path::{Path, PathBuf};
use std::sync::atomic::{AtomicBool, AtomicU64, Ordering};
use std::sync::Mutex;
use std::time::{Duration, Instant};

use serde_json::{json, Value};
pub use tape::Tape;

pub const DEFAULT_SEED: u64 = 20261002;

#[derive(Clone, Copy, PartialEq, Eq, Debug)]
pub enum Tier {
    Quick,
    Thorough,
}
impl Tier {
    pub fn as_str(self) -> &'static str {
        match self {
            Tier::Quick => "quick",
            Tier::Thorough => "thorough",
        }
    }
}

#[derive(Clone, Debug)]
pub struct Violation {
    pub property: String,
    /// oracle + rule / call-site tag, e.g. `rauth/member.knock.join_rule[v7-9]`
    pub signature: String,
    pub detail: Value,
}

#[derive(Default)]
pub struct RunOutcome {
    pub violation: Option<Violation>,
    pub harness_error: Option<String>,
    pub counters: BTreeMap<String, u64>,
    pub fingerprint: u64,
    pub nontrivial: bool,
    pub sim_time_ms: u64,
    pub steps: u64,
    pub trace: Vec<String>,
    /// signatures of known findings this run met (and stepped over)
    pub known_hits: Vec<String>,
}

impl RunOutcome {
    pub fn bump(&mut self, key: &str) {
        *self.counters.entry(key.to_string()).or_insert(0) += 1;
    }
    pub fn add(&mut self, key: &str, n: u64) {
        *self.counters.entry(key.to_string()).or_insert(0) += n;
    }
}

/// What an engine tells the driver about one (property, tier) check.
pub struct CheckSpec {
    pub property: String,
    pub profile: String,
    pub runs: u64,
    pub wall_cap: Duration,
    pub rule: String,
    pub real_components: Vec<String>,
    pub stub_components: Vec<String>,
    pub assumptions: Vec<String>,
    /// counters that are reach probes: reported under `unreached` when zero
    pub probes: Vec<String>,
    /// counter-name prefix of fault kinds
    pub fault_prefix: String,
}

pub trait Engine: Sync {
    fn name(&self) -> &'static str;
    fn spec(&self, property: &str, tier: Tier) -> Option<CheckSpec>;
    /// Execute one run. Called on a fresh OS thread whose hash seed has been set from the tape.
    fn run(&self, profile: &str, tier: Tier, tape: &mut Tape, trace: bool, known: &Known) -> RunOutcome;
    /// Extra evidence (e.g. exhaustive sub-space enumerations) computed once per check.
    fn extra(&self, _profile: &str, _tier: Tier, _known: &Known) -> Option<ExtraResult> {
        None
    }
    /// Stack size of the fresh thread each run executes on.
    fn stack_bytes(&self) -> usize {
        1 << 20
    }
    /// Whether a run's behaviour can depend on std's per-thread hash keys. If not, runs are
    /// executed on the (long-lived) worker thread instead of a fresh thread each.
    fn hash_order_sensitive(&self) -> bool {
        true
    }
}

pub struct ExtraResult {
    pub coverage: BTreeMap<String, Value>,
    pub violations: Vec<(Vec<u32>, Violation)>,
    pub known_hits: Vec<String>,
}

// ---------------------------------------------------------------------------------------------
// known findings

#[derive(Clone, Debug)]
pub struct KnownEntry {
    pub property: String,
    pub status: String,
    pub signature: String,
    pub what: String,
}

#[derive(Default, Clone)]
pub struct Known {
    pub entries: Vec<KnownEntry>,
}

impl Known {
    pub fn load(path: &Path) -> Result<Known, String> {
        let text = match std::fs::read_to_string(path) {
            Ok(t) => t,
            Err(_) => return Ok(Known::default()),
        };
        let v: Value = serde_json::from_str(&text).map_err(|e| format!("known_findings.json: {e}"))?;
        let mut entries = Vec::new();
        for e in v.get("findings").and_then(|f| f.as_array()).cloned().unwrap_or_default() {
            entries.push(KnownEntry {
                property: e["property"].as_str().unwrap_or("").to_string(),
                status: e["status"].as_str().unwrap_or("").to_string(),
                signature: e["signature"].as_str().unwrap_or("").to_string(),
                what: e["what"].as_str().unwrap_or("").to_string(),
            });
        }
        Ok(Known { entries })
    }
    /// A violation is suppressed only by a `known` (not `fixed`) entry with equal property and signature.
    pub fn is_known(&self, property: &str, signature: &str) -> Option<&KnownEntry> {
        self.entries
            .iter()
            .find(|e| e.status == "known" && e.property == property && e.signature == signature)
    }
}

// ---------------------------------------------------------------------------------------------
// executing one run on a fresh thread

thread_local! {
    static LAST_PANIC: std::cell::RefCell<Option<String>> = const { std::cell::RefCell::new(None) };
}

pub fn install_quiet_panic_hook() {
    std::panic::set_hook(Box::new(|info| {
        let msg = if let Some(s) = info.payload().downcast_ref::<&str>() {
            s.to_string()
        } else if let Some(s) = info.payload().downcast_ref::<String>() {
            s.clone()
        } else {
            "<non-string panic payload>".to_string()
        };
        let loc = info.location().map(|l| format!("{}:{}", l.file(), l.line())).unwrap_or_default();
        LAST_PANIC.with(|p| *p.borrow_mut() = Some(format!("{msg} @ {loc}")));
    }));
}

/// Message and location of the last panic on this thread (cleared by the call).
pub fn take_last_panic() -> Option<String> {
    LAST_PANIC.with(|p| p.borrow_mut().take())
}

/// Run `f` catching panics; `Err(message @ location)` on panic.
pub fn guarded<T>(f: impl FnOnce() -> T) -> Result<T, String> {
    let r = std::panic::catch_unwind(std::panic::AssertUnwindSafe(f));
    match r {
        Ok(v) => Ok(v),
        Err(_) => Err(take_last_panic().unwrap_or_else(|| "panic".to_string())),
    }
}

pub fn exec_run(
    engine: &dyn Engine,
    profile: &str,
    tier: Tier,
    mut tape: Tape,
    trace: bool,
    known: &Known,
) -> (RunOutcome, Vec<u32>) {
    if !engine.hash_order_sensitive() {
        let r = std::panic::catch_unwind(std::panic::AssertUnwindSafe(|| {
            let _hs = tape.u64();
            let out = engine.run(profile, tier, &mut tape, trace, known);
            (out, tape.into_recorded())
        }));
        return match r {
            Ok(r) => r,
            Err(_) => {
                let mut out = RunOutcome::default();
                out.harness_error = Some(format!("harness panic in run: {}", take_last_panic().unwrap_or_default()));
                (out, Vec::new())
            }
        };
    }
    std::thread::scope(|s| {
        let h = std::thread::Builder::new()
            .stack_size(engine.stack_bytes())
            .spawn_scoped(s, move || {
                let hs = tape.u64();
                hashseed::set_thread_seed(hs);
                let out = engine.run(profile, tier, &mut tape, trace, known);
                (out, tape.into_recorded())
            })
            .expect("spawn run thread");
        match h.join() {
            Ok(r) => r,
            Err(_) => {
                let mut out = RunOutcome::default();
                out.harness_error = Some("harness panic in run thread".to_string());
                (out, Vec::new())
            }
        }
    })
}

// ---------------------------------------------------------------------------------------------
// batch

pub struct Batch {
    pub runs: u64,
    pub counters: BTreeMap<String, u64>,
    pub fingerprints_nontrivial: BTreeSet<u64>,
    pub fingerprints_all: BTreeSet<u64>,
    pub nontrivial_runs: u64,
    pub sim_time_ms: u64,
    pub steps: u64,
    pub violations: Vec<(u64, Vec<u32>, Violation)>,
    pub harness_errors: Vec<(u64, String)>,
    pub known_hits: BTreeMap<String, u64>,
    pub sample_indices: Vec<u64>,
    pub wall: Duration,
    pub digest: u64,
}

pub fn run_batch(
    engine: &dyn Engine,
    profile: &str,
    tier: Tier,
    base_seed: u64,
    n_runs: u64,
    wall_cap: Duration,
    jobs: usize,
    known: &Known,
) -> Batch {
    let next = AtomicU64::new(0);
    let stop = AtomicBool::new(false);
    let start = Instant::now();
    struct Acc {
        runs: u64,
        counters: BTreeMap<String, u64>,
        fp_nt: BTreeSet<u64>,
        fp_all: BTreeSet<u64>,
        nt_runs: u64,
        sim_time: u64,
        steps: u64,
        violations: Vec<(u64, Vec<u32>, Violation)>,
        herr: Vec<(u64, String)>,
        known: BTreeMap<String, u64>,
        samples: Vec<u64>,
        per_run: Vec<(u64, u64)>,
    }
    let acc = Mutex::new(Acc {
        runs: 0,
        counters: BTreeMap::new(),
        fp_nt: BTreeSet::new(),
        fp_all: BTreeSet::new(),
        nt_runs: 0,
        sim_time: 0,
        steps: 0,
        violations: Vec::new(),
        herr: Vec::new(),
        known: BTreeMap::new(),
        samples: Vec::new(),
        per_run: Vec::new(),
    });
    std::thread::scope(|s| {
        for _ in 0..jobs.max(1) {
            s.spawn(|| loop {
                if stop.load(Ordering::Relaxed) {
                    break;
                }
                let idx = next.fetch_add(1, Ordering::Relaxed);
                if idx >= n_runs {
                    break;
                }
                if start.elapsed() > wall_cap {
                    stop.store(true, Ordering::Relaxed);
                    break;
                }
                let tape = Tape::generate(tape::run_seed(base_seed, idx));
                let (out, rec) = exec_run(engine, profile, tier, tape, false, known);
                let mut a = acc.lock().unwrap();
                a.runs += 1;
                for (k, v) in &out.counters {
                    *a.counters.entry(k.clone()).or_insert(0) += v;
                }
                a.fp_all.insert(out.fingerprint);
                if out.nontrivial {
                    a.fp_nt.insert(out.fingerprint);
                    a.nt_runs += 1;
                    if a.samples.len() < 64 {
                        a.samples.push(idx);
                    }
                }
                a.sim_time += out.sim_time_ms;
                a.steps += out.steps;
                for k in &out.known_hits {
                    *a.known.entry(k.clone()).or_insert(0) += 1;
                }
                let vh = out.violation.as_ref().map(|v| fnv(v.signature.as_bytes())).unwrap_or(0);
                // digest of everything observable about the run (determinism self-test)
                let mut ch = fnv_mix(out.steps, out.sim_time_ms);
                for (k, v) in &out.counters {
                    ch = fnv_mix(ch ^ fnv(k.as_bytes()), *v);
                }
                a.per_run.push((idx, out.fingerprint ^ vh ^ ch.rotate_left(17) ^ fnv_mix(rec.len() as u64, rec.iter().fold(0u64, |h, x| fnv_mix(h, *x as u64)))));
                if let Some(e) = out.harness_error {
                    a.herr.push((idx, e));
                }
                if let Some(v) = out.violation {
                    a.violations.push((idx, rec, v));
                }
            });
        }
    });
    let mut a = acc.into_inner().unwrap();
    a.violations.sort_by_key(|v| v.0);
    a.herr.sort_by_key(|v| v.0);
    a.samples.sort();
    a.per_run.sort();
    let mut digest = 0xcbf29ce484222325u64;
    for (i, f) in &a.per_run {
        digest = fnv_mix(digest, *i);
        digest = fnv_mix(digest, *f);
    }
    Batch {
        runs: a.runs,
        counters: a.counters,
        fingerprints_nontrivial: a.fp_nt,
        fingerprints_all: a.fp_all,
        nontrivial_runs: a.nt_runs,
        sim_time_ms: a.sim_time,
        steps: a.steps,
        violations: a.violations,
        harness_errors: a.herr,
        known_hits: a.known,
        sample_indices: a.samples,
        wall: start.elapsed(),
        digest,
    }
}

pub fn fnv(bytes: &[u8]) -> u64 {
    let mut h = 0xcbf29ce484222325u64;
    for b in bytes {
        h ^= *b as u64;
        h = h.wrapping_mul(0x100000001b3);
    }
    h
}
pub fn fnv_mix(h: u64, v: u64) -> u64 {
    let mut h = h;
    for b in v.to_le_bytes() {
        h ^= b as u64;
        h = h.wrapping_mul(0x100000001b3);
    }
    h
}

// ---------------------------------------------------------------------------------------------
// driver

pub fn verif_root() -> PathBuf {
    PathBuf::from(std::env::var("VERIF_ROOT").unwrap_or_else(|_| "/verif".to_string()))
}

fn env_u64(name: &str, default: u64) -> u64 {
    std::env::var(name).ok().and_then(|s| s.trim().parse::<i128>().ok()).map(|v| v as u64).unwrap_or(default)
}

fn sanitize(sig: &str) -> String {
    sig.chars().map(|c| if c.is_ascii_alphanumeric() || c == '.' || c == '-' { c } else { '_' }).collect()
}

/// Entry point used by every engine binary. Returns the process exit code.
pub fn driver_main(engine: &dyn Engine) -> i32 {
    install_quiet_panic_hook();
    let args: Vec<String> = std::env::args().collect();
    if let Err(e) = hashseed::selftest() {
        eprintln!("HARNESS-ERROR: {e}");
        return 2;
    }
    let known = match Known::load(&verif_root().join("known_findings.json")) {
        Ok(k) => k,
        Err(e) => {
            eprintln!("HARNESS-ERROR: {e}");
            return 2;
        }
    };
    match args.get(1).map(|s| s.as_str()) {
        Some("check") => {
            let prop = args.get(2).cloned().unwrap_or_default();
            let tier = match args.get(3).map(|s| s.as_str()) {
                Some("thorough") => Tier::Thorough,
                _ => Tier::Quick,
            };
            cmd_check(engine, &prop, tier, &known)
        }
        Some("replay") => {
            let path = args.get(2).cloned().unwrap_or_default();
            cmd_replay(engine, Path::new(&path), &known, args.iter().any(|a| a == "--quiet"))
        }
        Some("digest") => {
            // determinism self-test helper: print a digest over per-run fingerprints
            let prop = args.get(2).cloned().unwrap_or_default();
            let n = args.get(3).and_then(|s| s.parse().ok()).unwrap_or(200u64);
            let jobs = env_u64("VERIF_JOBS", 16) as usize;
            let seed = env_u64("VERIF_SEED", DEFAULT_SEED);
            let Some(spec) = engine.spec(&prop, Tier::Quick) else {
                eprintln!("HARNESS-ERROR: unknown property {prop}");
                return 2;
            };
            let b = run_batch(engine, &spec.profile, Tier::Quick, seed, n, Duration::from_secs(3600), jobs, &known);
            println!("digest {:016x} runs {} violations {} herr {}", b.digest, b.runs, b.violations.len(), b.harness_errors.len());
            0
        }
        _ => {
            eprintln!("usage: {} check <PROP> quick|thorough | replay <file> | digest <PROP> <n>", engine.name());
            2
        }
    }
}

fn cmd_check(engine: &dyn Engine, prop: &str, tier: Tier, known: &Known) -> i32 {
    let Some(mut spec) = engine.spec(prop, tier) else {
        eprintln!("HARNESS-ERROR: engine {} does not serve property {prop}", engine.name());
        return 2;
    };
    // debugging aid: judge property `prop` on runs generated with another property's profile
    if let Ok(p) = std::env::var("VERIF_PROFILE") {
        spec.profile = p;
    }
    let seed = env_u64("VERIF_SEED", DEFAULT_SEED);
    let jobs = env_u64("VERIF_JOBS", 16) as usize;
    let runs = env_u64("VERIF_RUNS", spec.runs);
    println!("seed={seed} engine={} property={prop} tier={} profile={} runs={runs} jobs={jobs}", engine.name(), tier.as_str(), spec.profile);
    let started = Instant::now();
    let batch = run_batch(engine, &spec.profile, tier, seed, runs, spec.wall_cap, jobs, known);
    let extra = engine.extra(&spec.profile, tier, known);

    if !batch.harness_errors.is_empty() {
        for (i, e) in batch.harness_errors.iter().take(5) {
            eprintln!("HARNESS-ERROR: run {i}: {e}");
        }
        return 2;
    }

    // group violations: own property vs. contaminated (another property's oracle fired first)
    let mut own: BTreeMap<String, (u64, Vec<u32>, Violation)> = BTreeMap::new();
    let mut own_counts: BTreeMap<String, u64> = BTreeMap::new();
    let mut contaminated: BTreeMap<String, u64> = BTreeMap::new();
    let mut all_v: Vec<(u64, Vec<u32>, Violation)> = batch.violations.clone();
    let mut known_hits = batch.known_hits.clone();
    if let Some(x) = &extra {
        for (t, v) in &x.violations {
            all_v.push((u64::MAX, t.clone(), v.clone()));
        }
        for k in &x.known_hits {
            *known_hits.entry(k.clone()).or_insert(0) += 1;
        }
    }
    for (idx, tape, v) in all_v {
        if v.property == prop {
            *own_counts.entry(v.signature.clone()).or_insert(0) += 1;
            own.entry(v.signature.clone()).or_insert((idx, tape, v));
        } else {
            *contaminated.entry(format!("{}:{}", v.property, v.signature)).or_insert(0) += 1;
        }
    }

    // known findings of this property: one line each, with how often this batch reached it
    for k in known.entries.iter().filter(|k| k.status == "known" && k.property == prop) {
        let hits = known_hits.get(&format!("{}:{}", k.property, k.signature)).copied().unwrap_or(0);
        println!("KNOWN-FINDING: property={} {} [{}; reached in {} run(s) of this batch]", k.property, k.what, k.signature, hits);
    }

    // minimise + verify + report own violations (at most 4 distinct signatures, minimised in parallel)
    let mut reported = Vec::new();
    let exe = std::env::current_exe().unwrap();
    let replay_dir = verif_root().join("replays");
    let _ = std::fs::create_dir_all(&replay_dir);
    let picked: Vec<(&String, &(u64, Vec<u32>, Violation))> = own.iter().take(4).collect();
    // (engines may take cheaper decisions while candidates are tried - e.g. not re-confirming a hang
    // twice per candidate; the minimised tape is verified afterwards in a fresh process without it)
    std::env::set_var("VERIF_MINIMISING", "1");
    let minimised: Vec<(Vec<u32>, usize)> = std::thread::scope(|sc| {
        let hs: Vec<_> = picked
            .iter()
            .map(|(sig, (idx, tape, _v))| {
                let target_sig = (*sig).clone();
                let profile = spec.profile.clone();
                let tape = tape.clone();
                let is_extra = *idx == u64::MAX;
                sc.spawn(move || {
                    if is_extra {
                        return (tape, 0);
                    }
                    let deadline = Instant::now() + Duration::from_secs(90);
                    tape::minimise(
                        tape,
                        |cand| {
                            let (o, _) = exec_run(engine, &profile, tier, Tape::replay(cand.to_vec()), false, known);
                            o.violation.as_ref().is_some_and(|vv| vv.property == prop && vv.signature == target_sig)
                        },
                        6000,
                        deadline,
                    )
                })
            })
            .collect();
        hs.into_iter().map(|h| h.join().expect("minimiser thread")).collect()
    });
    std::env::remove_var("VERIF_MINIMISING");
    for ((sig, (idx, tape, v)), (min_tape, execs)) in picked.iter().zip(minimised.into_iter()) {
        let (sig, idx) = (*sig, idx);
        let is_extra = *idx == u64::MAX;
        // decoded trace of the minimised run
        let (o2, _) = exec_run(engine, &spec.profile, tier, Tape::replay(min_tape.clone()), true, known);
        let (final_tape, final_v, trace) = match &o2.violation {
            Some(vv) if vv.property == prop && &vv.signature == sig => (min_tape.clone(), vv.clone(), o2.trace.clone()),
            _ if is_extra => (tape.clone(), v.clone(), vec!["(exhaustive-enumeration case; see violation.input)".to_string()]),
            _ => {
                // fall back on the unminimised tape
                let (o3, _) = exec_run(engine, &spec.profile, tier, Tape::replay(tape.clone()), true, known);
                match &o3.violation {
                    Some(vv) if vv.property == prop && &vv.signature == sig => (tape.clone(), vv.clone(), o3.trace.clone()),
                    _ => {
                        eprintln!("HARNESS-ERROR: violation {sig} of run {idx} does not reproduce from its tape");
                        return 2;
                    }
                }
            }
        };
        let file = replay_dir.join(format!("{prop}-{seed}-{}.json", sanitize(sig)));
        let faults: BTreeMap<&String, &u64> = o2.counters.iter().filter(|(k, _)| k.starts_with(&spec.fault_prefix)).collect();
        let doc = json!({
            "property": prop,
            "signature": sig,
            "engine": engine.name(),
            "profile": spec.profile,
            "tier": tier.as_str(),
            "seed": seed,
            "run_index": if is_extra { Value::Null } else { json!(idx) },
            "extra": is_extra,
            "tape": final_tape,
            "minimiser_executions": execs,
            "original_tape_len": tape.len(),
            "trace": trace,
            "faults": faults,
            "violation": final_v.detail,
        });
        if let Err(e) = std::fs::write(&file, serde_json::to_string_pretty(&doc).unwrap()) {
            eprintln!("HARNESS-ERROR: cannot write replay file: {e}");
            return 2;
        }
        // replay in a fresh process: must reproduce
        let st = std::process::Command::new(&exe).arg("replay").arg(&file).arg("--quiet").output();
        match st {
            Ok(o) if o.status.code() == Some(1) => {}
            Ok(o) => {
                eprintln!(
                    "HARNESS-ERROR: replay of {} in a fresh process exited {:?}, not 1\n{}",
                    file.display(),
                    o.status.code(),
                    String::from_utf8_lossy(&o.stderr)
                );
                return 2;
            }
            Err(e) => {
                eprintln!("HARNESS-ERROR: cannot spawn replay: {e}");
                return 2;
            }
        }
        reported.push((sig.clone(), file));
    }

    // samples: decoded traces of up to three non-trivial runs
    let mut samples = Vec::new();
    for idx in batch.sample_indices.iter().take(3) {
        let t = Tape::generate(tape::run_seed(seed, *idx));
        let (o, _) = exec_run(engine, &spec.profile, tier, t, true, known);
        let trace: Vec<String> = if o.trace.len() > 60 {
            let mut v: Vec<String> = o.trace[..40].to_vec();
            v.push(format!("... ({} more lines)", o.trace.len() - 50));
            v.extend_from_slice(&o.trace[o.trace.len() - 10..]);
            v
        } else {
            o.trace.clone()
        };
        samples.push(json!({"run_index": idx, "seed": tape::run_seed(seed, *idx), "trace": trace}));
    }
    if samples.is_empty() {
        let t = Tape::generate(tape::run_seed(seed, 0));
        let (o, _) = exec_run(engine, &spec.profile, tier, t, true, known);
        samples.push(json!({"run_index": 0, "trace": o.trace.iter().take(50).collect::<Vec<_>>(), "note": "no non-trivial run in this batch"}));
    }

    let wall = started.elapsed().as_secs_f64();
    let faults: BTreeMap<String, u64> = batch.counters.iter().filter(|(k, _)| k.starts_with(&spec.fault_prefix)).map(|(k, v)| (k.clone(), *v)).collect();
    let probes: BTreeMap<String, u64> = batch.counters.iter().filter(|(k, _)| !k.starts_with(&spec.fault_prefix)).map(|(k, v)| (k.clone(), *v)).collect();
    let unreached: Vec<String> = spec.probes.iter().filter(|p| batch.counters.get(*p).copied().unwrap_or(0) == 0).cloned().collect();
    for u in &unreached {
        println!("warning: reach probe '{u}' stayed at 0 in this batch");
    }
    let mut coverage = serde_json::Map::new();
    coverage.insert("evaluations".into(), json!(batch.runs));
    coverage.insert("distinct_nontrivial".into(), json!(batch.fingerprints_nontrivial.len()));
    coverage.insert("rule".into(), json!(spec.rule));
    coverage.insert("samples".into(), json!(samples));
    coverage.insert("nontrivial_runs".into(), json!(batch.nontrivial_runs));
    coverage.insert("distinct_fingerprints_all_runs".into(), json!(batch.fingerprints_all.len()));
    coverage.insert("runs_per_hour".into(), json!((batch.runs as f64 / batch.wall.as_secs_f64().max(1e-6) * 3600.0) as u64));
    coverage.insert("seeds".into(), json!({"base": seed, "count": batch.runs, "derivation": "splitmix64(base ^ index*0xA0761D6478BD642F)"}));
    coverage.insert("sim_time_ms_total".into(), json!(batch.sim_time_ms));
    coverage.insert("steps_total".into(), json!(batch.steps));
    coverage.insert("faults_fired".into(), json!(faults));
    coverage.insert("probes_hit".into(), json!(probes));
    coverage.insert("unreached".into(), json!(unreached));
    // abstraction cells (e.g. room version x event kind x verdict x rule): distinct cells reached
    let mut cells: BTreeMap<String, usize> = BTreeMap::new();
    for k in batch.counters.keys() {
        if let Some(i) = k.find(".cell.") {
            *cells.entry(k[..i + 5].to_string()).or_insert(0) += 1;
        }
    }
    coverage.insert("distinct_cells_reached".into(), json!(cells));
    coverage.insert("real_components".into(), json!(spec.real_components));
    coverage.insert("stub_components".into(), json!(spec.stub_components));
    coverage.insert("contaminated_runs".into(), json!(contaminated));
    coverage.insert("known_findings_hit".into(), json!(known_hits));
    coverage.insert("violations_by_signature".into(), json!(own_counts));
    coverage.insert("batch_digest".into(), json!(format!("{:016x}", batch.digest)));
    coverage.insert("exhaustive".into(), json!(false));
    if let Some(x) = &extra {
        for (k, v) in &x.coverage {
            coverage.insert(k.clone(), v.clone());
        }
    }
    let evidence = json!({
        "property_id": prop,
        "tier": tier.as_str(),
        "seed": seed,
        "level": "exploration",
        "coverage": coverage,
        "assumptions": spec.assumptions,
        "wall_s": wall,
        "violations": reported.len(),
    });
    let evdir = verif_root().join("evidence");
    let _ = std::fs::create_dir_all(&evdir);
    if let Err(e) = std::fs::write(evdir.join(format!("{prop}.json")), serde_json::to_string_pretty(&evidence).unwrap()) {
        eprintln!("HARNESS-ERROR: cannot write evidence: {e}");
        return 2;
    }
    println!(
        "runs={} nontrivial={} distinct_nontrivial={} wall={:.1}s contaminated={} own_violation_signatures={}",
        batch.runs,
        batch.nontrivial_runs,
        batch.fingerprints_nontrivial.len(),
        wall,
        contaminated.values().sum::<u64>(),
        own.len()
    );
    if !contaminated.is_empty() {
        for (k, n) in contaminated.iter().take(6) {
            println!("note: {n} run(s) ended early on another property's oracle: {k}");
        }
    }
    if reported.is_empty() {
        0
    } else {
        for (_sig, file) in &reported {
            println!("VIOLATION property={prop} replay={}", file.display());
        }
        1
    }
}

fn cmd_replay(engine: &dyn Engine, path: &Path, known: &Known, quiet: bool) -> i32 {
    let text = match std::fs::read_to_string(path) {
        Ok(t) => t,
        Err(e) => {
            eprintln!("HARNESS-ERROR: cannot read {}: {e}", path.display());
            return 2;
        }
    };
    let doc: Value = match serde_json::from_str(&text) {
        Ok(v) => v,
        Err(e) => {
            eprintln!("HARNESS-ERROR: bad replay file: {e}");
            return 2;
        }
    };
    let prop = doc["property"].as_str().unwrap_or("").to_string();
    let sig = doc["signature"].as_str().unwrap_or("").to_string();
    let profile = doc["profile"].as_str().unwrap_or("").to_string();
    let tier = if doc["tier"].as_str() == Some("thorough") { Tier::Thorough } else { Tier::Quick };
    let tape: Vec<u32> = doc["tape"].as_array().map(|a| a.iter().map(|v| v.as_u64().unwrap_or(0) as u32).collect()).unwrap_or_default();
    if doc["extra"].as_bool() == Some(true) {
        // exhaustive-enumeration case: re-run the enumeration and look for the same signature
        if let Some(x) = engine.extra(&profile, tier, known) {
            if let Some((_, v)) = x.violations.iter().find(|(_, v)| v.property == prop && v.signature == sig) {
                if !quiet {
                    println!("{}", serde_json::to_string_pretty(&v.detail).unwrap());
                }
                println!("VIOLATION property={prop} replay={}", path.display());
                return 1;
            }
        }
        println!("replay: violation did not reproduce");
        return 0;
    }
    let (o, _) = exec_run(engine, &profile, tier, Tape::replay(tape), true, known);
    if let Some(e) = o.harness_error {
        eprintln!("HARNESS-ERROR: {e}");
        return 2;
    }
    if !quiet {
        for l in &o.trace {
            println!("{l}");
        }
    }
    match o.violation {
        Some(v) if v.property == prop && v.signature == sig => {
            if !quiet {
                println!("{}", serde_json::to_string_pretty(&v.detail).unwrap());
            }
            println!("VIOLATION property={prop} replay={}", path.display());
            1
        }
        Some(v) => {
            println!("replay: a different violation fired: {}:{}", v.property, v.signature);
            println!("VIOLATION property={} replay={}", v.property, path.display());
            1
        }
        None => {
            println!("replay: violation did not reproduce (exit 0)");
            0
        }
    }
}
