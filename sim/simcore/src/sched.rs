//! Discrete-event scheduler (DESIGN §3.2): a heap of (time_ms, seq, event); `seq` is a global
//! counter so the order is total. When nothing is runnable "now" the clock jumps to the next event.

use std::cmp::Reverse;
use std::collections::BinaryHeap;

struct Entry<E> {
    at: u64,
    seq: u64,
    ev: E,
}
impl<E> PartialEq for Entry<E> {
    fn eq(&self, o: &Self) -> bool {
        self.at == o.at && self.seq == o.seq
    }
}
impl<E> Eq for Entry<E> {}
impl<E> PartialOrd for Entry<E> {
    fn partial_cmp(&self, o: &Self) -> Option<std::cmp::Ordering> {
        Some(self.cmp(o))
    }
}
impl<E> Ord for Entry<E> {
    fn cmp(&self, o: &Self) -> std::cmp::Ordering {
        (self.at, self.seq).cmp(&(o.at, o.seq))
    }
}

pub struct Sched<E> {
    heap: BinaryHeap<Reverse<Entry<E>>>,
    pub now: u64,
    pub seq: u64,
    pub steps: u64,
}

impl<E> Default for Sched<E> {
    fn default() -> Self {
        Sched { heap: BinaryHeap::new(), now: 0, seq: 0, steps: 0 }
    }
}

impl<E> Sched<E> {
    pub fn new() -> Self {
        Self::default()
    }
    pub fn after(&mut self, delay_ms: u64, ev: E) {
        self.seq += 1;
        self.heap.push(Reverse(Entry { at: self.now + delay_ms, seq: self.seq, ev }));
    }
    pub fn at(&mut self, t: u64, ev: E) {
        self.seq += 1;
        self.heap.push(Reverse(Entry { at: t.max(self.now), seq: self.seq, ev }));
    }
    /// Pop the next event, advancing the clock. Returns (seq, event).
    pub fn pop(&mut self) -> Option<(u64, E)> {
        let Reverse(e) = self.heap.pop()?;
        self.now = e.at;
        self.steps += 1;
        Some((e.seq, e.ev))
    }
    pub fn len(&self) -> usize {
        self.heap.len()
    }
    pub fn is_empty(&self) -> bool {
        self.heap.is_empty()
    }
    /// Remove and return all queued events (used by crash faults to drop volatile timers).
    pub fn drain_where(&mut self, mut pred: impl FnMut(&E) -> bool) -> Vec<(u64, E)> {
        let mut keep = Vec::new();
        let mut out = Vec::new();
        for Reverse(e) in self.heap.drain() {
            if pred(&e.ev) {
                out.push((e.at, e.ev));
            } else {
                keep.push(Reverse(e));
            }
        }
        self.heap = BinaryHeap::from(keep);
        out
    }
}
