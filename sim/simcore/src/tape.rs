//! One integer decides everything (DESIGN §3.1): every choice of a run is drawn from a `Tape`.
//! Generate mode: xoshiro256** seeded by SplitMix64; every value is recorded.
//! Replay mode: values come from a recorded vector; out-of-range values are reduced modulo `n`,
//! an exhausted tape yields 0 — so any integer vector is a valid execution (minimiser-friendly).

#[derive(Clone)]
struct Xoshiro {
    s: [u64; 4],
}

fn splitmix(state: &mut u64) -> u64 {
    *state = state.wrapping_add(0x9E37_79B9_7F4A_7C15);
    let mut z = *state;
    z = (z ^ (z >> 30)).wrapping_mul(0xBF58_476D_1CE4_E5B9);
    z = (z ^ (z >> 27)).wrapping_mul(0x94D0_49BB_1331_11EB);
    z ^ (z >> 31)
}

impl Xoshiro {
    fn new(seed: u64) -> Self {
        let mut st = seed;
        let s = [splitmix(&mut st), splitmix(&mut st), splitmix(&mut st), splitmix(&mut st)];
        Xoshiro { s }
    }
    fn next(&mut self) -> u64 {
        let result = self.s[1].wrapping_mul(5).rotate_left(7).wrapping_mul(9);
        let t = self.s[1] << 17;
        self.s[2] ^= self.s[0];
        self.s[3] ^= self.s[1];
        self.s[1] ^= self.s[2];
        self.s[0] ^= self.s[3];
        self.s[2] ^= t;
        self.s[3] = self.s[3].rotate_left(45);
        result
    }
}

/// Derive the seed of run `index` from the base seed.
pub fn run_seed(base: u64, index: u64) -> u64 {
    let mut st = base ^ index.wrapping_mul(0xA076_1D64_78BD_642F);
    splitmix(&mut st)
}

pub struct Tape {
    gen: Option<Xoshiro>,
    replay: Vec<u32>,
    pos: usize,
    rec: Vec<u32>,
}

impl Tape {
    pub fn generate(seed: u64) -> Self {
        Tape { gen: Some(Xoshiro::new(seed)), replay: Vec::new(), pos: 0, rec: Vec::new() }
    }
    pub fn replay(values: Vec<u32>) -> Self {
        Tape { gen: None, replay: values, pos: 0, rec: Vec::new() }
    }
    pub fn is_replay(&self) -> bool {
        self.gen.is_none()
    }
    /// A value in `0..n` (`n >= 1`).
    pub fn below(&mut self, n: u32) -> u32 {
        let n = n.max(1);
        let v = match &mut self.gen {
            Some(g) => ((g.next() >> 32) as u32) % n,
            None => {
                let v = self.replay.get(self.pos).copied().unwrap_or(0) % n;
                self.pos += 1;
                v
            }
        };
        self.rec.push(v);
        v
    }
    /// True with probability num/den. A zero tape value is always `false` (unless num >= den),
    /// so zeroing the tape removes faults.
    pub fn chance(&mut self, num: u32, den: u32) -> bool {
        if num >= den {
            // still draw, to keep tape positions independent of rates equal to 1
            self.below(den.max(1));
            return true;
        }
        self.below(den) >= den - num
    }
    /// Inclusive range.
    pub fn range(&mut self, lo: u32, hi: u32) -> u32 {
        lo + self.below(hi - lo + 1)
    }
    pub fn pick<'a, T>(&mut self, items: &'a [T]) -> &'a T {
        let i = self.below(items.len() as u32) as usize;
        &items[i]
    }
    pub fn pick_s<'a>(&mut self, items: &[&'a str]) -> &'a str {
        items[self.below(items.len() as u32) as usize]
    }
    pub fn index(&mut self, len: usize) -> usize {
        self.below(len as u32) as usize
    }
    pub fn u64(&mut self) -> u64 {
        let hi = self.below(u32::MAX) as u64;
        let lo = self.below(u32::MAX) as u64;
        (hi << 32) | lo
    }
    pub fn bytes(&mut self, n: usize) -> Vec<u8> {
        (0..n).map(|_| self.below(256) as u8).collect()
    }
    /// Fisher-Yates shuffle driven by the tape.
    pub fn shuffle<T>(&mut self, v: &mut [T]) {
        for i in (1..v.len()).rev() {
            let j = self.below(i as u32 + 1) as usize;
            v.swap(i, j);
        }
    }
    pub fn recorded(&self) -> &[u32] {
        &self.rec
    }
    pub fn into_recorded(self) -> Vec<u32> {
        self.rec
    }
}

/// Tape minimiser (DESIGN §3.8): delete chunks, zero values, halve/decrement values; keep a change
/// iff `still_fails` holds. `budget` bounds the number of re-executions.
pub fn minimise(
    tape: Vec<u32>,
    mut still_fails: impl FnMut(&[u32]) -> bool,
    budget: usize,
    deadline: std::time::Instant,
) -> (Vec<u32>, usize) {
    let mut cur = tape;
    let mut execs = 0usize;
    let mut try_it = |cand: &[u32], execs: &mut usize| -> bool {
        if *execs >= budget || std::time::Instant::now() > deadline {
            return false;
        }
        *execs += 1;
        still_fails(cand)
    };
    // strip trailing part first (cheap big win)
    // Zeroing first: it keeps every later value at its position (a zero turns a fault off and
    // picks the first alternative), so the run stays close to the failing one; deletion, which
    // shifts the rest of the tape, comes second; value shrinking last.
    let zero_pass = |cur: &mut Vec<u32>, execs: &mut usize, try_it: &mut dyn FnMut(&[u32], &mut usize) -> bool| -> bool {
        let mut changed = false;
        let mut size = (cur.len() / 2).max(1);
        loop {
            let mut i = 0;
            while i < cur.len() {
                let end = (i + size).min(cur.len());
                if cur[i..end].iter().any(|&v| v != 0) {
                    let mut cand = cur.clone();
                    for v in &mut cand[i..end] {
                        *v = 0;
                    }
                    if try_it(&cand, execs) {
                        *cur = cand;
                        changed = true;
                    }
                }
                i += size;
            }
            if size == 1 {
                break;
            }
            size /= 2;
        }
        changed
    };
    let mut changed = true;
    let mut rounds = 0;
    while changed && rounds < 4 {
        rounds += 1;
        changed = zero_pass(&mut cur, &mut execs, &mut try_it);
        // delete chunks, halving sizes (stop at 8 on long tapes: single deletions are too many)
        let min_size = if cur.len() > 2000 { 8 } else { 1 };
        let mut size = (cur.len() / 2).max(1);
        while size >= min_size {
            let mut i = 0;
            while i < cur.len() {
                let end = (i + size).min(cur.len());
                let mut cand = Vec::with_capacity(cur.len() - (end - i));
                cand.extend_from_slice(&cur[..i]);
                cand.extend_from_slice(&cur[end..]);
                if cand.len() < cur.len() && try_it(&cand, &mut execs) {
                    cur = cand;
                    changed = true;
                } else {
                    i += size;
                }
            }
            if size == 1 {
                break;
            }
            size /= 2;
        }
        // shrink single values
        if cur.len() <= 4000 {
            for i in 0..cur.len() {
                while cur[i] > 0 {
                    let mut cand = cur.clone();
                    cand[i] = cur[i] / 2;
                    if try_it(&cand, &mut execs) {
                        cur = cand;
                        changed = true;
                    } else {
                        let mut cand = cur.clone();
                        cand[i] = cur[i] - 1;
                        if cur[i] > 1 && try_it(&cand, &mut execs) {
                            cur = cand;
                            changed = true;
                        } else {
                            break;
                        }
                    }
                }
            }
        }
        if execs >= budget || std::time::Instant::now() > deadline {
            break;
        }
    }
    // drop trailing zeros (an exhausted tape yields 0 anyway) - no re-execution needed
    while cur.last() == Some(&0) {
        cur.pop();
    }
    (cur, execs)
}
