//! Randomness seam (DESIGN §3.5): the simulator binary defines libc's `getrandom`
//! symbol, so the per-thread SipHash keys std's `RandomState` draws from the OS
//! become a pure function of the run's tape.
//!
//! The symbol must be defined in the *binary* crate: use `simcore::install_getrandom_seam!()`
//! once in `main.rs`.

use std::cell::Cell;
use std::collections::HashMap;

thread_local! {
    static SEED: Cell<u64> = const { Cell::new(0x9E37_79B9_7F4A_7C15) };
    static CALLS: Cell<u64> = const { Cell::new(0) };
}

/// Set the hash seed of the current thread. Must be called before the thread creates
/// its first `HashMap`/`HashSet`.
pub fn set_thread_seed(seed: u64) {
    SEED.with(|s| s.set(seed));
    CALLS.with(|c| c.set(0));
}

/// Fill `buf` deterministically from the thread's seed (SplitMix64 stream).
pub fn fill(buf: &mut [u8]) {
    let seed = SEED.with(|s| s.get());
    let mut n = CALLS.with(|c| {
        let v = c.get();
        c.set(v + 1);
        v
    });
    let mut state = seed ^ n.wrapping_mul(0xD6E8_FEB8_6659_FD93);
    for chunk in buf.chunks_mut(8) {
        state = state.wrapping_add(0x9E37_79B9_7F4A_7C15);
        let mut z = state;
        z = (z ^ (z >> 30)).wrapping_mul(0xBF58_476D_1CE4_E5B9);
        z = (z ^ (z >> 27)).wrapping_mul(0x94D0_49BB_1331_11EB);
        z ^= z >> 31;
        let b = z.to_le_bytes();
        chunk.copy_from_slice(&b[..chunk.len()]);
        n = n.wrapping_add(1);
    }
}

#[macro_export]
macro_rules! install_getrandom_seam {
    () => {
        /// Interposed libc `getrandom(2)`: deterministic bytes from the simulator.
        #[no_mangle]
        pub unsafe extern "C" fn getrandom(
            buf: *mut u8,
            buflen: usize,
            _flags: u32,
        ) -> isize {
            if buf.is_null() {
                return -1;
            }
            let slice = std::slice::from_raw_parts_mut(buf, buflen);
            $crate::hashseed::fill(slice);
            buflen as isize
        }
    };
}

fn order_under(seed: u64) -> Vec<u32> {
    std::thread::spawn(move || {
        set_thread_seed(seed);
        let mut m: HashMap<u32, u32> = HashMap::new();
        for i in 0..20u32 {
            m.insert(i.wrapping_mul(2654435761), i);
        }
        m.values().copied().collect::<Vec<_>>()
    })
    .join()
    .expect("selftest thread")
}

/// Start-up self-test: same seed ⇒ same iteration order on two fresh threads; different
/// seeds ⇒ (over 8 trials) some different order. Err ⇒ the seam is inactive and the search
/// would be irreproducible (caller exits 2).
pub fn selftest() -> Result<(), String> {
    for s in 1..=4u64 {
        if order_under(s) != order_under(s) {
            return Err("hash seam inactive: same seed gave different HashMap orders".into());
        }
    }
    let base = order_under(100);
    if (101..109u64).all(|s| order_under(s) == base) {
        return Err("hash seam inactive: 8 different seeds gave the same HashMap order".into());
    }
    Ok(())
}
