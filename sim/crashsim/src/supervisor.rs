//! Supervisor side of the pipe (DESIGN §6): spawns a worker process, sends frames, waits for the
//! reply line with a watchdog, reaps the child. A `Worker` never leaves a zombie behind: dropping it
//! kills and waits for the child and joins the reader thread.

use std::io::{BufRead, BufReader, Write};
use std::os::unix::process::ExitStatusExt;
use std::process::{Child, ChildStdin, Command, ExitStatus, Stdio};
use std::sync::mpsc::{self, Receiver, RecvTimeoutError};
use std::thread::JoinHandle;
use std::time::Duration;

pub const WATCHDOG: Duration = Duration::from_secs(60);

enum Msg {
    Line(String),
    Eof,
}

pub struct Worker {
    child: Child,
    stdin: Option<ChildStdin>,
    rx: Receiver<Msg>,
    reader: Option<JoinHandle<()>>,
    reaped: Option<ExitStatus>,
    pub canaries_not_ok: u32,
    pub canaries_unstable: u32,
    pub canaries_not_ok_names: Vec<String>,
}

#[derive(Debug, Clone)]
pub enum Reply {
    /// `class` is `ok`, `err:<class>` or `panic:<message>`; `canary` is `canary_ok|canary_skip|canary_drift:<names>`
    Outcome { class: String, canary: String, digest: String },
    Died { signal: Option<i32>, code: Option<i32> },
    Timeout,
    Protocol(String),
}

impl Worker {
    pub fn spawn() -> Result<Worker, String> {
        Self::spawn_mode(false)
    }
    /// `bare`: the worker makes no canary calls, a delivery is the first call of the process.
    pub fn spawn_mode(bare: bool) -> Result<Worker, String> {
        let exe = std::env::current_exe().map_err(|e| format!("current_exe: {e}"))?;
        let mut child = Command::new(exe)
            .arg("worker")
            .arg(if bare { "bare" } else { "full" })
            .stdin(Stdio::piped())
            .stdout(Stdio::piped())
            .stderr(Stdio::null())
            .spawn()
            .map_err(|e| format!("cannot spawn worker: {e}"))?;
        let stdin = child.stdin.take();
        let stdout = child.stdout.take().ok_or_else(|| "worker has no stdout".to_string())?;
        let (tx, rx) = mpsc::channel();
        let reader = std::thread::Builder::new()
            .name("worker-reader".into())
            .stack_size(256 << 10)
            .spawn(move || {
                let mut r = BufReader::new(stdout);
                loop {
                    let mut buf = Vec::new();
                    match r.read_until(b'\n', &mut buf) {
                        Ok(0) | Err(_) => {
                            let _ = tx.send(Msg::Eof);
                            return;
                        }
                        Ok(_) => {
                            let line = String::from_utf8_lossy(&buf).trim_end_matches('\n').to_string();
                            if tx.send(Msg::Line(line)).is_err() {
                                return;
                            }
                        }
                    }
                }
            })
            .map_err(|e| format!("cannot spawn reader thread: {e}"))?;
        let mut w = Worker { child, stdin, rx, reader: Some(reader), reaped: None, canaries_not_ok: 0, canaries_unstable: 0, canaries_not_ok_names: Vec::new() };
        match w.rx.recv_timeout(WATCHDOG) {
            Ok(Msg::Line(l)) if l.starts_with("H\t") => {
                let f: Vec<&str> = l.split('\t').collect();
                w.canaries_not_ok = f.get(2).and_then(|s| s.parse().ok()).unwrap_or(0);
                w.canaries_unstable = f.get(3).and_then(|s| s.parse().ok()).unwrap_or(0);
                w.canaries_not_ok_names = f.get(4).map(|s| s.split(',').filter(|x| !x.is_empty()).map(|x| x.to_string()).collect()).unwrap_or_default();
                Ok(w)
            }
            Ok(Msg::Line(l)) => Err(format!("worker said {l:?} instead of hello")),
            Ok(Msg::Eof) => {
                let st = w.reap();
                Err(format!("worker died during start-up: {st:?}"))
            }
            Err(_) => Err("worker did not say hello within the watchdog".to_string()),
        }
    }

    fn reap(&mut self) -> ExitStatus {
        if let Some(s) = self.reaped {
            return s;
        }
        self.stdin = None;
        let st = match self.child.wait() {
            Ok(s) => s,
            Err(_) => ExitStatus::from_raw(0xff00),
        };
        self.reaped = Some(st);
        st
    }

    fn died(&mut self) -> Reply {
        let st = self.reap();
        Reply::Died { signal: st.signal(), code: st.code() }
    }

    pub fn kill(&mut self) {
        if self.reaped.is_none() {
            let _ = self.child.kill();
            self.reap();
        }
        if let Some(h) = self.reader.take() {
            let _ = h.join();
        }
    }

    /// Send one delivery and wait for its reply line.
    pub fn deliver(&mut self, entry: u32, bytes: &[u8], watchdog: Duration) -> Reply {
        if self.reaped.is_some() {
            return Reply::Protocol("delivery to a dead worker".into());
        }
        let mut frame = Vec::with_capacity(8 + bytes.len());
        frame.extend_from_slice(&entry.to_le_bytes());
        frame.extend_from_slice(&(bytes.len() as u32).to_le_bytes());
        frame.extend_from_slice(bytes);
        let wrote = match self.stdin.as_mut() {
            Some(s) => s.write_all(&frame).and_then(|_| s.flush()).is_ok(),
            None => false,
        };
        if !wrote {
            // broken pipe: the worker is gone
            return self.died();
        }
        match self.rx.recv_timeout(watchdog) {
            Ok(Msg::Line(l)) => {
                let f: Vec<&str> = l.split('\t').collect();
                if f.len() == 4 && f[0] == "R" {
                    Reply::Outcome { class: f[1].to_string(), canary: f[2].to_string(), digest: f[3].to_string() }
                } else {
                    Reply::Protocol(format!("unexpected line from worker: {l:?}"))
                }
            }
            Ok(Msg::Eof) | Err(RecvTimeoutError::Disconnected) => self.died(),
            Err(RecvTimeoutError::Timeout) => Reply::Timeout,
        }
    }
}

impl Drop for Worker {
    fn drop(&mut self) {
        self.kill();
    }
}

/// Run one delivery alone in a fresh worker.
/// One delivery as the very first call of a fresh process (no canary calls before it).
pub fn isolated_bare(entry: u32, bytes: &[u8]) -> Result<Reply, String> {
    let mut w = Worker::spawn_mode(true)?;
    let r = w.deliver(entry, bytes, WATCHDOG);
    w.kill();
    Ok(r)
}

pub fn isolated(entry: u32, bytes: &[u8]) -> Result<Reply, String> {
    let mut w = Worker::spawn()?;
    let r = w.deliver(entry, bytes, WATCHDOG);
    w.kill();
    Ok(r)
}
