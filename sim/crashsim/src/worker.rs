//! The long-lived worker process (DESIGN §6): reads `(entry id, bytes)` frames from stdin, runs each
//! delivery inside `catch_unwind` on one long-lived thread with an 8 MiB stack, answers one line per
//! delivery on stdout, and re-runs the canary battery after every `err`/`panic` outcome (and after
//! every 50th delivery otherwise).
//!
//! Wire format, supervisor -> worker: `u32 LE entry id, u32 LE length, bytes`.
//! Worker -> supervisor: `H\t<entries>\t<canaries not ok>\t<canaries unstable>\n` once at start, then
//! per delivery `R\t<ok|err:<class>|panic:<message @ location>>\t<canary_ok|canary_skip|canary_drift:<names>>\n`.

use std::io::{Read, Write};
use std::sync::mpsc;
use std::time::Duration;

use crate::entries::{Entry, ENTRIES};

pub const STACK_BYTES: usize = 8 << 20;
pub const CANARY_EVERY: u64 = 50;

pub fn esc(s: &str) -> String {
    let mut o = String::with_capacity(s.len());
    for c in s.chars().take(600) {
        match c {
            '\t' => o.push_str("\\t"),
            '\n' => o.push_str("\\n"),
            '\r' => o.push_str("\\r"),
            c => o.push(c),
        }
    }
    o
}

/// Outcome of one call as a single string: `ok:<summary>`, `err:<class>`, `panic:<message>`.
pub fn call(e: &Entry, bytes: &[u8]) -> String {
    match simcore::guarded(|| (e.f)(bytes)) {
        Ok(Ok(s)) => format!("ok:{s}"),
        Ok(Err(c)) => format!("err:{c}"),
        Err(p) => format!("panic:{p}"),
    }
}

struct Canaries {
    inputs: Vec<Vec<u8>>,
    baseline: Vec<String>,
    stable: Vec<bool>,
}

impl Canaries {
    /// `worker bare`: no canary calls at all, so that a delivery is the very first call the process
    /// makes (used to repeat deliveries without any history).
    fn none() -> Canaries {
        Canaries { inputs: Vec::new(), baseline: Vec::new(), stable: Vec::new() }
    }
    fn record() -> Canaries {
        let inputs: Vec<Vec<u8>> = ENTRIES.iter().map(|e| crate::seeds::embedded(e.name).into_iter().next().unwrap_or_default()).collect();
        let baseline: Vec<String> = ENTRIES.iter().zip(&inputs).map(|(e, i)| call(e, i)).collect();
        // a canary whose output differs between two calls at start-up (hash order, ...) cannot witness drift
        let second: Vec<String> = ENTRIES.iter().zip(&inputs).map(|(e, i)| call(e, i)).collect();
        let stable = baseline.iter().zip(&second).map(|(a, b)| a == b).collect();
        Canaries { inputs, baseline, stable }
    }
    fn battery(&self) -> String {
        if self.inputs.is_empty() {
            return "canary_skip".to_string();
        }
        let mut drift = Vec::new();
        for (i, e) in ENTRIES.iter().enumerate() {
            if !self.stable[i] {
                continue;
            }
            if call(e, &self.inputs[i]) != self.baseline[i] {
                drift.push(e.name);
            }
        }
        if drift.is_empty() {
            "canary_ok".to_string()
        } else {
            format!("canary_drift:{}", drift.join(","))
        }
    }
}

fn process(rx: mpsc::Receiver<(u32, Vec<u8>)>) {
    let out = std::io::stdout();
    let bare = std::env::args().nth(2).as_deref() == Some("bare");
    let canaries = if bare { Canaries::none() } else { Canaries::record() };
    let not_ok_names: Vec<&str> = canaries.baseline.iter().zip(ENTRIES.iter()).filter(|(b, _)| !b.starts_with("ok:")).map(|(_, e)| e.name).collect();
    let not_ok = not_ok_names.len();
    let unstable = canaries.stable.iter().filter(|s| !**s).count();
    {
        let mut o = out.lock();
        let _ = writeln!(o, "H\t{}\t{}\t{}\t{}", ENTRIES.len(), not_ok, unstable, not_ok_names.join(","));
        let _ = o.flush();
    }
    let mut canaries = canaries;
    let fault = selftest_fault();
    let mut n: u64 = 0;
    while let Ok((id, bytes)) = rx.recv() {
        n += 1;
        if let Some((kind, at)) = &fault {
            // n = 0: keyed on content instead (the pristine canary input of entry point 0), so that
            // the fault also fires when the delivery is re-run alone in a fresh worker
            let hit = if *at == 0 { id == 0 && Some(&bytes) == canaries.inputs.first() } else { *at == n };
            if hit {
                inject(kind, &mut canaries);
            }
        }
        let outcome = match ENTRIES.get(id as usize) {
            Some(e) => call(e, &bytes),
            None => "err:outer-unknown-entry".to_string(),
        };
        // thread echo: every other delivery is repeated on a brand-new thread of this process (no
        // thread-local history at all); the complete outcome must be the one this long-lived
        // thread produced. Whether a delivery is echoed is a function of its position and content
        // only (glob inputs whose pattern x value product is large are legitimately slow and are
        // not run twice), never of a clock.
        let mut echo: Option<String> = None;
        let mut echoed_equal = false;
        let heavy_glob = ENTRIES.get(id as usize).is_some_and(|e| e.traits & crate::mutate::T_GLOB != 0) && {
            let cut = bytes.iter().position(|b| *b == b'\n').unwrap_or(bytes.len());
            cut.saturating_mul(bytes.len() - cut) > 1_000_000
        };
        if !bare && n % 2 == 0 && !outcome.starts_with("panic:") && !heavy_glob {
            if let Some(e) = ENTRIES.get(id as usize) {
                let b2 = bytes.clone();
                let again = std::thread::Builder::new()
                    .name("echo".into())
                    .stack_size(STACK_BYTES)
                    .spawn(move || call(e, &b2))
                    .ok()
                    .and_then(|h| h.join().ok());
                if let Some(a) = again {
                    if a == outcome {
                        echoed_equal = true;
                    } else {
                        // Different outcome on the new thread. Before this is taken for an effect of
                        // this thread's history it must be told apart from an outcome that depends
                        // on the hash keys (random per thread and per map: e.g. which of two
                        // offending events an iteration over a hash set meets first): the call is
                        // repeated six more times here and on six more brand-new threads; only
                        // "always A here, always B there" is history dependence.
                        let here: Vec<String> = (0..6).map(|_| call(e, &bytes)).collect();
                        let there: Vec<Option<String>> = (0..6)
                            .map(|_| {
                                let b3 = bytes.clone();
                                std::thread::Builder::new().name("echo".into()).stack_size(STACK_BYTES).spawn(move || call(e, &b3)).ok().and_then(|h| h.join().ok())
                            })
                            .collect();
                        if here.iter().all(|x| *x == outcome) && there.iter().all(|x| x.as_ref() == Some(&a)) {
                            echo = Some(format!("thread_echo_diff:{:016x}", crate::entries::fnv(a.as_bytes())));
                        } else {
                            echo = Some("thread_echo_unstable".to_string());
                        }
                    }
                }
            }
        }
        let class = if let Some(s) = outcome.strip_prefix("ok:") {
            let _ = s;
            "ok".to_string()
        } else {
            outcome.clone()
        };
        let check = !outcome.starts_with("ok:") || n % CANARY_EVERY == 0;
        let canary = match echo {
            Some(e) => e,
            None if check => canaries.battery(),
            None => "canary_skip".to_string(),
        };
        let mut o = out.lock();
        // the digest of the complete outcome lets the supervisor compare this call with the same
        // input delivered to a fresh process (history independence)
        // "+e": the same complete outcome was also obtained on a brand-new thread (other hash keys)
        let _ = writeln!(o, "R\t{}\t{}\t{:016x}{}", esc(&class), esc(&canary), crate::entries::fnv(outcome.as_bytes()), if echoed_equal { "+e" } else { "" });
        let _ = o.flush();
    }
}

/// Harness self-test only: `CRASHSIM_SELFTEST_FAULT=<hang|abort|exit|overflow|drift>:<n>` makes the
/// worker misbehave at its n-th delivery, to exercise the supervisor's watchdog / reaping / drift
/// paths (ruma itself is not involved). Never set in a check.
fn selftest_fault() -> Option<(String, u64)> {
    let v = std::env::var("CRASHSIM_SELFTEST_FAULT").ok()?;
    let (k, n) = v.split_once(':')?;
    Some((k.to_string(), n.parse().ok()?))
}

#[allow(unconditional_recursion)]
fn recurse(n: u64) -> u64 {
    let pad = [n; 64];
    std::hint::black_box(&pad);
    recurse(n + 1) + pad[3]
}

fn inject(kind: &str, canaries: &mut Canaries) {
    match kind {
        "hang" => loop {
            std::thread::sleep(Duration::from_secs(3600));
        },
        "abort" => std::process::abort(),
        "exit" => std::process::exit(7),
        "overflow" => {
            std::hint::black_box(recurse(0));
        }
        "drift" => {
            if let Some(b) = canaries.baseline.first_mut() {
                b.push_str(" (poisoned)");
            }
        }
        _ => {}
    }
}

fn read_exact_or_eof(r: &mut impl Read, buf: &mut [u8]) -> bool {
    let mut got = 0;
    while got < buf.len() {
        match r.read(&mut buf[got..]) {
            Ok(0) => return false,
            Ok(k) => got += k,
            Err(e) if e.kind() == std::io::ErrorKind::Interrupted => {}
            Err(_) => return false,
        }
    }
    true
}

pub fn worker_main() {
    simcore::install_quiet_panic_hook();
    let (tx, rx) = mpsc::channel::<(u32, Vec<u8>)>();
    let (done_tx, done_rx) = mpsc::channel::<()>();
    let spawned = std::thread::Builder::new().name("deliveries".into()).stack_size(STACK_BYTES).spawn(move || {
        process(rx);
        let _ = done_tx.send(());
    });
    if spawned.is_err() {
        std::process::exit(3);
    }
    let stdin = std::io::stdin();
    let mut r = stdin.lock();
    loop {
        let mut head = [0u8; 8];
        if !read_exact_or_eof(&mut r, &mut head) {
            break;
        }
        let id = u32::from_le_bytes([head[0], head[1], head[2], head[3]]);
        let len = u32::from_le_bytes([head[4], head[5], head[6], head[7]]) as usize;
        if len > (1 << 24) {
            break;
        }
        let mut bytes = vec![0u8; len];
        if !read_exact_or_eof(&mut r, &mut bytes) {
            break;
        }
        if tx.send((id, bytes)).is_err() {
            break;
        }
    }
    // stdin closed: the supervisor is gone or done. Never outlive it by more than the watchdog.
    drop(tx);
    let _ = done_rx.recv_timeout(Duration::from_secs(25));
    std::process::exit(0);
}

/// Development aid: run every embedded seed through its entry point in this process and print the
/// outcome (`crashsim selftest [filter]`).
pub fn selftest(filter: Option<&str>) -> i32 {
    simcore::install_quiet_panic_hook();
    let h = std::thread::Builder::new()
        .stack_size(STACK_BYTES)
        .spawn({
            let filter = filter.map(|s| s.to_string());
            move || {
                let mut bad = 0;
                for e in ENTRIES {
                    if let Some(f) = &filter {
                        if !e.name.contains(f.as_str()) {
                            continue;
                        }
                    }
                    let seeds = crate::seeds::embedded(e.name);
                    if seeds.is_empty() {
                        println!("{:32} NO SEEDS", e.name);
                        bad += 1;
                    }
                    for (i, s) in seeds.iter().enumerate() {
                        let t0 = std::time::Instant::now();
                        let o = call(e, s);
                        let us = t0.elapsed().as_micros();
                        if !o.starts_with("ok:") {
                            bad += 1;
                        }
                        let shown: String = o.chars().take(150).collect();
                        println!("{:32} #{:<2} {:>6}us {}", e.name, i, us, shown);
                    }
                }
                bad
            }
        })
        .unwrap();
    let bad = h.join().unwrap_or(1);
    println!("not-ok seeds: {bad}");
    0
}
