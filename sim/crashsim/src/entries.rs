//! The entry points of ruma that consume data controlled by a remote party (DESIGN §6).
//! Each is a `fn(&[u8]) -> Result<String, String>`: `Ok(summary of the result)` (compared by the
//! canary battery) or `Err(error class)`. Classes starting with `outer-` mean the input was
//! rejected before ruma's parser proper was reached (not UTF-8 for a `&str` API, not JSON at all,
//! no route for the request path).
//!
//! Only public API of the ruma crates is used. Nothing here draws OS randomness.

use std::collections::BTreeMap;
use std::fmt::Debug;

use ruma_common::canonical_json::{redact, redact_content_in_place, redact_in_place};
use ruma_common::http_headers::ContentDisposition;
use ruma_common::push::{
    Action, FlattenedJson, NewConditionalPushRule, NewPatternedPushRule, NewPushRule, NewSimplePushRule, PushCondition,
    PushConditionPowerLevelsCtx, PushConditionRoomCtx, RuleKind, Ruleset,
};
use ruma_common::room_version_rules::RoomVersionRules;
use ruma_common::serde::base64::{Standard, UrlSafe};
use ruma_common::serde::{Base64, Raw};
use ruma_common::{
    AnyKeyName, CanonicalJsonObject, CanonicalJsonValue, ClientSecret, CrossSigningKeyId, CrossSigningOrDeviceSigningKeyId, DeviceId,
    DeviceKeyId, EventId, MatrixToUri, MatrixUri, OneTimeKeyId, OwnedMxcUri, OwnedRoomId, OwnedUserId, RoomAliasId, RoomId,
    RoomOrAliasId, RoomVersionId, ServerName, ServerSigningKeyId, SessionId, SigningKeyId, TransactionId, UserId, VoipId,
    VoipVersionId,
};
use ruma_events::{
    AnyEphemeralRoomEvent, AnyGlobalAccountDataEvent, AnyMessageLikeEventContent, AnyRoomAccountDataEvent, AnyStateEvent,
    AnyStateEventContent, AnyStrippedStateEvent, AnySyncStateEvent, AnySyncTimelineEvent, AnyTimelineEvent, AnyToDeviceEvent,
    MessageLikeEventType, RawExt, StateEventType,
};
use ruma_html::{Html, HtmlSanitizerMode, RemoveReplyFallback, SanitizerConfig};
use ruma_signatures::{Ed25519KeyPair, KeyPair, PublicKeyMap, PublicKeySet};
use serde::de::DeserializeOwned;
use serde::Serialize;
use serde_json::value::RawValue as RawJsonValue;
use serde_json::Value as JsonValue;

use crate::mutate::{T_ANCHOR, T_BYTES, T_DELIM, T_HTML, T_JSON, T_MXC};

pub type R = Result<String, String>;

pub struct Entry {
    pub name: &'static str,
    pub traits: u32,
    pub f: fn(&[u8]) -> R,
}

// ---------------------------------------------------------------------------------------------
// helpers

pub fn fnv(bytes: &[u8]) -> u64 {
    simcore::fnv(bytes)
}

/// Summary of a (possibly long) result text: short texts verbatim, long ones as length + hash.
pub fn sum(s: &str) -> String {
    if s.len() <= 160 {
        s.to_string()
    } else {
        format!("len={} fnv={:016x}", s.len(), fnv(s.as_bytes()))
    }
}

pub fn utf8(b: &[u8]) -> Result<&str, String> {
    std::str::from_utf8(b).map_err(|_| "outer-not-utf8".to_string())
}

/// Leading identifier of a Debug rendering = the variant name.
fn debug_on() -> bool {
    static D: std::sync::OnceLock<bool> = std::sync::OnceLock::new();
    *D.get_or_init(|| std::env::var_os("CRASHSIM_DEBUG").is_some())
}

pub fn variant(e: &impl Debug) -> String {
    let s = format!("{e:?}");
    if debug_on() {
        eprintln!("debug: {s}");
    }
    let v: String = s.chars().take_while(|c| c.is_ascii_alphanumeric() || *c == '_').take(40).collect();
    if v.is_empty() {
        "error".to_string()
    } else {
        v
    }
}

/// Class of a serde_json error at the outer parse: syntax/eof = not JSON at all.
pub fn json_outer(e: serde_json::Error) -> String {
    use serde_json::error::Category;
    if debug_on() {
        eprintln!("debug: {e}");
    }
    match e.classify() {
        Category::Syntax | Category::Eof | Category::Io => "outer-not-json".to_string(),
        Category::Data => "deser-data".to_string(),
    }
}
pub fn json_inner(stage: &str, e: serde_json::Error) -> String {
    use serde_json::error::Category;
    if debug_on() {
        eprintln!("debug: {e}");
    }
    match e.classify() {
        Category::Syntax | Category::Eof | Category::Io => format!("{stage}-syntax"),
        Category::Data => format!("{stage}-data"),
    }
}

fn roundtrip<T: Serialize + DeserializeOwned + PartialEq>(t: &T) -> Result<bool, String> {
    let js = serde_json::to_string(t).map_err(|_| "serialize".to_string())?;
    let back: T = serde_json::from_str(&js).map_err(|_| "roundtrip-rejected".to_string())?;
    Ok(&back == t)
}

/// Room version rules for N in 1..=11, always obtained through `RoomVersionId`.
pub fn rules_n(n: usize) -> RoomVersionRules {
    let n = 1 + (n % 11);
    RoomVersionId::try_from(n.to_string().as_str()).unwrap().rules().unwrap()
}
/// Fixed rotation over room versions keyed by the input.
pub fn rules_for(b: &[u8]) -> RoomVersionRules {
    rules_n(b.len())
}

// ---------------------------------------------------------------------------------------------
// 1. identifiers

macro_rules! id_entry {
    ($fname:ident, $ty:ty, |$x:ident| $acc:expr) => {
        fn $fname(b: &[u8]) -> R {
            let s = utf8(b)?;
            let owned = <$ty>::parse(s).map_err(|e| variant(&e))?;
            let borrowed = <&$ty>::try_from(s).map_err(|_| "borrowed-parse-disagrees".to_string())?;
            let boxed = <$ty>::parse_box(s).map_err(|_| "box-parse-disagrees".to_string())?;
            let arc = <$ty>::parse_arc(s).map_err(|_| "arc-parse-disagrees".to_string())?;
            let $x: &$ty = &owned;
            let acc: String = $acc;
            let rt = roundtrip(&owned)?;
            Ok(sum(&format!("{} | {} | {} {} {} rt={}", owned, acc, borrowed.as_str().len(), boxed.as_str().len(), arc.as_str().len(), rt)))
        }
    };
}

id_entry!(id_user, UserId, |x| format!(
    "{} {} strict={:?} hist={:?} {} {} {}",
    x.localpart(),
    x.server_name(),
    x.validate_strict().is_ok(),
    x.validate_historical().is_ok(),
    x.is_historical(),
    x.matrix_to_uri(),
    x.matrix_uri(true)
));
id_entry!(id_room, RoomId, |x| format!(
    "{:?} {} {} {}",
    x.server_name(),
    x.matrix_to_uri(),
    x.matrix_uri(true),
    x.matrix_to_event_uri(<&EventId>::try_from("$e:x.y").unwrap().to_owned())
));
id_entry!(id_room_alias, RoomAliasId, |x| format!("{} {} {} {}", x.alias(), x.server_name(), x.matrix_to_uri(), x.matrix_uri(false)));
id_entry!(id_room_or_alias, RoomOrAliasId, |x| format!(
    "{:?} {} {} {:?} {:?}",
    x.server_name(),
    x.is_room_id(),
    x.is_room_alias_id(),
    <&RoomId>::try_from(x).is_ok(),
    <&RoomAliasId>::try_from(x).is_ok()
));
id_entry!(id_event, EventId, |x| format!("{} {:?}", x.localpart(), x.server_name()));
id_entry!(id_server_name, ServerName, |x| format!("{} {:?} {}", x.host(), x.port(), x.is_ip_literal()));
id_entry!(id_device_key, DeviceKeyId, |x| format!("{:?} {}", x.algorithm(), x.key_name()));
id_entry!(id_signing_key_any, SigningKeyId<AnyKeyName>, |x| format!("{:?} {}", x.algorithm(), x.key_name().as_str()));
id_entry!(id_server_signing_key, ServerSigningKeyId, |x| format!("{:?} {}", x.algorithm(), x.key_name()));
id_entry!(id_cross_signing_key, CrossSigningKeyId, |x| format!("{:?} {}", x.algorithm(), x.key_name()));
id_entry!(id_cross_or_device_key, CrossSigningOrDeviceSigningKeyId, |x| format!("{:?} {}", x.algorithm(), x.key_name()));
id_entry!(id_one_time_key, OneTimeKeyId, |x| format!("{:?} {}", x.algorithm(), x.key_name()));
id_entry!(id_client_secret, ClientSecret, |x| x.as_str().len().to_string());
id_entry!(id_session, SessionId, |x| x.as_str().len().to_string());

/// All `KeyId` flavours share `ruma_identifiers_validation::key_id::validate`; one entry point runs
/// the input through each of them (accepted = at least one flavour accepts it).
fn id_key_id(b: &[u8]) -> R {
    let fs: [(&str, fn(&[u8]) -> R); 6] = [
        ("device", id_device_key),
        ("signing_any", id_signing_key_any),
        ("server_signing", id_server_signing_key),
        ("cross_signing", id_cross_signing_key),
        ("cross_or_device", id_cross_or_device_key),
        ("one_time", id_one_time_key),
    ];
    let mut out = String::new();
    let mut any = false;
    let mut first_err = None;
    for (n, f) in fs {
        match f(b) {
            Ok(s) => {
                any = true;
                out.push_str(&format!("{n}=ok({s});"));
            }
            Err(e) => {
                out.push_str(&format!("{n}=err({e});"));
                first_err.get_or_insert(e);
            }
        }
    }
    if any {
        Ok(sum(&out))
    } else {
        Err(first_err.unwrap_or_else(|| "rejected".into()))
    }
}

fn id_user_with_server(b: &[u8]) -> R {
    let s = utf8(b)?;
    let server: &ServerName = <&ServerName>::try_from("example.org").unwrap();
    let u = UserId::parse_with_server_name(s, server).map_err(|e| variant(&e))?;
    Ok(sum(&format!("{} {} {} {}", u, u.localpart(), u.server_name(), u.is_historical())))
}

fn id_mxc(b: &[u8]) -> R {
    let s = utf8(b)?;
    let m = OwnedMxcUri::from(s);
    let v = m.validate();
    let parts = m.parts().map(|(s, m)| format!("{s}/{m}"));
    let mid = m.media_id().map(|x| x.to_string());
    let sn = m.server_name().map(|x| x.to_string());
    let ok = m.is_valid();
    let rt = roundtrip(&m)?;
    match v {
        Ok(()) => Ok(sum(&format!("{m} {parts:?} {mid:?} {sn:?} {ok} {rt}"))),
        Err(e) => Err(variant(&e)),
    }
}

fn id_room_version(b: &[u8]) -> R {
    let s = utf8(b)?;
    let v = RoomVersionId::try_from(s).map_err(|e| variant(&e))?;
    let rules = v.rules();
    let rt = roundtrip(&v)?;
    Ok(sum(&format!("{} {} rules={} {rt}", v.as_str(), v.as_bytes().len(), rules.is_some())))
}

/// Identifier types whose construction is infallible (opaque strings); serde still parses them.
fn id_opaque(b: &[u8]) -> R {
    let s = utf8(b)?;
    let d: &DeviceId = s.into();
    let t: &TransactionId = s.into();
    let v = VoipVersionId::from(s);
    let vi: &VoipId = s.into();
    let js = serde_json::to_string(s).map_err(|_| "serialize".to_string())?;
    let d2: Box<DeviceId> = serde_json::from_str(&js).map_err(|e| json_inner("device-id", e))?;
    let t2: Box<TransactionId> = serde_json::from_str(&js).map_err(|e| json_inner("txn-id", e))?;
    let v2: Result<VoipVersionId, _> = serde_json::from_str(&js);
    Ok(sum(&format!("{} {} {} {} {} {} {:?}", d, t, v.as_str(), vi, d2.as_str().len(), t2.as_str().len(), v2.is_ok())))
}

// ---------------------------------------------------------------------------------------------
// 2. URIs

fn uri_matrix(b: &[u8]) -> R {
    let s = utf8(b)?;
    let u = MatrixUri::parse(s).map_err(|e| variant(&e))?;
    let again = MatrixUri::parse(&u.to_string()).map(|v| v == u);
    Ok(sum(&format!("{:?} {:?} {:?} {} reparse={:?}", u.id(), u.via(), u.action(), u, again.ok())))
}

fn uri_matrix_to(b: &[u8]) -> R {
    let s = utf8(b)?;
    let u = MatrixToUri::parse(s).map_err(|e| variant(&e))?;
    let again = MatrixToUri::parse(&u.to_string()).map(|v| v == u);
    Ok(sum(&format!("{:?} {:?} {} reparse={:?}", u.id(), u.via(), u, again.ok())))
}

// ---------------------------------------------------------------------------------------------
// 3. header values, base64

fn hdr_x_matrix(b: &[u8]) -> R {
    use ruma_federation_api::authentication::XMatrix;
    // the bytes path, as a server sees the Authorization header
    let hv = http::HeaderValue::from_bytes(b).map_err(|_| "outer-not-a-header-value".to_string())?;
    let x = XMatrix::try_from(&hv).map_err(|e| variant(&e))?;
    let shown = x.to_string();
    let back = http::HeaderValue::from(&x);
    let again = XMatrix::parse(&shown).map(|y| y.origin == x.origin && y.key == x.key && y.sig == x.sig && y.destination == x.destination);
    Ok(sum(&format!("{:?} sig={} {} hv={} reparse={:?}", x, x.sig.encode(), shown, back.len(), again.ok())))
}

fn hdr_x_matrix_str(b: &[u8]) -> R {
    use ruma_federation_api::authentication::XMatrix;
    let s = utf8(b)?;
    let x: XMatrix = s.parse().map_err(|e: ruma_federation_api::authentication::XMatrixParseError| variant(&e))?;
    Ok(sum(&format!("{:?} {}", x, x)))
}

fn hdr_content_disposition(b: &[u8]) -> R {
    let cd = ContentDisposition::try_from(b).map_err(|e| variant(&e))?;
    let shown = cd.to_string();
    let again: Result<ContentDisposition, _> = shown.parse();
    let via_str = std::str::from_utf8(b).ok().map(|s| s.parse::<ContentDisposition>().map(|c| c == cd).ok());
    Ok(sum(&format!("{:?} {:?} | {} | reparse={:?} str={:?}", cd.disposition_type, cd.filename, shown, again.map(|c| c == cd).ok(), via_str)))
}

fn b64_standard(b: &[u8]) -> R {
    let v = Base64::<Standard>::parse(b).map_err(|e| variant(&e))?;
    let enc = v.encode();
    let rt = roundtrip_b64::<Standard>(&enc);
    Ok(sum(&format!("{} {} {:?}", v.as_bytes().len(), enc, rt)))
}
fn b64_urlsafe(b: &[u8]) -> R {
    let v = Base64::<UrlSafe>::parse(b).map_err(|e| variant(&e))?;
    let enc = v.encode();
    let rt = roundtrip_b64::<UrlSafe>(&enc);
    Ok(sum(&format!("{} {} {:?}", v.as_bytes().len(), enc, rt)))
}
fn roundtrip_b64<C: ruma_common::serde::base64::Base64Config>(enc: &str) -> Option<usize> {
    let js = serde_json::to_string(enc).ok()?;
    let v: Base64<C> = serde_json::from_str(&js).ok()?;
    Some(v.as_bytes().len())
}

// ---------------------------------------------------------------------------------------------
// 4. events

fn raw_event<T: DeserializeOwned + Debug>(b: &[u8]) -> R {
    let raw: Raw<T> = serde_json::from_slice(b).map_err(json_outer)?;
    let ty = raw.get_field::<String>("type").map_err(|e| json_inner("get-field-type", e))?;
    let _ = raw.get_field::<JsonValue>("content");
    let _ = raw.get_field::<String>("sender");
    let _ = raw.get_field::<u64>("origin_server_ts");
    let ev: T = raw.deserialize().map_err(|e| json_inner("deserialize", e))?;
    Ok(sum(&format!("{ty:?} {ev:?}")))
}

fn ev_timeline(b: &[u8]) -> R {
    raw_event::<AnyTimelineEvent>(b)
}

/// What an application does with a timeline event after parsing it: reads the common fields,
/// converts the timestamp, and uses the helper methods of the event types that have them
/// (membership change, effective power levels and what they allow, server ACL matching, composing
/// a reply / thread message to a received message, applying a received edit).
fn ev_app_use(b: &[u8]) -> R {
    use ruma_events::room::message::{AddMentions, ForwardThread, Relation, ReplyWithinThread, RoomMessageEventContent};
    use ruma_events::{AnyMessageLikeEvent, AnyStateEvent, MessageLikeEvent, StateEvent};
    let ev: AnyTimelineEvent = serde_json::from_slice(b).map_err(json_outer)?;
    let mut out = format!(
        "{} {} {} {:?} {:?} {:?}",
        ev.event_id(),
        ev.sender(),
        ev.room_id(),
        ev.origin_server_ts().to_system_time().map(|t| t.duration_since(std::time::UNIX_EPOCH).map(|d| d.as_secs()).ok()),
        ev.transaction_id().map(|t| t.as_str().len()),
        ev.event_type().to_string()
    );
    match &ev {
        AnyTimelineEvent::State(AnyStateEvent::RoomMember(StateEvent::Original(e))) => {
            out.push_str(&format!(" change={:?} details={:?}", e.membership_change(), e.details()));
        }
        AnyTimelineEvent::State(AnyStateEvent::RoomPowerLevels(e)) => {
            let pl = e.power_levels();
            let alice: &UserId = <&UserId>::try_from("@alice:example.org").unwrap();
            let bob: &UserId = <&UserId>::try_from("@bob:example.org").unwrap();
            out.push_str(&format!(
                " pl={:?}/{:?} {} {} {} {} {} {} {}",
                pl.for_user(alice),
                pl.for_user(bob),
                pl.user_can_ban_user(alice, bob),
                pl.user_can_kick_user(bob, alice),
                pl.user_can_unban_user(alice, bob),
                pl.user_can_invite(bob),
                pl.user_can_redact_event_of_other(bob),
                pl.user_can_send_message(bob, MessageLikeEventType::RoomMessage),
                pl.user_can_send_state(bob, StateEventType::RoomName)
            ));
        }
        AnyTimelineEvent::State(AnyStateEvent::RoomServerAcl(StateEvent::Original(e))) => {
            for s in ["example.org", "evil.example.org:8448", "[::1]", "1.2.3.4", "aaaaaaaaaaaaaaaaaaaaaaaaaaaaaaaaaaaaaaaaaaaaaaaaaaaaaaaaaaaaaaaa.example.org"] {
                let sn: &ServerName = <&ServerName>::try_from(s).unwrap();
                out.push_str(&format!(" acl({s})={}", e.content.is_allowed(sn)));
            }
        }
        AnyTimelineEvent::MessageLike(AnyMessageLikeEvent::RoomMessage(MessageLikeEvent::Original(e))) => {
            let reply = RoomMessageEventContent::text_plain("ok").make_reply_to(e, ForwardThread::Yes, AddMentions::Yes);
            let thread = RoomMessageEventContent::text_html("ok", "<b>ok</b>").make_for_thread(e, ReplyWithinThread::Yes, AddMentions::No);
            out.push_str(&format!(
                " reply={} thread={}",
                serde_json::to_string(&reply).map(|s| s.len()).unwrap_or(0),
                serde_json::to_string(&thread).map(|s| s.len()).unwrap_or(0)
            ));
            if let Some(rel) = &e.content.relates_to {
                out.push_str(&format!(" rel={:?} data={}", rel.rel_type(), rel.data().len()));
            }
            if let Some(Relation::Replacement(r)) = &e.content.relates_to {
                let mut target = RoomMessageEventContent::text_plain("original");
                target.apply_replacement(r.new_content.clone());
                out.push_str(&format!(" edited={}", target.body().len()));
            }
        }
        AnyTimelineEvent::MessageLike(AnyMessageLikeEvent::RoomEncrypted(MessageLikeEvent::Original(e))) => {
            if let Some(rel) = &e.content.relates_to {
                out.push_str(&format!(" rel={:?} data={}", rel.rel_type(), rel.data().len()));
            }
            out.push_str(&format!(" relations={:?}", e.unsigned.relations));
        }
        AnyTimelineEvent::MessageLike(m) => {
            out.push_str(&format!(" relations={:?}", m.relations()));
        }
        _ => {}
    }
    Ok(sum(&out))
}
fn ev_sync_timeline(b: &[u8]) -> R {
    raw_event::<AnySyncTimelineEvent>(b)
}
fn ev_state(b: &[u8]) -> R {
    raw_event::<AnyStateEvent>(b)
}
fn ev_sync_state(b: &[u8]) -> R {
    raw_event::<AnySyncStateEvent>(b)
}
fn ev_stripped_state(b: &[u8]) -> R {
    raw_event::<AnyStrippedStateEvent>(b)
}
fn ev_to_device(b: &[u8]) -> R {
    raw_event::<AnyToDeviceEvent>(b)
}
fn ev_global_account_data(b: &[u8]) -> R {
    raw_event::<AnyGlobalAccountDataEvent>(b)
}
fn ev_room_account_data(b: &[u8]) -> R {
    raw_event::<AnyRoomAccountDataEvent>(b)
}
fn ev_ephemeral(b: &[u8]) -> R {
    raw_event::<AnyEphemeralRoomEvent>(b)
}
fn ev_presence(b: &[u8]) -> R {
    raw_event::<ruma_events::presence::PresenceEvent>(b)
}
fn ev_pdu(b: &[u8]) -> R {
    let p: ruma_events::pdu::Pdu = serde_json::from_slice(b).map_err(json_outer)?;
    let back = serde_json::to_string(&p).map_err(|_| "serialize".to_string())?;
    Ok(sum(&format!("{p:?} {}", back.len())))
}

#[derive(serde::Deserialize)]
struct TypeAndContent {
    #[serde(rename = "type")]
    ty: String,
    content: Box<RawJsonValue>,
}

/// `{"type": .., "content": ..}`: the content goes through `Raw::deserialize_with_type`, as a
/// server does for `PUT /send/{type}`; message contents are then sanitised (html feature).
fn ev_message_content(b: &[u8]) -> R {
    let tc: TypeAndContent = serde_json::from_slice(b).map_err(json_outer)?;
    let raw: Raw<AnyMessageLikeEventContent> = Raw::from_json(tc.content);
    let c = raw.deserialize_with_type(MessageLikeEventType::from(tc.ty.as_str())).map_err(|e| json_inner("with-type", e))?;
    let mut extra = String::new();
    if let AnyMessageLikeEventContent::RoomMessage(mut m) = c.clone() {
        m.sanitize(HtmlSanitizerMode::Strict, RemoveReplyFallback::Yes);
        extra = format!("{:?} body={}", m.msgtype(), m.body().len());
        let mut m2 = match c.clone() {
            AnyMessageLikeEventContent::RoomMessage(m2) => m2,
            _ => unreachable!(),
        };
        m2.sanitize(HtmlSanitizerMode::Compat, RemoveReplyFallback::No);
        extra.push_str(&format!(" {}", serde_json::to_string(&m2).map(|s| s.len()).unwrap_or(0)));
    }
    let ser = serde_json::to_string(&c).map(|s| s.len());
    Ok(sum(&format!("{c:?} {ser:?} {extra}")))
}

fn ev_state_content(b: &[u8]) -> R {
    let tc: TypeAndContent = serde_json::from_slice(b).map_err(json_outer)?;
    let raw: Raw<AnyStateEventContent> = Raw::from_json(tc.content);
    let c = raw.deserialize_with_type(StateEventType::from(tc.ty.as_str())).map_err(|e| json_inner("with-type", e))?;
    let ser = serde_json::to_string(&c).map(|s| s.len());
    Ok(sum(&format!("{c:?} {ser:?}")))
}

// ---------------------------------------------------------------------------------------------
// 5. push

fn push_ctx() -> PushConditionRoomCtx {
    let mut users = BTreeMap::new();
    users.insert(OwnedUserId::try_from("@alice:example.org").unwrap(), js_int::int!(100));
    PushConditionRoomCtx {
        room_id: OwnedRoomId::try_from("!room:example.org").unwrap(),
        member_count: js_int::uint!(3),
        user_id: OwnedUserId::try_from("@bob:example.org").unwrap(),
        user_display_name: "Bob".to_string(),
        power_levels: Some(PushConditionPowerLevelsCtx {
            users,
            users_default: js_int::int!(0),
            notifications: ruma_common::power_levels::NotificationPowerLevels::new(),
        }),
    }
}

const PUSH_EVENTS: [&str; 4] = [
    r#"{"type":"m.room.message","sender":"@alice:example.org","room_id":"!room:example.org","event_id":"$e1","origin_server_ts":1,"content":{"msgtype":"m.text","body":"hello Bob, @room look","m.mentions":{"user_ids":["@bob:example.org"],"room":true}}}"#,
    r#"{"type":"m.room.member","sender":"@alice:example.org","room_id":"!room:example.org","state_key":"@bob:example.org","event_id":"$e2","origin_server_ts":2,"content":{"membership":"invite"}}"#,
    r#"{"type":"m.room.encrypted","sender":"@carol:example.org","room_id":"!room:example.org","event_id":"$e3","origin_server_ts":3,"content":{"algorithm":"m.megolm.v1.aes-sha2","ciphertext":"x"}}"#,
    r#"{"type":"m.call.invite","sender":"@alice:example.org","room_id":"!room:example.org","event_id":"$e4","origin_server_ts":4,"content":{"call_id":"c","version":"1","lifetime":1000,"offer":{"type":"offer","sdp":"x"}},"a.b":{"c\\d":[1,"x",null,true,{}]}}"#,
];

fn push_ruleset(b: &[u8]) -> R {
    let rs: Ruleset = serde_json::from_slice(b).map_err(json_outer)?;
    let ctx = push_ctx();
    let mut out = String::new();
    for e in PUSH_EVENTS {
        let raw: Raw<JsonValue> = serde_json::from_str(e).unwrap();
        let acts = rs.get_actions(&raw, &ctx);
        let m = rs.get_match(&raw, &ctx).map(|r| r.rule_id().to_string());
        out.push_str(&format!("{acts:?}{m:?};"));
    }
    let n = rs.iter().count();
    let ser = serde_json::to_string(&rs).map_err(|_| "serialize".to_string())?;
    let back: Ruleset = serde_json::from_str(&ser).map_err(|e| json_inner("roundtrip", e))?;
    Ok(sum(&format!("{n} {} {} {out}", ser.len(), back.iter().count())))
}

fn push_event(b: &[u8]) -> R {
    let raw: Raw<JsonValue> = serde_json::from_slice(b).map_err(json_outer)?;
    let flat = FlattenedJson::from_raw(&raw);
    let ctx = push_ctx();
    let user: &UserId = <&UserId>::try_from("@bob:example.org").unwrap();
    let rs = Ruleset::server_default(user);
    let acts = rs.get_actions(&raw, &ctx);
    let m = rs.get_match(&raw, &ctx).map(|r| r.rule_id().to_string());
    Ok(sum(&format!(
        "{:?} {:?} {:?} {:?} {} {acts:?} {m:?}",
        flat.get_str("content.body").map(|s| s.len()),
        flat.get_str("type"),
        flat.get("content.m\\.mentions.user_ids").is_some(),
        flat.get_str("sender"),
        flat.contains_mentions()
    )))
}

/// `pattern \n value`: glob matching as the `event_match` condition and content rules do it.
fn push_glob(b: &[u8]) -> R {
    let s = utf8(b)?;
    let (pattern, value) = s.split_once('\n').ok_or_else(|| "outer-no-separator".to_string())?;
    let ctx = push_ctx();
    let ev = serde_json::json!({"type": value, "sender": value, "room_id": "!room:example.org", "content": {"body": value, "k.e\\y": value}});
    let raw: Raw<JsonValue> = Raw::new(&ev).map_err(|_| "serialize".to_string())?;
    let flat = FlattenedJson::from_raw(&raw);
    let mut out = Vec::new();
    // the order in which the keys are tried depends on the input (a pattern is matched by words for
    // `content.body` and against the whole value elsewhere; neither may leave anything behind for the other)
    let keys = ["content.body", "type", "sender", "room_id", "content.k\\.e\\\\y", pattern];
    let rot = value.len() % keys.len();
    let mut by_key = vec![false; keys.len()];
    for i in 0..keys.len() {
        let k = (i + rot) % keys.len();
        let c = PushCondition::EventMatch { key: keys[k].to_string(), pattern: pattern.to_string() };
        by_key[k] = c.applies(&flat, &ctx);
    }
    out.extend(by_key);
    let rule: ruma_common::push::PatternedPushRule = ruma_common::push::PatternedPushRuleInit {
        actions: vec![Action::Notify],
        default: false,
        enabled: true,
        rule_id: "r".into(),
        pattern: pattern.to_string(),
    }
    .into();
    out.push(rule.applies_to("content.body", &flat, &ctx));
    let cond_json = serde_json::json!({"kind": "event_match", "key": "content.body", "pattern": pattern});
    let c: Result<PushCondition, _> = serde_json::from_value(cond_json);
    out.push(c.map(|c| c.applies(&flat, &ctx)).unwrap_or(false));
    Ok(format!("{out:?}"))
}

#[derive(serde::Deserialize)]
struct EditScript {
    #[serde(default)]
    start: String,
    ops: Vec<EditOp>,
}
#[derive(serde::Deserialize)]
struct EditOp {
    op: String,
    #[serde(default)]
    kind: String,
    #[serde(default)]
    rule_id: String,
    #[serde(default)]
    after: Option<String>,
    #[serde(default)]
    before: Option<String>,
    #[serde(default)]
    enabled: bool,
    #[serde(default)]
    pattern: Option<String>,
    #[serde(default)]
    actions: Option<JsonValue>,
    #[serde(default)]
    conditions: Option<JsonValue>,
}

fn rule_kind(k: &str) -> RuleKind {
    match k {
        "override" => RuleKind::Override,
        "underride" => RuleKind::Underride,
        "content" => RuleKind::Content,
        "room" => RuleKind::Room,
        "sender" => RuleKind::Sender,
        other => RuleKind::from(other),
    }
}

fn ids_of(rs: &Ruleset, kind: &RuleKind) -> Vec<String> {
    use ruma_common::push::AnyPushRuleRef as A;
    rs.iter()
        .filter(|r| match (r, kind) {
            (A::Override(_), RuleKind::Override) => true,
            (A::Underride(_), RuleKind::Underride) => true,
            (A::Content(_), RuleKind::Content) => true,
            (A::Room(_), RuleKind::Room) => true,
            (A::Sender(_), RuleKind::Sender) => true,
            _ => false,
        })
        .map(|r| r.rule_id().to_string())
        .collect()
}

/// A JSON-encoded list of edit operations applied to a ruleset, as `PUT/DELETE /pushrules/..`
/// requests of a client would drive it.
fn push_edits(b: &[u8]) -> R {
    let script: EditScript = serde_json::from_slice(b).map_err(json_outer)?;
    let user: &UserId = <&UserId>::try_from("@bob:example.org").unwrap();
    let mut rs = if script.start == "empty" { Ruleset::new() } else { Ruleset::server_default(user) };
    let mut results = Vec::new();
    for op in script.ops.iter().take(64) {
        let kind = rule_kind(&op.kind);
        let resolve = |a: &Option<String>, rs: &Ruleset| -> Option<String> {
            match a.as_deref() {
                Some("$self") => Some(op.rule_id.clone()),
                Some("$last") => ids_of(rs, &kind).last().cloned().or(Some("$none".into())),
                Some("$first") => ids_of(rs, &kind).first().cloned().or(Some("$none".into())),
                other => other.map(|s| s.to_string()),
            }
        };
        let r: Result<(), String> = match op.op.as_str() {
            "insert" => {
                let actions: Vec<Action> = match &op.actions {
                    Some(a) => serde_json::from_value(a.clone()).map_err(|_| "bad-actions".to_string())?,
                    None => vec![Action::Notify],
                };
                let conditions: Vec<PushCondition> = match &op.conditions {
                    Some(c) => serde_json::from_value(c.clone()).map_err(|_| "bad-conditions".to_string())?,
                    None => vec![],
                };
                let rule = match kind {
                    RuleKind::Override => NewPushRule::Override(NewConditionalPushRule::new(op.rule_id.clone(), conditions, actions)),
                    RuleKind::Underride => NewPushRule::Underride(NewConditionalPushRule::new(op.rule_id.clone(), conditions, actions)),
                    RuleKind::Content => {
                        NewPushRule::Content(NewPatternedPushRule::new(op.rule_id.clone(), op.pattern.clone().unwrap_or_else(|| "p*".into()), actions))
                    }
                    RuleKind::Room => match OwnedRoomId::try_from(op.rule_id.as_str()) {
                        Ok(id) => NewPushRule::Room(NewSimplePushRule::new(id, actions)),
                        Err(_) => {
                            results.push("bad-room-id".to_string());
                            continue;
                        }
                    },
                    RuleKind::Sender => match OwnedUserId::try_from(op.rule_id.as_str()) {
                        Ok(id) => NewPushRule::Sender(NewSimplePushRule::new(id, actions)),
                        Err(_) => {
                            results.push("bad-user-id".to_string());
                            continue;
                        }
                    },
                    _ => {
                        results.push("bad-kind".to_string());
                        continue;
                    }
                };
                let after = resolve(&op.after, &rs);
                let before = resolve(&op.before, &rs);
                rs.insert(rule, after.as_deref(), before.as_deref()).map_err(|e| variant(&e))
            }
            "remove" => rs.remove(kind.clone(), &op.rule_id).map_err(|e| variant(&e)),
            "set_enabled" => rs.set_enabled(kind.clone(), &op.rule_id, op.enabled).map_err(|e| variant(&e)),
            "set_actions" => {
                let actions: Vec<Action> = match &op.actions {
                    Some(a) => serde_json::from_value(a.clone()).map_err(|_| "bad-actions".to_string())?,
                    None => vec![],
                };
                rs.set_actions(kind.clone(), &op.rule_id, actions).map_err(|e| variant(&e))
            }
            "get" => rs.get(kind.clone(), &op.rule_id).map(|_| ()).ok_or_else(|| "none".to_string()),
            _ => Err("bad-op".to_string()),
        };
        results.push(match r {
            Ok(()) => "ok".to_string(),
            Err(e) => e,
        });
    }
    let ctx = push_ctx();
    let raw: Raw<JsonValue> = serde_json::from_str(PUSH_EVENTS[0]).unwrap();
    let acts = rs.get_actions(&raw, &ctx).len();
    let order: Vec<String> = rs.iter().map(|r| r.rule_id().to_string()).collect();
    let ser = serde_json::to_string(&rs).map_err(|_| "serialize".to_string())?;
    Ok(sum(&format!("{results:?} {acts} {} {order:?}", ser.len())))
}

// ---------------------------------------------------------------------------------------------
// 6. signatures, canonical JSON, redaction, stored keys

/// PKCS#8 v2 document of the fixed key pair (the one of ruma-signatures' doc examples).
pub const PKCS8_B64: &str = "MFECAQEwBQYDK2VwBCIEINjozvdfbsGEt6DD+7Uf4PiJ/YvTNXV2mIPc/tA0T+6tgSEA3TPraTczVkDPTRaX4K+AfUuyx7Mzq1UafTXypnl0t2k";
pub const ENTITY: &str = "domain";
/// The server of the senders of the seed events signs them.
pub const EVENT_ENTITY: &str = "example.org";

fn key_pair() -> Ed25519KeyPair {
    let doc: Base64 = Base64::parse(PKCS8_B64).unwrap();
    Ed25519KeyPair::from_der(doc.as_bytes(), "1".into()).unwrap()
}

fn public_keys() -> PublicKeyMap {
    let kp = key_pair();
    let mut set = PublicKeySet::new();
    set.insert("ed25519:1".to_string(), Base64::new(kp.public_key().to_vec()));
    let mut map = PublicKeyMap::new();
    map.insert(ENTITY.to_string(), set.clone());
    map.insert("example.org".to_string(), set);
    map
}

fn canonical_object(b: &[u8]) -> Result<CanonicalJsonObject, String> {
    serde_json::from_slice::<CanonicalJsonObject>(b).map_err(json_outer)
}

fn sig_canonical(b: &[u8]) -> R {
    let obj = canonical_object(b)?;
    let rules = rules_for(b);
    let cj = ruma_signatures::canonical_json(&obj).map_err(|e| format!("canonical-{}", variant(&e)))?;
    let ch = ruma_signatures::content_hash(&obj).map(|h| h.encode()).map_err(|e| variant(&e));
    let rh = ruma_signatures::reference_hash(&obj, &rules).map_err(|e| variant(&e));
    let val: CanonicalJsonValue = CanonicalJsonValue::Object(obj.clone());
    let shown = val.to_string();
    let back: Result<CanonicalJsonValue, _> = serde_json::from_str(&shown);
    let via_value: Result<CanonicalJsonValue, _> = serde_json::from_slice::<JsonValue>(b).map_err(|_| ()).and_then(|v| CanonicalJsonValue::try_from(v).map_err(|_| ()));
    Ok(sum(&format!("{} {ch:?} {rh:?} {} {:?} {:?}", fnv(cj.as_bytes()), shown.len(), back.map(|b| b == val).ok(), via_value.map(|v| v == val).ok())))
}

fn sig_verify_json(b: &[u8]) -> R {
    let obj = canonical_object(b)?;
    ruma_signatures::verify_json(&public_keys(), &obj).map_err(|e| format!("verify-{}", variant(&e)))?;
    Ok("verified".to_string())
}

fn sig_verify_event(b: &[u8]) -> R {
    let obj = canonical_object(b)?;
    let rules = rules_for(b);
    let v = ruma_signatures::verify_event(&public_keys(), &obj, &rules).map_err(|e| format!("verify-{}", variant(&e)))?;
    Ok(format!("{v:?}"))
}

fn sig_sign_json(b: &[u8]) -> R {
    let mut obj = canonical_object(b)?;
    ruma_signatures::sign_json(ENTITY, &key_pair(), &mut obj).map_err(|e| format!("sign-{}", variant(&e)))?;
    let v = ruma_signatures::verify_json(&public_keys(), &obj).map_err(|e| variant(&e));
    let cj = ruma_signatures::canonical_json(&obj).map_err(|e| variant(&e));
    Ok(sum(&format!("{v:?} {:?}", cj.map(|c| fnv(c.as_bytes())))))
}

/// A peer can send a *correctly signed* event with any stored content hash: sign the event as it
/// is (keeping whatever `hashes` it carries), then verify it.
fn sig_resign_verify(b: &[u8]) -> R {
    let mut obj = canonical_object(b)?;
    let rules = rules_for(b);
    obj.remove("signatures");
    let mut red = ruma_common::canonical_json::redact(obj.clone(), &rules.redaction, None).map_err(|e| format!("redact-{}", variant(&e)))?;
    ruma_signatures::sign_json(EVENT_ENTITY, &key_pair(), &mut red).map_err(|e| format!("sign-{}", variant(&e)))?;
    if let Some(s) = red.remove("signatures") {
        obj.insert("signatures".to_string(), s);
    }
    let v = ruma_signatures::verify_event(&public_keys(), &obj, &rules).map_err(|e| format!("verify-{}", variant(&e)))?;
    Ok(format!("{v:?}"))
}

fn sig_hash_and_sign(b: &[u8]) -> R {
    let mut obj = canonical_object(b)?;
    let rules = rules_for(b);
    ruma_signatures::hash_and_sign_event(EVENT_ENTITY, &key_pair(), &mut obj, &rules.redaction).map_err(|e| format!("sign-{}", variant(&e)))?;
    let v = ruma_signatures::verify_event(&public_keys(), &obj, &rules).map_err(|e| variant(&e));
    let rh = ruma_signatures::reference_hash(&obj, &rules).map_err(|e| variant(&e));
    Ok(sum(&format!("{v:?} {rh:?}")))
}

fn sig_redact(b: &[u8]) -> R {
    let obj = canonical_object(b)?;
    let rules = rules_for(b);
    let r1 = redact(obj.clone(), &rules.redaction, None).map_err(|e| format!("redact-{}", variant(&e)))?;
    let mut o2 = obj.clone();
    let because = ruma_common::canonical_json::RedactedBecause::from_json(obj.clone());
    let r2 = redact_in_place(&mut o2, &rules.redaction, Some(because)).map_err(|e| variant(&e));
    let ty = match obj.get("type") {
        Some(CanonicalJsonValue::String(s)) => s.clone(),
        _ => "m.room.message".to_string(),
    };
    let r3 = match obj.get("content") {
        Some(CanonicalJsonValue::Object(c)) => {
            let mut c = c.clone();
            redact_content_in_place(&mut c, &rules.redaction, &ty).map(|_| c.len()).map_err(|e| variant(&e))
        }
        _ => Err("no-content".to_string()),
    };
    let s1 = CanonicalJsonValue::Object(r1).to_string();
    let s2 = CanonicalJsonValue::Object(o2).to_string();
    Ok(sum(&format!("{} {r2:?} {} {r3:?}", fnv(s1.as_bytes()), fnv(s2.as_bytes()))))
}

/// The raw bytes of a stored key file (a flipped byte on disk).
fn sig_from_der(b: &[u8]) -> R {
    let kp = Ed25519KeyPair::from_der(b, "1".into()).map_err(|e| variant(&e))?;
    let sig = kp.sign(b"message");
    Ok(sum(&format!("{} {:?} {}", kp.version(), kp.public_key(), Base64::<Standard, _>::new(sig.as_bytes().to_vec()).encode())))
}

// ---------------------------------------------------------------------------------------------
// 7. HTML

fn html_sanitize(b: &[u8]) -> R {
    let s = utf8(b)?;
    let html = Html::parse(s);
    let before = html.to_string();
    html.sanitize_with(&SanitizerConfig::strict());
    let strict = html.to_string();
    let html2 = Html::parse(s);
    html2.sanitize_with(&SanitizerConfig::compat().remove_reply_fallback());
    let compat = html2.to_string();
    let html3 = Html::parse(s);
    html3.sanitize();
    let plain = html3.to_string();
    // sanitising is idempotent on its own output as far as panics go
    let html4 = Html::parse(&strict);
    html4.sanitize_with(&SanitizerConfig::strict().remove_reply_fallback());
    Ok(sum(&format!("{before}|{strict}|{compat}|{plain}|{}", html4.to_string().len())))
}

thread_local! {
    /// What a long-running process does: a few sanitizer configurations are built once (a base and
    /// variants derived from clones of it through the builder methods) and then used for every
    /// message. A configuration is a set of settings: using one must not affect what another - or
    /// the same one, later - does.
    static CONFIG_FAMILY: Vec<SanitizerConfig> = {
        use ruma_html::{ListBehavior, PropertiesNames};
        let base = SanitizerConfig::strict();
        let compat = SanitizerConfig::compat();
        vec![
            base.clone(),
            base.clone().allow_elements(["iframe", "select", "option", "title", "marquee", "script"], ListBehavior::Add),
            base.clone().allow_elements(["p", "b", "a", "div"], ListBehavior::Override),
            base.clone().remove_reply_fallback().allow_attributes([PropertiesNames { parent: "a", properties: &["href", "onclick"] }], ListBehavior::Override),
            compat.clone(),
            compat.clone().ignore_elements(["table", "blockquote"]).max_depth(5),
            base.remove_elements(["h1", "ul"]).allow_classes([PropertiesNames { parent: "code", properties: &["x-*"] }], ListBehavior::Add),
        ]
    };
}

/// The document sanitised with every member of a family of long-lived configurations, in an order
/// that depends on the input.
fn html_sanitize_shared(b: &[u8]) -> R {
    let s = utf8(b)?;
    CONFIG_FAMILY.with(|family| {
        let rot = s.len() % family.len();
        let mut outs = vec![String::new(); family.len()];
        for i in 0..family.len() {
            let k = (i + rot) % family.len();
            let html = Html::parse(s);
            html.sanitize_with(&family[k]);
            outs[k] = html.to_string();
        }
        Ok(sum(&outs.join("|")))
    })
}

fn html_helpers(b: &[u8]) -> R {
    let s = utf8(b)?;
    let a = ruma_html::remove_html_reply_fallback(s);
    let b1 = ruma_html::sanitize_html(s, HtmlSanitizerMode::Strict, RemoveReplyFallback::Yes);
    let c = ruma_html::sanitize_html(s, HtmlSanitizerMode::Compat, RemoveReplyFallback::No);
    let d = ruma_events::room::message::sanitize::remove_plain_reply_fallback(s);
    Ok(sum(&format!("{a}|{b1}|{c}|{}", d.len())))
}

/// Iterative walk over the parsed tree converting every element to its Matrix representation.
fn html_matrix(b: &[u8]) -> R {
    let s = utf8(b)?;
    let html = Html::parse(s);
    let mut stack: Vec<ruma_html::NodeRef> = html.children().collect();
    let (mut elements, mut texts, mut h) = (0u64, 0u64, 0u64);
    while let Some(n) = stack.pop() {
        if let Some(el) = n.as_element() {
            elements += 1;
            let m = el.to_matrix();
            h = simcore::fnv_mix(h, fnv(format!("{:?} {:?}", m.element, m.attrs).as_bytes()));
        } else if let Some(t) = n.as_text() {
            texts += 1;
            h = simcore::fnv_mix(h, t.borrow().len() as u64);
        }
        let _ = (n.parent().is_some(), n.next_sibling().is_some(), n.prev_sibling().is_some(), n.first_child().is_some(), n.last_child().is_some());
        stack.extend(n.children());
    }
    Ok(format!("{elements} {texts} {h:016x}"))
}

// ---------------------------------------------------------------------------------------------
// table

use crate::entries_http as h;
use crate::entries_stateres as sr;

pub const T_ID: u32 = T_DELIM;

pub static ENTRIES: &[Entry] = &[
    Entry { name: "id.user", traits: T_ID, f: id_user },
    Entry { name: "id.user_with_server", traits: T_ID, f: id_user_with_server },
    Entry { name: "id.room", traits: T_ID, f: id_room },
    Entry { name: "id.room_alias", traits: T_ID, f: id_room_alias },
    Entry { name: "id.room_or_alias", traits: T_ID, f: id_room_or_alias },
    Entry { name: "id.event", traits: T_ID, f: id_event },
    Entry { name: "id.server_name", traits: T_ID, f: id_server_name },
    Entry { name: "id.mxc", traits: T_ID | T_MXC, f: id_mxc },
    Entry { name: "id.key_id", traits: T_ID, f: id_key_id },
    Entry { name: "id.room_version", traits: T_ID, f: id_room_version },
    Entry { name: "id.client_secret", traits: T_ID, f: id_client_secret },
    Entry { name: "id.session", traits: T_ID, f: id_session },
    Entry { name: "id.opaque", traits: T_ID, f: id_opaque },
    Entry { name: "uri.matrix", traits: T_DELIM, f: uri_matrix },
    Entry { name: "uri.matrix_to", traits: T_DELIM, f: uri_matrix_to },
    Entry { name: "hdr.x_matrix", traits: T_DELIM | T_BYTES, f: hdr_x_matrix },
    Entry { name: "hdr.x_matrix_str", traits: T_DELIM, f: hdr_x_matrix_str },
    Entry { name: "hdr.content_disposition", traits: T_DELIM | T_BYTES, f: hdr_content_disposition },
    Entry { name: "b64.standard", traits: T_BYTES, f: b64_standard },
    Entry { name: "b64.urlsafe", traits: T_BYTES, f: b64_urlsafe },
    Entry { name: "ev.timeline", traits: T_JSON | T_BYTES, f: ev_timeline },
    Entry { name: "ev.app_use", traits: T_JSON | T_BYTES, f: ev_app_use },
    Entry { name: "ev.sync_timeline", traits: T_JSON | T_BYTES, f: ev_sync_timeline },
    Entry { name: "ev.state", traits: T_JSON | T_BYTES, f: ev_state },
    Entry { name: "ev.sync_state", traits: T_JSON | T_BYTES, f: ev_sync_state },
    Entry { name: "ev.stripped_state", traits: T_JSON | T_BYTES, f: ev_stripped_state },
    Entry { name: "ev.to_device", traits: T_JSON | T_BYTES, f: ev_to_device },
    Entry { name: "ev.global_account_data", traits: T_JSON | T_BYTES, f: ev_global_account_data },
    Entry { name: "ev.room_account_data", traits: T_JSON | T_BYTES, f: ev_room_account_data },
    Entry { name: "ev.ephemeral", traits: T_JSON | T_BYTES, f: ev_ephemeral },
    Entry { name: "ev.presence", traits: T_JSON | T_BYTES, f: ev_presence },
    Entry { name: "ev.pdu", traits: T_JSON | T_BYTES, f: ev_pdu },
    Entry { name: "ev.message_content", traits: T_JSON | T_BYTES, f: ev_message_content },
    Entry { name: "ev.state_content", traits: T_JSON | T_BYTES, f: ev_state_content },
    Entry { name: "push.ruleset", traits: T_JSON | T_BYTES, f: push_ruleset },
    Entry { name: "push.event", traits: T_JSON | T_BYTES, f: push_event },
    Entry { name: "push.glob", traits: T_DELIM | crate::mutate::T_GLOB, f: push_glob },
    Entry { name: "push.edits", traits: T_JSON | T_BYTES | T_ANCHOR, f: push_edits },
    Entry { name: "sig.canonical", traits: T_JSON | T_BYTES, f: sig_canonical },
    Entry { name: "sig.verify_json", traits: T_JSON | T_BYTES, f: sig_verify_json },
    Entry { name: "sig.verify_event", traits: T_JSON | T_BYTES, f: sig_verify_event },
    Entry { name: "sig.sign_json", traits: T_JSON | T_BYTES, f: sig_sign_json },
    Entry { name: "sig.hash_and_sign", traits: T_JSON | T_BYTES, f: sig_hash_and_sign },
    Entry { name: "sig.resign_verify", traits: T_JSON | T_BYTES, f: sig_resign_verify },
    Entry { name: "sig.redact", traits: T_JSON | T_BYTES, f: sig_redact },
    Entry { name: "sig.from_der", traits: T_BYTES, f: sig_from_der },
    Entry { name: "html.sanitize", traits: T_HTML, f: html_sanitize },
    Entry { name: "html.sanitize_shared", traits: T_HTML, f: html_sanitize_shared },
    Entry { name: "html.helpers", traits: T_HTML, f: html_helpers },
    Entry { name: "html.matrix", traits: T_HTML, f: html_matrix },
    Entry { name: "http.c.send_message", traits: h::T_REQ, f: h::c_send_message },
    Entry { name: "http.c.sync", traits: h::T_REQ, f: h::c_sync },
    Entry { name: "http.c.set_pushrule", traits: h::T_REQ, f: h::c_set_pushrule },
    Entry { name: "http.c.join_room", traits: h::T_REQ, f: h::c_join_room },
    Entry { name: "http.c.send_state", traits: h::T_REQ, f: h::c_send_state },
    Entry { name: "http.c.create_filter", traits: h::T_REQ, f: h::c_create_filter },
    Entry { name: "http.c.create_content", traits: h::T_REQ, f: h::c_create_content },
    Entry { name: "http.f.send_transaction", traits: h::T_REQ, f: h::f_send_transaction },
    Entry { name: "http.f.create_join", traits: h::T_REQ, f: h::f_create_join },
    Entry { name: "http.f.get_missing_events", traits: h::T_REQ, f: h::f_get_missing_events },
    Entry { name: "http.a.push_events", traits: h::T_REQ, f: h::a_push_events },
    Entry { name: "http.i.lookup_3pid", traits: h::T_REQ, f: h::i_lookup_3pid },
    Entry { name: "http.i.store_invitation", traits: h::T_REQ, f: h::i_store_invitation },
    Entry { name: "http.p.send_event_notification", traits: h::T_REQ, f: h::p_send_event_notification },
    Entry { name: "http.r.sync_response", traits: h::T_REQ, f: h::r_sync_response },
    Entry { name: "http.r.server_keys_response", traits: h::T_REQ, f: h::r_server_keys_response },
    Entry { name: "http.r.get_content_response", traits: h::T_REQ, f: h::r_get_content_response },
    Entry { name: "http.r.fed_media_content", traits: h::T_REQ, f: h::r_fed_media_content },
    Entry { name: "http.r.fed_media_thumbnail", traits: h::T_REQ, f: h::r_fed_media_thumbnail },
    Entry { name: "http.r.store_invitation", traits: h::T_REQ, f: h::r_store_invitation_response },
    Entry { name: "http.r.lookup_3pid", traits: h::T_REQ, f: h::r_lookup_3pid_response },
    Entry { name: "http.r.get_missing_events", traits: h::T_REQ, f: h::r_get_missing_events_response },
    Entry { name: "http.r.send_transaction", traits: h::T_REQ, f: h::r_send_transaction_response },
    Entry { name: "http.r.create_join", traits: h::T_REQ, f: h::r_create_join_response },
    Entry { name: "http.r.get_pushrules", traits: h::T_REQ, f: h::r_get_pushrules_response },
    Entry { name: "http.r.get_state", traits: h::T_REQ, f: h::r_get_state_response },
    Entry { name: "http.c.get_message_events", traits: h::T_REQ, f: h::c_get_message_events },
    Entry { name: "http.c.get_context", traits: h::T_REQ, f: h::c_get_context },
    Entry { name: "http.c.login", traits: h::T_REQ, f: h::c_login },
    Entry { name: "http.c.register", traits: h::T_REQ, f: h::c_register },
    Entry { name: "http.c.create_room", traits: h::T_REQ, f: h::c_create_room },
    Entry { name: "http.c.upload_keys", traits: h::T_REQ, f: h::c_upload_keys },
    Entry { name: "http.c.send_to_device", traits: h::T_REQ, f: h::c_send_to_device },
    Entry { name: "http.c.set_read_marker", traits: h::T_REQ, f: h::c_set_read_marker },
    Entry { name: "http.c.search_users", traits: h::T_REQ, f: h::c_search_users },
    Entry { name: "http.c.get_keys", traits: h::T_REQ, f: h::c_get_keys },
    Entry { name: "http.c.set_presence", traits: h::T_REQ, f: h::c_set_presence },
    Entry { name: "http.c.upload_signatures", traits: h::T_REQ, f: h::c_upload_signatures },
    Entry { name: "http.c.get_relations", traits: h::T_REQ, f: h::c_get_relations },
    Entry { name: "http.c.knock_room", traits: h::T_REQ, f: h::c_knock_room },
    Entry { name: "http.c.report_content", traits: h::T_REQ, f: h::c_report_content },
    Entry { name: "http.f.create_invite", traits: h::T_REQ, f: h::f_create_invite },
    Entry { name: "http.f.get_event", traits: h::T_REQ, f: h::f_get_event },
    Entry { name: "http.f.backfill", traits: h::T_REQ, f: h::f_backfill },
    Entry { name: "http.f.claim_keys", traits: h::T_REQ, f: h::f_claim_keys },
    Entry { name: "http.f.get_devices", traits: h::T_REQ, f: h::f_get_devices },
    Entry { name: "http.f.send_knock", traits: h::T_REQ, f: h::f_send_knock },
    Entry { name: "http.f.create_leave", traits: h::T_REQ, f: h::f_create_leave },
    Entry { name: "http.f.query_profile", traits: h::T_REQ, f: h::f_query_profile },
    Entry { name: "http.f.exchange_invite", traits: h::T_REQ, f: h::f_exchange_invite },
    Entry { name: "http.f.make_join", traits: h::T_REQ, f: h::f_make_join },
    Entry { name: "http.a.query_user_id", traits: h::T_REQ, f: h::a_query_user_id },
    Entry { name: "http.a.ping", traits: h::T_REQ, f: h::a_ping },
    Entry { name: "http.i.bind_3pid", traits: h::T_REQ, f: h::i_bind_3pid },
    Entry { name: "http.i.validate_email", traits: h::T_REQ, f: h::i_validate_email },
    Entry { name: "http.i.request_email_token", traits: h::T_REQ, f: h::i_request_email_token },
    Entry { name: "http.r.c_error", traits: h::T_REQ, f: h::r_c_error },
    Entry { name: "http.r.uiaa", traits: h::T_REQ, f: h::r_uiaa },
    Entry { name: "http.r.f_error", traits: h::T_REQ, f: h::r_f_error },
    Entry { name: "http.r.get_supported_versions", traits: h::T_REQ, f: h::r_get_supported_versions },
    Entry { name: "http.r.discover_homeserver", traits: h::T_REQ, f: h::r_discover_homeserver },
    Entry { name: "http.r.discover_server", traits: h::T_REQ, f: h::r_discover_server },
    Entry { name: "http.r.login_types", traits: h::T_REQ, f: h::r_login_types },
    Entry { name: "http.r.login", traits: h::T_REQ, f: h::r_login },
    Entry { name: "http.r.make_join", traits: h::T_REQ, f: h::r_make_join },
    Entry { name: "http.r.state_ids", traits: h::T_REQ, f: h::r_state_ids },
    Entry { name: "http.r.backfill", traits: h::T_REQ, f: h::r_backfill },
    Entry { name: "http.r.keys_query", traits: h::T_REQ, f: h::r_keys_query },
    Entry { name: "http.r.get_devices", traits: h::T_REQ, f: h::r_get_devices },
    Entry { name: "http.r.messages", traits: h::T_REQ, f: h::r_messages },
    Entry { name: "http.r.context", traits: h::T_REQ, f: h::r_context },
    Entry { name: "http.r.joined_members", traits: h::T_REQ, f: h::r_joined_members },
    Entry { name: "http.r.public_rooms", traits: h::T_REQ, f: h::r_public_rooms },
    Entry { name: "http.r.turn_server", traits: h::T_REQ, f: h::r_turn_server },
    Entry { name: "http.r.profile", traits: h::T_REQ, f: h::r_profile },
    Entry { name: "http.r.hierarchy", traits: h::T_REQ, f: h::r_hierarchy },
    Entry { name: "stateres.auth_types", traits: T_JSON | T_BYTES, f: sr::auth_types },
    Entry { name: "stateres.auth_check", traits: T_JSON | T_BYTES, f: sr::auth_check_all },
    Entry { name: "stateres.resolve", traits: T_JSON | T_BYTES, f: sr::resolve_sets },
];

pub fn entry_index(name: &str) -> Option<usize> {
    ENTRIES.iter().position(|e| e.name == name)
}
