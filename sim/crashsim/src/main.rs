//! Engine C — `crashsim` (DESIGN §6): corrupted wire data against long-lived workers. Serves C17.
//!
//! One run = one supervisor session: one worker process is spawned and fed a tape-chosen number of
//! deliveries `(entry point, bytes)`; every decision (entry point, seed, mutations, their parameters)
//! is drawn from the tape. Observables: panic payload, process death (signal / exit status), hang
//! (60 s watchdog, confirmed twice in isolation), canary drift.

mod entries;
mod entries_http;
mod entries_stateres;
mod mutate;
mod seeds;
mod seeds_events;
mod seeds_gen;
mod supervisor;
mod worker;

use std::collections::VecDeque;
use std::sync::OnceLock;
use std::time::Duration;

use serde_json::{json, Value};
use simcore::{CheckSpec, Engine, Known, RunOutcome, Tape, Tier, Violation};

use entries::ENTRIES;
use supervisor::{isolated, isolated_bare, Reply, Worker, WATCHDOG};
use worker::worker_main;

simcore::install_getrandom_seam!();

const PROP: &str = "C17";

// ---------------------------------------------------------------------------------------------
// corpus

struct Corpus {
    /// per entry point: seeds (embedded first, fixtures after) and their provenance
    seeds: Vec<Vec<(String, Vec<u8>)>>,
    byte_kinds: Vec<Vec<&'static str>>,
    struct_kinds: Vec<Vec<&'static str>>,
}

fn corpus() -> &'static Corpus {
    static C: OnceLock<Corpus> = OnceLock::new();
    C.get_or_init(|| {
        let fixtures = seeds::load_fixtures();
        // single objects out of fixture arrays
        let mut objects: Vec<(String, Vec<u8>)> = Vec::new();
        for (path, bytes) in &fixtures {
            if let Ok(Value::Array(a)) = serde_json::from_slice::<Value>(bytes) {
                for (i, v) in a.iter().enumerate().take(40) {
                    if v.is_object() {
                        objects.push((format!("{path}[{i}]"), serde_json::to_vec(v).unwrap_or_default()));
                    }
                }
            }
        }
        let mut all = Vec::new();
        let mut bk = Vec::new();
        let mut sk = Vec::new();
        for e in ENTRIES {
            let mut s: Vec<(String, Vec<u8>)> = seeds::embedded(e.name).into_iter().enumerate().map(|(i, b)| (format!("embedded#{i}"), b)).collect();
            if seeds::wants_fixture_files(e.name) {
                s.extend(fixtures.iter().cloned());
            }
            if seeds::wants_fixture_objects(e.name) {
                s.extend(objects.iter().cloned());
            }
            all.push(s);
            bk.push(mutate::byte_kinds(e.traits));
            sk.push(mutate::struct_kinds(e.traits));
        }
        Corpus { seeds: all, byte_kinds: bk, struct_kinds: sk }
    })
}

// ---------------------------------------------------------------------------------------------
// deliveries

struct Delivery {
    entry: usize,
    seed: usize,
    kinds: Vec<&'static str>,
    bytes: Vec<u8>,
}

const MUTATION_COUNTS: [usize; 8] = [0, 1, 1, 1, 2, 2, 3, 4];

fn gen_delivery(t: &mut Tape, c: &Corpus) -> Delivery {
    // the 66 endpoint conversions are many entry points over a few parsers: together they get a
    // third of the deliveries, the other entry points share the rest
    let entry = {
        let http: Vec<usize> = (0..ENTRIES.len()).filter(|&i| ENTRIES[i].name.starts_with("http.")).collect();
        let rest: Vec<usize> = (0..ENTRIES.len()).filter(|&i| !ENTRIES[i].name.starts_with("http.")).collect();
        if !http.is_empty() && (rest.is_empty() || t.below(3) == 0) {
            http[t.index(http.len())]
        } else {
            rest[t.index(rest.len())]
        }
    };
    let traits = ENTRIES[entry].traits;
    let seeds = &c.seeds[entry];
    let seed = t.index(seeds.len());
    let n = MUTATION_COUNTS[t.index(MUTATION_COUNTS.len())];
    let mut chosen: Vec<&'static str> = Vec::with_capacity(n);
    for _ in 0..n {
        let structural = !c.struct_kinds[entry].is_empty() && t.below(3) > 0;
        let list = if structural { &c.struct_kinds[entry] } else { &c.byte_kinds[entry] };
        chosen.push(list[t.index(list.len())]);
    }
    // structure-level mutations work on the parsed form, so they go first (stable order otherwise)
    chosen.sort_by_key(|k| !mutate::is_structural(k));
    let mut bytes = seeds[seed].1.clone();
    let mut kinds = Vec::new();
    for k in chosen {
        // a kind that does not apply to the current bytes (no such structure left) is replaced by
        // another structural kind, twice at most
        let mut k = k;
        for attempt in 0..3 {
            let other: &[u8] = if k == "splice" { &seeds[t.index(seeds.len())].1 } else { &[] };
            if mutate::apply(k, traits, &mut bytes, other, t) {
                kinds.push(k);
                break;
            }
            if attempt == 2 || c.struct_kinds[entry].is_empty() {
                break;
            }
            k = c.struct_kinds[entry][t.index(c.struct_kinds[entry].len())];
        }
    }
    if bytes.len() > mutate::MAX_INPUT {
        bytes.truncate(mutate::MAX_INPUT);
        kinds.push("cap_truncate");
    }
    // glob matching costs pattern x value steps: both at tens of kilobytes take tens of seconds of
    // legitimate work, which a watchdog cannot tell from a hang; bound the product instead
    if traits & mutate::T_GLOB != 0 {
        if let Some(nl) = bytes.iter().position(|&c| c == b'\n') {
            let (plen, vlen) = (nl.max(1), bytes.len() - nl - 1);
            const WORK: usize = 20_000_000;
            if plen * vlen > WORK {
                let keep = WORK / plen;
                let mut cut = nl + 1 + keep;
                while cut < bytes.len() && (bytes[cut] & 0xC0) == 0x80 {
                    cut += 1;
                }
                bytes.truncate(cut);
                kinds.push("cap_glob_work");
            }
        }
    }
    Delivery { entry, seed, kinds, bytes }
}

fn lossy(b: &[u8], max_chars: usize) -> String {
    let s = String::from_utf8_lossy(b);
    if s.chars().count() > max_chars {
        let mut t: String = s.chars().take(max_chars).collect();
        t.push_str("…(truncated)");
        t
    } else {
        s.to_string()
    }
}

fn hex(b: &[u8]) -> String {
    b.iter().map(|x| format!("{x:02x}")).collect()
}

fn detail(c: &Corpus, d: &Delivery, index: u64, what: &str, message: &str, extra: Value) -> Value {
    let (seed_name, seed_bytes) = &c.seeds[d.entry][d.seed];
    let mut v = json!({
        "oracle": "crash",
        "kind": what,
        "entry_point": ENTRIES[d.entry].name,
        "delivery_index": index,
        "mutations": d.kinds,
        "input": lossy(&d.bytes, 2000),
        "input_len": d.bytes.len(),
        "message": message,
        "seed": seed_name,
        "seed_input": lossy(seed_bytes, 2000),
    });
    if d.bytes.len() < 512 {
        v["input_hex"] = json!(hex(&d.bytes));
    }
    if let (Value::Object(m), Value::Object(x)) = (&mut v, extra) {
        for (k, val) in x {
            m.insert(k, val);
        }
    }
    v
}

struct TraceBuf {
    on: bool,
    head: Vec<String>,
    tail: VecDeque<String>,
    total: usize,
}
impl TraceBuf {
    fn push(&mut self, l: String) {
        if !self.on {
            return;
        }
        self.total += 1;
        if self.head.len() < 40 {
            self.head.push(l);
        } else {
            if self.tail.len() == 20 {
                self.tail.pop_front();
            }
            self.tail.push_back(l);
        }
    }
    fn finish(self) -> Vec<String> {
        let mut v = self.head;
        let omitted = self.total.saturating_sub(v.len() + self.tail.len());
        if omitted > 0 {
            v.push(format!("... ({omitted} deliveries omitted)"));
        }
        v.extend(self.tail);
        v
    }
}

fn len_class(n: usize) -> u64 {
    (usize::BITS - n.leading_zeros()) as u64
}

struct CrashEngine;

enum Verdict {
    Fine,
    /// (signature kind, message, extra detail, worker must be replaced)
    Bad(&'static str, String, Value, bool),
}

impl Engine for CrashEngine {
    fn name(&self) -> &'static str {
        "crashsim"
    }

    fn hash_order_sensitive(&self) -> bool {
        false
    }

    fn spec(&self, property: &str, tier: Tier) -> Option<CheckSpec> {
        if property != PROP {
            return None;
        }
        let mut probes = Vec::new();
        for e in ENTRIES {
            probes.push(format!("entry.{}.ok", e.name));
            probes.push(format!("entry.{}.err", e.name));
        }
        Some(CheckSpec {
            property: PROP.into(),
            profile: "C17".into(),
            runs: if tier == Tier::Quick { QUICK_RUNS } else { THOROUGH_RUNS },
            wall_cap: Duration::from_secs(if tier == Tier::Quick { 90 } else { 1200 }),
            rule: "one run = one supervisor session with one long-lived worker process: a tape-chosen number of deliveries (quick 200-600, thorough 500-2000; \
                   1 run in 16 is a short session of 1-64) of (entry point, bytes), bytes = a valid seed with 0-4 tape-chosen mutations. A run ends at the first \
                   panic / worker death / confirmed hang / canary drift that is not a recorded known finding. Non-trivial run: at least one delivery got past \
                   the entry point's first validation step (outcome ok, or an error other than the `outer-*` classes from a mutated input). Distinct = distinct \
                   hash over (entry point, outcome class, length class, mutation kinds) of all deliveries of the run."
                .into(),
            real_components: ENTRY_DOC.iter().map(|s| s.to_string()).collect(),
            stub_components: vec![
                "supervisor (delivery generation from the tape, violation bookkeeping)".into(),
                "pipes and frame protocol between supervisor and worker process".into(),
                "watchdog (60 s per reply; hang candidates re-run twice alone)".into(),
                "mutators (byte-level, JSON-structure, delimiter, HTML nesting, push-rule anchors)".into(),
                "HTTP router in front of try_from_http_request (path-template matcher, percent-decoding)".into(),
                "state snapshots / auth chains handed to ruma-state-res (event ids given explicitly)".into(),
                "canary battery (one well-formed input per entry point)".into(),
            ],
            assumptions: vec![
                "worker thread stack = 8 MiB (platform default of a main thread)".into(),
                "nesting bounds: 1000 for HTML, 128 for JSON (serde_json's own limit); deeper JSON is generated but must be rejected, not crash".into(),
                "inputs <= 70 000 bytes".into(),
                "hang = no reply within 60 s wall clock, confirmed twice alone in a fresh worker; glob inputs are capped at 2e7 pattern x value steps (legitimate matching work beyond that takes tens of seconds)".into(),
                "state-res inputs: the auth_events/prev_events graph among delivered events is a DAG (event ids are hashes from room v3 on); cyclic inputs are rejected by the harness; at most 64 events".into(),
                "features: ruma-signatures/ring-compat, ruma-events/html + unstable-pdu, ruma-html/matrix enabled; no other unstable feature".into(),
                "simfed-generated seeds are not used; seeds = embedded corpus + JSON fixtures under /repo/crates/*/tests".into(),
            ],
            probes,
            fault_prefix: "fault.".into(),
        })
    }

    fn run(&self, _profile: &str, tier: Tier, t: &mut Tape, trace: bool, known: &Known) -> RunOutcome {
        let mut out = RunOutcome::default();
        let c = corpus();
        if let Some(i) = c.seeds.iter().position(|s| s.is_empty()) {
            out.harness_error = Some(format!("entry point {} has no seeds", ENTRIES[i].name));
            return out;
        }
        let (lo, hi) = if tier == Tier::Quick { (200, 600) } else { (500, 2000) };
        let n = if t.below(16) == 0 { 1 + t.below(64) } else { t.range(lo, hi) } as u64;
        let mut w = match Worker::spawn() {
            Ok(w) => w,
            Err(e) => {
                out.harness_error = Some(e);
                return out;
            }
        };
        if w.canaries_not_ok > 0 {
            // A well-formed canary input was refused at worker start-up, after other well-formed
            // inputs had been processed. Alone in a bare process it tells the two causes apart: still
            // refused = a bad seed (harness error); accepted = earlier calls changed its outcome.
            let names = w.canaries_not_ok_names.clone();
            w.kill();
            for name in &names {
                let Some(entry) = entries::entry_index(name) else { continue };
                let input = seeds::embedded(name).into_iter().next().unwrap_or_default();
                match isolated_bare(entry as u32, &input) {
                    Ok(Reply::Outcome { class, .. }) if class == "ok" => {
                        let signature = format!("crash/history-dependence.{name}");
                        if known.is_known(PROP, &signature).is_some() {
                            out.known_hits.push(format!("{PROP}:{signature}"));
                            continue;
                        }
                        let dd = Delivery { entry, seed: 0, kinds: vec![], bytes: input.clone() };
                        out.violation = Some(Violation {
                            property: PROP.into(),
                            signature,
                            detail: detail(c, &dd, 0, "history-dependence", "a well-formed input is accepted as the first call of a process but refused after the other entry points' well-formed canary inputs were processed", json!({"refused_at_worker_start": true})),
                        });
                        return out;
                    }
                    _ => {}
                }
            }
            out.harness_error = Some(format!("{} canary inputs are not accepted by their entry point (run `crashsim selftest`): {names:?}", names.len()));
            return out;
        }
        if w.canaries_unstable > 0 {
            out.add("canary.unstable", w.canaries_unstable as u64);
        }
        let mut tb = TraceBuf { on: trace, head: Vec::new(), tail: VecDeque::new(), total: 0 };
        tb.push(format!("session: {n} deliveries, {} entry points", ENTRIES.len()));
        let mut fp: u64 = 0xcbf29ce484222325;
        let mut nontrivial = 0u64;

        let mut seen: Vec<(usize, Vec<u8>, String, String, u64)> = Vec::new();
        for idx in 0..n {
            let d = gen_delivery(t, c);
            let name = ENTRIES[d.entry].name;
            out.steps += 1;
            out.bump("deliveries");
            if d.kinds.is_empty() {
                out.bump("pristine");
            }
            for k in &d.kinds {
                out.bump(&format!("fault.{k}"));
            }
            // the delivery is on record (in `d`) before it is sent: if the worker dies, it is the culprit
            let reply = w.deliver(d.entry as u32, &d.bytes, WATCHDOG);
            let outcome_class: String;
            let verdict = match reply {
                Reply::Outcome { class, canary, digest } => {
                    outcome_class = class.clone();
                    // only outcomes that were obtained twice under different hash keys (long-lived
                    // thread and a brand-new one) are candidates for the fresh-process comparison
                    let echoed = digest.ends_with("+e");
                    let digest = digest.trim_end_matches("+e").to_string();
                    if canary == "thread_echo_unstable" {
                        out.bump("echo.outcome-depends-on-hash-keys");
                    }
                    if !class.starts_with("panic:") && echoed {
                        seen.push((d.entry, d.bytes.clone(), class.clone(), digest.clone(), idx));
                    }
                    if canary != "canary_skip" {
                        out.bump("canary.batteries");
                    }
                    if let Some(msg) = class.strip_prefix("panic:") {
                        out.bump(&format!("entry.{name}.panic"));
                        Verdict::Bad("panic", msg.to_string(), json!({"canary": canary}), false)
                    } else if let Some(d2) = canary.strip_prefix("thread_echo_diff:") {
                        Verdict::Bad(
                            "thread-history-dependence",
                            "the same input, repeated at once on a brand-new thread of the same process, gives a different outcome than on the long-lived thread".into(),
                            json!({"long_lived_thread": {"outcome": class, "digest": digest}, "new_thread_digest": d2}),
                            true,
                        )
                    } else if let Some(names) = canary.strip_prefix("canary_drift:") {
                        Verdict::Bad("canary-drift", format!("canary outputs changed after this delivery: {names}"), json!({"drifted": names, "outcome": class}), true)
                    } else {
                        if class == "ok" {
                            out.bump(&format!("entry.{name}.ok"));
                            nontrivial += 1;
                        } else {
                            out.bump(&format!("entry.{name}.err"));
                            let cls = class.strip_prefix("err:").unwrap_or(&class);
                            if cls.starts_with("outer-") {
                                out.bump("outer-rejected");
                            } else if !d.kinds.is_empty() {
                                nontrivial += 1;
                            }
                        }
                        Verdict::Fine
                    }
                }
                Reply::Died { signal, code } => {
                    outcome_class = "died".into();
                    out.bump(&format!("entry.{name}.abort"));
                    Verdict::Bad("abort", format!("worker process died: signal={signal:?} exit_code={code:?}"), json!({"signal": signal, "exit_code": code}), true)
                }
                Reply::Timeout => {
                    outcome_class = "timeout".into();
                    w.kill();
                    // a hang candidate is re-run twice alone before being reported
                    let mut confirmed = 0;
                    let mut other: Option<Reply> = None;
                    // while the minimiser tries candidates one timeout is taken at its word (the
                    // minimised tape is verified afterwards in a fresh process, with confirmation)
                    if std::env::var_os("VERIF_MINIMISING").is_some() {
                        confirmed = 2;
                    }
                    for _ in 0..(2 - confirmed) {
                        match isolated(d.entry as u32, &d.bytes) {
                            Ok(Reply::Timeout) => confirmed += 1,
                            Ok(r) => {
                                other = Some(r);
                                break;
                            }
                            Err(e) => {
                                out.harness_error = Some(e);
                                return out;
                            }
                        }
                    }
                    if confirmed == 2 {
                        Verdict::Bad("hang", "no reply within 60 s, three times (once in the session, twice alone in a fresh worker)".into(), json!({"watchdog_s": 60}), true)
                    } else {
                        out.bump("hang.unconfirmed");
                        match other {
                            Some(Reply::Died { signal, code }) => {
                                Verdict::Bad("abort", format!("worker process died when the delivery was re-run alone: signal={signal:?} exit_code={code:?}"), json!({"signal": signal, "exit_code": code}), true)
                            }
                            Some(Reply::Outcome { class, .. }) if class.starts_with("panic:") => Verdict::Bad("panic", class[6..].to_string(), json!({}), true),
                            _ => {
                                // slow once, fine alone: not a finding; carry on with a fresh worker
                                match Worker::spawn() {
                                    Ok(nw) => w = nw,
                                    Err(e) => {
                                        out.harness_error = Some(e);
                                        return out;
                                    }
                                }
                                Verdict::Fine
                            }
                        }
                    }
                }
                Reply::Protocol(e) => {
                    out.harness_error = Some(e);
                    return out;
                }
            };
            let oc_for_fp = if outcome_class.starts_with("panic:") { "panic" } else { outcome_class.as_str() };
            fp = simcore::fnv_mix(fp, simcore::fnv(name.as_bytes()));
            fp = simcore::fnv_mix(fp, simcore::fnv(oc_for_fp.as_bytes()));
            fp = simcore::fnv_mix(fp, len_class(d.bytes.len()));
            for k in &d.kinds {
                fp = simcore::fnv_mix(fp, simcore::fnv(k.as_bytes()));
            }
            let shown_outcome: String = outcome_class.chars().take(120).collect();
            match verdict {
                Verdict::Fine => {
                    tb.push(format!("#{idx} {name} seed={} muts={:?} len={} => {shown_outcome}", d.seed, d.kinds, d.bytes.len()));
                }
                Verdict::Bad(kind, message, extra, replace) => {
                    let signature = format!("crash/{kind}.{name}");
                    tb.push(format!("#{idx} {name} seed={} muts={:?} len={} => {shown_outcome} ** {signature}", d.seed, d.kinds, d.bytes.len()));
                    if known.is_known(PROP, &signature).is_some() {
                        out.known_hits.push(format!("{PROP}:{signature}"));
                        out.bump("known.stepped-over");
                        if replace {
                            w.kill();
                            out.bump("worker.restarts");
                            match Worker::spawn() {
                                Ok(nw) => w = nw,
                                Err(e) => {
                                    out.harness_error = Some(e);
                                    return out;
                                }
                            }
                        }
                        continue;
                    }
                    // is it the input alone, or the worker's history? (hangs were already re-run alone)
                    w.kill();
                    let iso = if kind == "hang" {
                        json!("timeout x2")
                    } else {
                        match isolated(d.entry as u32, &d.bytes) {
                            Ok(Reply::Outcome { class, canary, .. }) => json!({"outcome": class, "canary": canary}),
                            Ok(Reply::Died { signal, code }) => json!({"died": {"signal": signal, "exit_code": code}}),
                            Ok(Reply::Timeout) => json!("timeout"),
                            Ok(Reply::Protocol(e)) => json!({"protocol": e}),
                            Err(e) => {
                                out.harness_error = Some(e);
                                return out;
                            }
                        }
                    };
                    let reproduced = match kind {
                        "panic" => iso.get("outcome").and_then(|o| o.as_str()).is_some_and(|o| o.starts_with("panic:")),
                        "abort" => iso.get("died").is_some(),
                        "hang" => true,
                        _ => false, // drift needs history by definition
                    };
                    let mut extra = extra;
                    extra["alone_in_fresh_worker"] = iso;
                    extra["reproduced_alone"] = json!(reproduced);
                    out.violation = Some(Violation { property: PROP.into(), signature, detail: detail(c, &d, idx, kind, &message, extra) });
                    break;
                }
            }
        }
        w.kill();
        // history independence: a few deliveries of this session are repeated alone in a fresh
        // process; the complete outcome (not only its class) must be the same as it was after
        // everything the long-lived worker had processed before
        if out.violation.is_none() && !seen.is_empty() {
            let picks = 6 + t.below(5) as usize;
            for _ in 0..picks {
                let (entry, bytes, class, digest, at) = seen[t.index(seen.len())].clone();
                let name = ENTRIES[entry].name;
                out.bump("replay.fresh-process");
                match isolated_bare(entry as u32, &bytes) {
                    Ok(Reply::Outcome { class: c2, digest: d2, .. }) => {
                        let d2 = d2.trim_end_matches("+e").to_string();
                        if c2 != class || d2 != digest {
                            // an outcome that depends on the hash keys (random per process) is not
                            // history dependence: six more fresh processes must all say the same
                            let mut stable = true;
                            for _ in 0..6 {
                                match isolated_bare(entry as u32, &bytes) {
                                    Ok(Reply::Outcome { class: c3, digest: d3, .. }) => {
                                        if c3 != c2 || d3.trim_end_matches("+e") != d2 {
                                            stable = false;
                                            break;
                                        }
                                    }
                                    _ => {
                                        stable = false;
                                        break;
                                    }
                                }
                            }
                            if !stable {
                                out.bump("replay.outcome-depends-on-hash-keys");
                                continue;
                            }
                            let signature = format!("crash/history-dependence.{name}");
                            if known.is_known(PROP, &signature).is_some() {
                                out.known_hits.push(format!("{PROP}:{signature}"));
                                continue;
                            }
                            let dd = Delivery { entry, seed: 0, kinds: vec![], bytes: bytes.clone() };
                            out.violation = Some(Violation {
                                property: PROP.into(),
                                signature,
                                detail: detail(c, &dd, at, "history-dependence", "the same input gives a different outcome in a fresh process than it gave in the long-lived worker", json!({"in_session": {"outcome": class, "digest": digest}, "fresh_process": {"outcome": c2, "digest": d2}})),
                            });
                            break;
                        }
                    }
                    Ok(_) => {}
                    Err(e) => {
                        out.harness_error = Some(e);
                        return out;
                    }
                }
            }
        }
        out.add("nontrivial", nontrivial);
        out.nontrivial = nontrivial > 0;
        out.fingerprint = fp;
        out.trace = tb.finish();
        out
    }
}

const QUICK_RUNS: u64 = 800;
const THOROUGH_RUNS: u64 = 6000;

const ENTRY_DOC: &[&str] = &[
    "ruma_common identifiers: UserId/RoomId/RoomAliasId/RoomOrAliasId/EventId/ServerName/KeyId (DeviceKeyId, SigningKeyId<AnyKeyName>, ServerSigningKeyId, CrossSigningKeyId, CrossSigningOrDeviceSigningKeyId, OneTimeKeyId)/ClientSecret/SessionId ::parse, parse_box, parse_arc, <&T>::try_from, accessors, serde round trip; UserId::parse_with_server_name; OwnedMxcUri validate/parts/media_id/server_name/is_valid; RoomVersionId::try_from + rules; DeviceId/TransactionId/VoipId/VoipVersionId",
    "ruma_common::{MatrixUri, MatrixToUri}::parse, id, via, action, Display",
    "ruma_federation_api::authentication::XMatrix (TryFrom<&HeaderValue>, parse, FromStr, Display, HeaderValue::from)",
    "ruma_common::http_headers::ContentDisposition (TryFrom<&[u8]>, FromStr, Display; RFC 8187)",
    "ruma_common::serde::Base64::<Standard|UrlSafe>::parse, serde",
    "ruma_common::serde::Raw<T>: serde_json::from_slice, get_field, deserialize for AnyTimelineEvent, AnySyncTimelineEvent, AnyStateEvent, AnySyncStateEvent, AnyStrippedStateEvent, AnyToDeviceEvent, AnyGlobalAccountDataEvent, AnyRoomAccountDataEvent, AnyEphemeralRoomEvent, PresenceEvent; ruma_events::pdu::Pdu; RawExt::deserialize_with_type for AnyMessageLikeEventContent / AnyStateEventContent; RoomMessageEventContent::sanitize",
    "ruma_common::push: Ruleset deserialisation, get_actions, get_match, FlattenedJson::from_raw, Ruleset::{insert, remove, set_enabled, set_actions, get}, PushCondition::applies (event_match globs), PatternedPushRule::applies_to",
    "ruma_signatures::{canonical_json, content_hash, reference_hash, verify_json, verify_event, sign_json, hash_and_sign_event, Ed25519KeyPair::from_der}; ruma_common::canonical_json::{redact, redact_in_place, redact_content_in_place}; CanonicalJsonValue serde",
    "ruma_html::{Html::parse, sanitize, sanitize_with (strict, compat, remove_reply_fallback), Display, remove_html_reply_fallback, sanitize_html, ElementData::to_matrix}; ruma_events::room::message::sanitize::remove_plain_reply_fallback",
    "IncomingRequest::try_from_http_request: client send_message_event, sync_events, set_pushrule, join_room_by_id, send_state_event, create_filter, create_content; federation send_transaction_message, create_join_event v2, get_missing_events; appservice push_events; identity lookup_3pid, store_invitation; push gateway send_event_notification",
    "IncomingResponse::try_from_http_response: sync_events v3, get_server_keys v2, authenticated_media get_content v1",
    "ruma_state_res::{auth_types_for_event, auth_check, resolve}",
];

fn dev_gen() {
    use ruma_common::serde::Base64;
    use ruma_common::CanonicalJsonObject;
    let doc: Base64 = Base64::parse(entries::PKCS8_B64).unwrap();
    let kp = ruma_signatures::Ed25519KeyPair::from_der(doc.as_bytes(), "1".into()).unwrap();
    println!("// SIGNED_JSON");
    for s in [
        r#"{}"#,
        r#"{"one":1,"two":"Two","nested":{"a":[1,2,{"b":null}],"ü":"ü"},"unsigned":{"age":5}}"#,
        r#"{"server_name":"domain","valid_until_ts":1652262000000,"verify_keys":{"ed25519:1":{"key":"3TPraTczVkDPTRaX4K+AfUuyx7Mzq1UafTXypnl0t2k"}},"old_verify_keys":{}}"#,
        r#"{"mxid":"@bob:example.org","sender":"@alice:example.org","token":"tok123"}"#,
    ] {
        let mut o: CanonicalJsonObject = serde_json::from_str(s).unwrap();
        ruma_signatures::sign_json(entries::ENTITY, &kp, &mut o).unwrap();
        println!("    r###\"{}\"###,", serde_json::to_string(&o).unwrap());
    }
    println!("// SIGNED_EVENTS");
    let all: Vec<&str> = seeds_events::STATE_EVENTS.iter().take(12).chain(seeds_events::MESSAGE_EVENTS.iter().take(4)).chain(seeds_events::MESSAGE_EVENTS.iter().skip(14).take(1)).copied().collect();
    for (i, s) in all.iter().enumerate() {
        let mut o: CanonicalJsonObject = serde_json::from_str(s).unwrap();
        o.insert("depth".into(), serde_json::from_str("5").unwrap());
        o.insert("prev_events".into(), serde_json::from_str(r#"["$Rqnc-F-dvnEYJTyHq_iKxU2bZ1CI92-kuZq3a5lr5Zg"]"#).unwrap());
        o.insert("auth_events".into(), serde_json::from_str(r#"["$acR1l0raoZnm60CBwAVgqbZqoO/mYU81xysh1u7XcJk"]"#).unwrap());
        // the entry points pick the room version from the input length; signature and hash have a
        // fixed length, so sign once to learn the final length, then sign for that version
        let _ = i;
        let mut probe = o.clone();
        ruma_signatures::hash_and_sign_event(entries::EVENT_ENTITY, &kp, &mut probe, &entries::rules_n(0).redaction).unwrap();
        let len = serde_json::to_string(&probe).unwrap().len();
        let rules = entries::rules_n(len);
        ruma_signatures::hash_and_sign_event(entries::EVENT_ENTITY, &kp, &mut o, &rules.redaction).unwrap();
        assert_eq!(serde_json::to_string(&o).unwrap().len(), len);
        println!("    r###\"{}\"###,", serde_json::to_string(&o).unwrap());
    }
    println!("// RULESETS");
    let u: &ruma_common::UserId = "@bob:example.org".try_into().unwrap();
    println!("    r###\"{}\"###,", serde_json::to_string(&ruma_common::push::Ruleset::server_default(u)).unwrap());
}

fn main() {
    let arg1 = std::env::args().nth(1);
    match arg1.as_deref() {
        Some("worker") => {
            worker_main();
            return;
        }
        Some("selftest") => std::process::exit(worker::selftest(std::env::args().nth(2).as_deref())),
        Some("dev-gen") => {
            dev_gen();
            return;
        }
        Some("one") => {
            // crashsim one <entry point> <file>: run one input in this process (debugging aid)
            let name = std::env::args().nth(2).unwrap_or_default();
            let file = std::env::args().nth(3).unwrap_or_default();
            let Some(i) = entries::entry_index(&name) else {
                eprintln!("unknown entry point {name}");
                std::process::exit(2);
            };
            let bytes = std::fs::read(&file).unwrap_or_default();
            simcore::install_quiet_panic_hook();
            let h = std::thread::Builder::new().stack_size(worker::STACK_BYTES).spawn(move || println!("{}", worker::call(&ENTRIES[i], &bytes))).unwrap();
            let _ = h.join();
            return;
        }
        _ => {}
    }
    std::process::exit(simcore::driver_main(&CrashEngine));
}

#[cfg(test)]
mod reach_tests {
    use super::*;
    /// Reach: deliveries to the versions entry whose list holds a string with nothing (or a
    /// multi-byte character) before its first dot.
    #[test]
    fn versions_entry_sees_dot_first_strings() {
        let c = corpus();
        let want = ENTRIES.iter().position(|e| e.name == "http.r.get_supported_versions").unwrap();
        let (mut n, mut hits, mut edits) = (0, 0, 0);
        let mut i = 0u64;
        while n < 3000 {
            i += 1;
            let mut t = Tape::generate(simcore::tape::run_seed(11, i));
            let d = gen_delivery(&mut t, c);
            if d.entry != want {
                continue;
            }
            n += 1;
            if d.kinds.contains(&"json_string_edit") {
                edits += 1;
            }
            let text = String::from_utf8_lossy(&d.bytes).to_string();
            if text.contains("\".") {
                hits += 1;
            }
        }
        assert!(edits > 100, "edits {edits}");
        assert!(hits > 5, "hits {hits} edits {edits}");
    }
}
