fn main() {}
