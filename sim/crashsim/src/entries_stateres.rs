//! 9. State resolution and event authorization over damaged PDUs.
//!
//! Input: a JSON array of PDUs in the room-v3+ shape with the event ID given explicitly in an extra
//! `event_id` member (the format of ruma-state-res' own test fixtures).
//!
//! Stated precondition (an assumption of C17 listed in the check's evidence): the `auth_events` /
//! `prev_events` references among the delivered events form a DAG. Event IDs are hashes of the
//! event from room version 3 on, so a cyclic graph cannot be delivered by a peer; inputs whose
//! explicit IDs form a cycle are rejected by the harness (`outer-cyclic-graph`) before ruma is
//! called.

use std::collections::{BTreeMap, BTreeSet, HashMap, HashSet};
use std::sync::Arc;

use ruma_common::room_version_rules::RoomVersionRules;
use ruma_common::{EventId, MilliSecondsSinceUnixEpoch, OwnedEventId, OwnedRoomId, OwnedUserId, RoomId, RoomVersionId, UserId};
use ruma_events::{StateEventType, TimelineEventType};
use ruma_state_res::{Event, StateMap};
use serde::Deserialize;
use serde_json::value::RawValue as RawJsonValue;

use crate::entries::{json_outer, rules_n, sum, R};

#[derive(Clone, Debug, Deserialize)]
pub struct Pdu {
    event_id: OwnedEventId,
    room_id: OwnedRoomId,
    sender: OwnedUserId,
    #[serde(rename = "type")]
    kind: TimelineEventType,
    content: Box<RawJsonValue>,
    #[serde(default)]
    state_key: Option<String>,
    origin_server_ts: MilliSecondsSinceUnixEpoch,
    #[serde(default)]
    prev_events: Vec<OwnedEventId>,
    #[serde(default)]
    auth_events: Vec<OwnedEventId>,
    #[serde(default)]
    redacts: Option<OwnedEventId>,
}

impl Event for Pdu {
    type Id = OwnedEventId;
    fn event_id(&self) -> &Self::Id {
        &self.event_id
    }
    fn room_id(&self) -> &RoomId {
        &self.room_id
    }
    fn sender(&self) -> &UserId {
        &self.sender
    }
    fn origin_server_ts(&self) -> MilliSecondsSinceUnixEpoch {
        self.origin_server_ts
    }
    fn event_type(&self) -> &TimelineEventType {
        &self.kind
    }
    fn content(&self) -> &RawJsonValue {
        &self.content
    }
    fn state_key(&self) -> Option<&str> {
        self.state_key.as_deref()
    }
    fn prev_events(&self) -> Box<dyn DoubleEndedIterator<Item = &Self::Id> + '_> {
        Box::new(self.prev_events.iter())
    }
    fn auth_events(&self) -> Box<dyn DoubleEndedIterator<Item = &Self::Id> + '_> {
        Box::new(self.auth_events.iter())
    }
    fn redacts(&self) -> Option<&Self::Id> {
        self.redacts.as_ref()
    }
}

fn parse(b: &[u8]) -> Result<Vec<Arc<Pdu>>, String> {
    let v: Vec<Pdu> = serde_json::from_slice(b).map_err(json_outer)?;
    if v.len() > 64 {
        return Err("outer-too-many-events".to_string());
    }
    Ok(v.into_iter().map(Arc::new).collect())
}

/// Rules of the room version the create event declares (if it names one of 1..=11), else a
/// rotation keyed by the input length.
fn rules(events: &[Arc<Pdu>], b: &[u8]) -> RoomVersionRules {
    #[derive(Deserialize)]
    struct Create {
        room_version: Option<String>,
    }
    for e in events {
        if e.kind == TimelineEventType::RoomCreate {
            if let Ok(c) = serde_json::from_str::<Create>(e.content.get()) {
                if let Some(r) = c.room_version.as_deref().and_then(|v| RoomVersionId::try_from(v).ok()).and_then(|v| v.rules()) {
                    return r;
                }
            }
        }
    }
    rules_n(b.len())
}

/// First event wins for a duplicated ID.
fn by_id(events: &[Arc<Pdu>]) -> BTreeMap<OwnedEventId, Arc<Pdu>> {
    let mut m = BTreeMap::new();
    for e in events {
        m.entry(e.event_id.clone()).or_insert_with(|| e.clone());
    }
    m
}

/// Harness precondition: the reference graph is acyclic (iterative three-colour DFS).
fn check_dag(map: &BTreeMap<OwnedEventId, Arc<Pdu>>) -> Result<(), String> {
    let mut colour: BTreeMap<&EventId, u8> = BTreeMap::new();
    for start in map.keys() {
        if colour.get(&**start).copied().unwrap_or(0) != 0 {
            continue;
        }
        let mut stack: Vec<(&EventId, usize)> = vec![(start, 0)];
        colour.insert(start, 1);
        while let Some((id, i)) = stack.pop() {
            let e = &map[id];
            let refs: Vec<&OwnedEventId> = e.auth_events.iter().chain(e.prev_events.iter()).collect();
            if i < refs.len() {
                stack.push((id, i + 1));
                let next: &EventId = refs[i];
                if let Some((k, _)) = map.get_key_value(next) {
                    match colour.get(&**k).copied().unwrap_or(0) {
                        0 => {
                            colour.insert(k, 1);
                            stack.push((k, 0));
                        }
                        1 => return Err("outer-cyclic-graph".to_string()),
                        _ => {}
                    }
                }
            } else {
                colour.insert(id, 2);
            }
        }
    }
    Ok(())
}

fn e_id(e: &Arc<Pdu>) -> &str {
    e.event_id.as_str()
}

pub fn auth_types(b: &[u8]) -> R {
    let events = parse(b)?;
    let rules = rules(&events, b);
    let mut out = Vec::new();
    let mut errs = 0;
    for e in &events {
        match ruma_state_res::auth_types_for_event(&e.kind, &e.sender, e.state_key.as_deref(), &e.content, &rules.authorization) {
            Ok(t) => out.push(format!("{t:?}")),
            Err(_) => errs += 1,
        }
    }
    if out.is_empty() && errs > 0 {
        return Err("auth-types-rejected".to_string());
    }
    Ok(sum(&format!("{errs} {out:?}")))
}

pub fn auth_check_all(b: &[u8]) -> R {
    let events = parse(b)?;
    let map = by_id(&events);
    check_dag(&map)?;
    let rules = rules(&events, b);
    let mut verdicts = Vec::new();
    for (i, e) in events.iter().enumerate() {
        let e0 = e;
        // state = the other events, by (type, state_key); the first one wins
        let mut state: BTreeMap<(String, String), Arc<Pdu>> = BTreeMap::new();
        for (j, o) in events.iter().enumerate() {
            if i == j {
                continue;
            }
            if let Some(sk) = &o.state_key {
                state.entry((o.kind.to_string(), sk.clone())).or_insert_with(|| o.clone());
            }
        }
        let r = ruma_state_res::auth_check(&rules.authorization, &**e, |ty: &StateEventType, sk: &str| state.get(&(ty.to_string(), sk.to_string())).cloned());
        if let (Err(e), true) = (&r, std::env::var_os("CRASHSIM_DEBUG").is_some()) {
            eprintln!("debug: auth_check {}: {e}", e_id(e0));
        }
        verdicts.push(r.is_ok());
    }
    if !verdicts.is_empty() && verdicts.iter().all(|v| !v) {
        return Err("auth-check-rejected-all".to_string());
    }
    Ok(format!("{verdicts:?}"))
}

pub fn resolve_sets(b: &[u8]) -> R {
    let events = parse(b)?;
    let map = by_id(&events);
    check_dag(&map)?;
    let rules = rules(&events, b);
    // two forks: state sets made from the even and the odd events (create event in both)
    let mut sets: [StateMap<OwnedEventId>; 2] = [HashMap::new(), HashMap::new()];
    for (i, e) in events.iter().enumerate() {
        let Some(sk) = &e.state_key else { continue };
        let key = (StateEventType::from(e.kind.to_string()), sk.clone());
        if e.kind == TimelineEventType::RoomCreate {
            sets[0].insert(key.clone(), e.event_id.clone());
            sets[1].insert(key, e.event_id.clone());
        } else {
            sets[i % 2].insert(key, e.event_id.clone());
        }
    }
    // full auth chain of each set (transitive closure over auth_events among the known events)
    let mut chains: Vec<HashSet<OwnedEventId>> = Vec::new();
    for s in &sets {
        let mut seen: BTreeSet<OwnedEventId> = BTreeSet::new();
        let mut todo: Vec<OwnedEventId> = s.values().cloned().collect();
        while let Some(id) = todo.pop() {
            if let Some(e) = map.get(&id) {
                for a in &e.auth_events {
                    if seen.insert(a.clone()) {
                        todo.push(a.clone());
                    }
                }
            }
        }
        chains.push(seen.into_iter().collect());
    }
    let res = ruma_state_res::resolve(&rules.authorization, &sets, chains, |id: &EventId| map.get(id).cloned())
        .map_err(|e| format!("resolve-{}", crate::entries::variant(&e)))?;
    let sorted: BTreeMap<(String, String), String> = res.into_iter().map(|((t, k), v)| ((t.to_string(), k), v.to_string())).collect();
    Ok(sum(&format!("{sorted:?}")))
}
