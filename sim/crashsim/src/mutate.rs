//! Tape-driven mutators (DESIGN §6 "Faults"): what real links and peers do to bytes and structure.
//! Pure functions of (input bytes, tape); run in the supervisor only. No ruma code is called here.

use serde_json::Value;
use simcore::Tape;

/// Inputs are capped at this size (stated bound of C17).
pub const MAX_INPUT: usize = 70_000;

// entry-point traits deciding which mutators apply
pub const T_JSON: u32 = 1; // whole input is JSON
pub const T_DELIM: u32 = 2; // identifier / URI / header syntax with delimiters
pub const T_HTML: u32 = 4;
pub const T_HTTP: u32 = 8; // request/response text: head lines, blank line, (JSON) body
pub const T_BYTES: u32 = 16; // the API under test takes bytes: invalid UTF-8 is a legitimate input
pub const T_MXC: u32 = 32;
pub const T_ANCHOR: u32 = 64; // push-rule edit script
pub const T_GLOB: u32 = 128; // `pattern \n value` for glob / word matching

pub const BYTE_KINDS: [&str; 7] = ["bitflip", "delete", "insert", "truncate", "dup_span", "splice", "truncate_at_delim"];
const JSON_KINDS: [&str; 8] = ["json_delete_member", "json_dup_member", "json_type_swap", "json_long_string", "json_nest", "json_string_edit", "json_string_copy", "json_glob_blowup"];
/// Short strings that sit on the edges of the little grammars inside JSON string values.
const STRING_TOKENS: [&str; 28] = [
    "", "=", "==", "<", ">", "<=", ">=", "=\u{e9}", ".", "..", ".1", "v", "v1", "v1.", "1.", ":", "@", "@:", "$", "#", "!", "*", "?", "\\", "%", "%e", "matrix:", "mxc://",
];
const DELIM_KINDS: [&str; 4] = ["delim_double", "delim_empty", "seg_long", "value_token"];
/// What is left of a parameter value after a sloppy client or a hostile peer had its way.
const VALUE_TOKENS: [&str; 16] = ["", "+", "%20", "%", "%zz", "%00", "{", "[", "\"", "0", "-1", "99999999999999999999", "a=b", "&", "%2F", "\u{e9}"];
const ANCHOR_KINDS: [&str; 3] = ["anchor_self", "anchor_last", "anchor_empty"];

const NEST_DEPTHS: [usize; 7] = [32, 100, 127, 128, 129, 512, 1000];
const BOUNDARY_LENGTHS: [usize; 8] = [254, 255, 256, 257, 511, 512, 65535, 65536];
const SEG_LENGTHS: [usize; 6] = [254, 255, 256, 257, 511, 512];
const DELIMS: &[u8] = b"/:?#%[]@!$.";
const HTML_ELEMENTS: [&str; 12] = ["div", "span", "blockquote", "mx-reply", "ul", "li", "b", "font", "a", "table", "details", "p"];
/// Values a JSON value is replaced by when its type is swapped (all are valid JSON texts).
const SWAP_VALUES: [&str; 18] = [
    "null", "true", "0", "-1", "1.5", "\"\"", "[]", "{}", "\"x\"", "9007199254740992", "-9007199254740993", "18446744073709551616",
    "1e999", "[null]", "9007199254740991", "253402300800000", "-9007199254740991", "4294967296",
];

/// Byte-level mutation kinds of an entry point.
pub fn byte_kinds(traits: u32) -> Vec<&'static str> {
    let mut v: Vec<&'static str> = BYTE_KINDS.to_vec();
    if traits & T_BYTES != 0 {
        v.push("bad_utf8");
    }
    v
}

/// Structure-level mutation kinds of an entry point.
pub fn struct_kinds(traits: u32) -> Vec<&'static str> {
    let mut v: Vec<&'static str> = Vec::new();
    if traits & (T_JSON | T_HTTP) != 0 {
        v.extend_from_slice(&JSON_KINDS);
    }
    if traits & (T_DELIM | T_HTTP) != 0 {
        v.extend_from_slice(&DELIM_KINDS);
    }
    if traits & T_HTTP != 0 {
        v.push("multipart_part");
    }
    if traits & T_MXC != 0 {
        v.push("mxc_long_host");
    }
    if traits & T_GLOB != 0 {
        v.push("glob_repeat");
    }
    if traits & T_HTML != 0 {
        v.push("html_nest");
        v.push("html_attr_value");
    }
    if traits & T_ANCHOR != 0 {
        v.extend_from_slice(&ANCHOR_KINDS);
    }
    v
}

pub fn is_structural(kind: &str) -> bool {
    !(BYTE_KINDS.contains(&kind) || kind == "bad_utf8")
}

/// Region of an HTTP-shaped input a structural mutator works on.
fn http_body_range(data: &[u8]) -> std::ops::Range<usize> {
    match data.windows(2).position(|w| w == b"\n\n") {
        Some(p) => p + 2..data.len(),
        None => data.len()..data.len(),
    }
}
fn http_uri_range(data: &[u8]) -> std::ops::Range<usize> {
    let l1 = data.iter().position(|&b| b == b'\n').map(|p| p + 1).unwrap_or(data.len());
    let l2 = data[l1..].iter().position(|&b| b == b'\n').map(|p| l1 + p).unwrap_or(data.len());
    l1..l2
}

fn with_region(data: &mut Vec<u8>, r: std::ops::Range<usize>, f: impl FnOnce(&mut Vec<u8>) -> bool) -> bool {
    let mut sub: Vec<u8> = data[r.clone()].to_vec();
    if !f(&mut sub) {
        return false;
    }
    data.splice(r, sub);
    true
}

/// Apply one mutation. Returns false if it was a no-op (kind not applicable to the current bytes).
pub fn apply(kind: &str, traits: u32, data: &mut Vec<u8>, other: &[u8], t: &mut Tape) -> bool {
    let http = traits & T_HTTP != 0;
    match kind {
        "bitflip" => {
            if data.is_empty() {
                return false;
            }
            let n = 1 + t.below(3) as usize;
            for _ in 0..n {
                let i = t.index(data.len());
                data[i] ^= 1 << t.below(8);
            }
            true
        }
        "delete" => {
            if data.is_empty() {
                return false;
            }
            let i = t.index(data.len());
            let n = (1 + t.below(8) as usize).min(data.len() - i);
            data.drain(i..i + n);
            true
        }
        "insert" => {
            let i = t.index(data.len() + 1);
            const INTERESTING: &[u8] = b"\0 \"\\/:{}[],.%#?@!$<>&;=*-+09azAZ\x7f\r\n\t'";
            const UNICODE: [&str; 10] = ["\u{e9}", "\u{20ac}", "\u{1F600}", "\u{85}", "\u{2028}", "\u{301}", "\u{feff}", "\u{130}", "\u{df}", "\u{10ffff}"];
            let n = 1 + t.below(4) as usize;
            let bytes: Vec<u8> = if t.below(4) == 3 {
                UNICODE[t.index(UNICODE.len())].as_bytes().to_vec()
            } else {
                (0..n).map(|_| INTERESTING[t.index(INTERESTING.len())]).collect()
            };
            data.splice(i..i, bytes);
            true
        }
        "truncate" => {
            if data.is_empty() {
                return false;
            }
            let i = t.index(data.len());
            data.truncate(i);
            true
        }
        "truncate_at_delim" => {
            // cut right before or right after an occurrence of a delimiter (line ends, path and
            // grammar punctuation): what a length-limited or line-oriented hop does
            let spots: Vec<usize> = data.iter().enumerate().filter(|(_, b)| b"\n/:>-=.;,&?".contains(b)).map(|(i, _)| i).collect();
            if spots.is_empty() {
                return false;
            }
            // biased towards the last occurrences
            let k = if t.chance(1, 2) { spots.len() - 1 - t.index(spots.len().min(3)) } else { t.index(spots.len()) };
            let at = spots[k] + if t.chance(1, 2) { 1 } else { 0 };
            if at == data.len() {
                return false;
            }
            data.truncate(at);
            true
        }
        "dup_span" => {
            if data.is_empty() {
                return false;
            }
            let i = t.index(data.len());
            let n = (1 + t.below(64) as usize).min(data.len() - i);
            let times = 1 + t.below(4) as usize;
            let span: Vec<u8> = data[i..i + n].to_vec();
            let mut ins = Vec::with_capacity(n * times);
            for _ in 0..times {
                ins.extend_from_slice(&span);
            }
            data.splice(i + n..i + n, ins);
            true
        }
        "splice" => {
            if other.is_empty() {
                return false;
            }
            let i = t.index(data.len() + 1);
            let j = t.index(other.len());
            data.truncate(i);
            data.extend_from_slice(&other[j..]);
            true
        }
        "bad_utf8" => {
            const BAD: [&[u8]; 8] = [b"\xff", b"\xc0\xaf", b"\xed\xa0\x80", b"\xf8\x88\x80\x80\x80", b"\x80", b"\xe2\x82", b"\xf4\x90\x80\x80", b"\xfe\xff"];
            let i = t.index(data.len() + 1);
            let b = BAD[t.index(BAD.len())];
            data.splice(i..i, b.iter().copied());
            true
        }
        "json_delete_member" | "json_dup_member" | "json_type_swap" | "json_long_string" | "json_nest" | "json_string_edit" | "json_string_copy" | "json_glob_blowup" => {
            let r = if http { http_body_range(data) } else { 0..data.len() };
            with_region(data, r, |d| json_mutate(kind, d, t))
        }
        "anchor_self" | "anchor_last" | "anchor_empty" => anchor_mutate(kind, data, t),
        "delim_double" | "delim_empty" | "seg_long" | "value_token" => {
            let r = if http { http_uri_range(data) } else { 0..data.len() };
            with_region(data, r, |d| delim_mutate(kind, d, t))
        }
        "mxc_long_host" => {
            let s = String::from_utf8_lossy(data).to_string();
            let rest = s.strip_prefix("mxc://").unwrap_or(&s);
            let (host, media) = rest.split_once('/').unwrap_or((rest, "x"));
            let alnum: Vec<char> = host.chars().filter(|c| c.is_ascii_alphanumeric()).collect();
            let alnum = if alnum.is_empty() { vec!['a'] } else { alnum };
            let len = 250 + t.below(11) as usize;
            let host: String = (0..len).map(|i| alnum[i % alnum.len()]).collect();
            *data = format!("mxc://{host}/{media}").into_bytes();
            true
        }
        "glob_repeat" => {
            // a long pattern with many wildcards (patterns come from push rules, i.e. from account data)
            let split = data.iter().position(|&c| c == b'\n').unwrap_or(data.len());
            let pat: Vec<u8> = if split == 0 { b"a*".to_vec() } else { data[..split].to_vec() };
            let target = [64usize, 255, 1024, 8192, 30_000, 60_000][t.index(6)];
            let mut long: Vec<u8> = Vec::with_capacity(target + pat.len());
            let unit: Vec<u8> = match t.below(4) {
                0 => b"?".to_vec(),
                1 => b"a*".to_vec(),
                _ => pat.clone(),
            };
            while long.len() < target {
                long.extend_from_slice(&unit);
            }
            let rest = data[split..].to_vec();
            *data = long;
            data.extend_from_slice(&rest);
            true
        }
        "multipart_part" => {
            // damage the part structure of a multipart body: empty a part, double a boundary line,
            // drop the line break after a boundary, or drop the closing boundary
            let Some(bpos) = data.windows(9).position(|w| w.eq_ignore_ascii_case(b"boundary=")) else { return false };
            let rest = &data[bpos + 9..];
            let end = rest.iter().position(|&c| c == b'\n' || c == b';').unwrap_or(rest.len());
            let mut bnd: Vec<u8> = rest[..end].to_vec();
            bnd.retain(|&c| c != b'"' && c != b'\r');
            if bnd.is_empty() {
                return false;
            }
            let mut marker = b"--".to_vec();
            marker.extend_from_slice(&bnd);
            let body_start = data.windows(2).position(|w| w == b"\n\n").map(|p| p + 2).unwrap_or(0);
            let occ: Vec<usize> = (body_start..data.len().saturating_sub(marker.len()) + 1).filter(|&i| data[i..].starts_with(&marker)).collect();
            if occ.is_empty() {
                return false;
            }
            match t.below(4) {
                0 if occ.len() >= 2 => {
                    // empty the part between two consecutive boundaries (keep one line break)
                    let k = t.index(occ.len() - 1);
                    let from = occ[k] + marker.len();
                    let to = occ[k + 1];
                    if from < to {
                        let keep: &[u8] = if t.chance(1, 2) { b"\r\n" } else { b"" };
                        data.splice(from..to, keep.iter().copied());
                    }
                }
                1 => {
                    let k = occ[t.index(occ.len())];
                    let mut line = marker.clone();
                    line.extend_from_slice(b"\r\n");
                    data.splice(k..k, line);
                }
                2 => {
                    let k = occ[t.index(occ.len())] + marker.len();
                    let mut e = k;
                    while e < data.len() && (data[e] == b'\r' || data[e] == b'\n') {
                        e += 1;
                    }
                    data.drain(k..e);
                }
                _ => {
                    let k = *occ.last().unwrap();
                    data.truncate(k);
                }
            }
            true
        }
        "html_attr_value" => {
            // damage the start of an attribute value (where schemes, classes and colours are parsed)
            let starts: Vec<usize> = data.windows(2).enumerate().filter(|(_, w)| w[0] == b'=' && (w[1] == b'"' || w[1] == b'\'')).map(|(i, _)| i + 2).take(128).collect();
            if starts.is_empty() {
                return false;
            }
            let at = (starts[t.index(starts.len())] + t.below(9) as usize).min(data.len());
            const PIECES: [&str; 12] = ["\u{e9}", "\u{20ac}", "\u{65e5}\u{672c}", "\u{1F600}", ":", "//", "%", "#", " ", "\u{301}", "&amp;", "\u{0}"];
            let piece = PIECES[t.index(PIECES.len())].as_bytes().to_vec();
            if t.chance(1, 2) && at < data.len() {
                // replace instead of insert, on a character boundary
                let mut end = at + 1;
                while end < data.len() && (data[end] & 0xC0) == 0x80 {
                    end += 1;
                }
                let mut begin = at;
                while begin > 0 && (data[begin] & 0xC0) == 0x80 {
                    begin -= 1;
                }
                data.splice(begin..end, piece);
            } else {
                let mut begin = at;
                while begin > 0 && begin < data.len() && (data[begin] & 0xC0) == 0x80 {
                    begin -= 1;
                }
                data.splice(begin..begin, piece);
            }
            true
        }
        "html_nest" => {
            let el = HTML_ELEMENTS[t.index(HTML_ELEMENTS.len())];
            let depth = NEST_DEPTHS[t.index(NEST_DEPTHS.len())];
            // positions of tag starts plus the end
            let mut pos: Vec<usize> = data.iter().enumerate().filter(|(_, &b)| b == b'<').map(|(i, _)| i).take(256).collect();
            pos.push(data.len());
            let a = pos[t.index(pos.len())];
            let b = pos[t.index(pos.len())];
            let (a, b) = if a <= b { (a, b) } else { (b, a) };
            let close_too = !t.chance(1, 4); // sometimes leave the elements unclosed
            let open: Vec<u8> = format!("<{el}>").repeat(depth).into_bytes();
            let close: Vec<u8> = if close_too { format!("</{el}>").repeat(depth).into_bytes() } else { Vec::new() };
            data.splice(b..b, close);
            data.splice(a..a, open);
            true
        }
        _ => false,
    }
}

// ---------------------------------------------------------------------------------------------
// JSON structure-level

enum JsonOp {
    DeleteMember(usize),
    DupMember(usize),
    Replace(usize, String),
    Wrap(usize, String, String),
}

struct Counts {
    nodes: usize,
    members: usize,
    strings: Vec<(usize, String)>,
}

fn count(v: &Value, c: &mut Counts) {
    let idx = c.nodes;
    c.nodes += 1;
    match v {
        Value::String(s) => c.strings.push((idx, s.clone())),
        Value::Array(a) => {
            for x in a {
                count(x, c);
            }
        }
        Value::Object(o) => {
            for (_, x) in o {
                c.members += 1;
                count(x, c);
            }
        }
        _ => {}
    }
}

fn emit(v: &Value, op: &JsonOp, node: &mut usize, member: &mut usize, out: &mut String) {
    let idx = *node;
    *node += 1;
    let mut wrap_suffix: Option<&str> = None;
    match op {
        JsonOp::Replace(k, text) if *k == idx => {
            out.push_str(text);
            // skip the subtree but keep the numbering consistent
            skip(v, node, member);
            return;
        }
        JsonOp::Wrap(k, pre, suf) if *k == idx => {
            out.push_str(pre);
            wrap_suffix = Some(suf);
        }
        _ => {}
    }
    match v {
        Value::Null => out.push_str("null"),
        Value::Bool(b) => out.push_str(if *b { "true" } else { "false" }),
        Value::Number(n) => out.push_str(&n.to_string()),
        Value::String(s) => out.push_str(&serde_json::to_string(s).unwrap_or_else(|_| "\"\"".into())),
        Value::Array(a) => {
            out.push('[');
            for (i, x) in a.iter().enumerate() {
                if i > 0 {
                    out.push(',');
                }
                emit(x, op, node, member, out);
            }
            out.push(']');
        }
        Value::Object(o) => {
            out.push('{');
            let mut first = true;
            for (k, x) in o {
                let m = *member;
                *member += 1;
                let times = match op {
                    JsonOp::DeleteMember(d) if *d == m => 0,
                    JsonOp::DupMember(d) if *d == m => 2,
                    _ => 1,
                };
                if times == 0 {
                    skip(x, node, member);
                    continue;
                }
                let (n0, m0) = (*node, *member);
                for rep in 0..times {
                    if !first {
                        out.push(',');
                    }
                    first = false;
                    out.push_str(&serde_json::to_string(k).unwrap_or_else(|_| "\"\"".into()));
                    out.push(':');
                    if rep > 0 {
                        *node = n0;
                        *member = m0;
                    }
                    emit(x, op, node, member, out);
                }
            }
            out.push('}');
        }
    }
    if let Some(s) = wrap_suffix {
        out.push_str(s);
    }
}

fn skip(v: &Value, node: &mut usize, member: &mut usize) {
    match v {
        Value::Array(a) => {
            for x in a {
                *node += 1;
                skip(x, node, member);
            }
        }
        Value::Object(o) => {
            for (_, x) in o {
                *member += 1;
                *node += 1;
                skip(x, node, member);
            }
        }
        _ => {}
    }
}

/// Lengthen `s` to exactly `target` bytes (when it is ASCII) by repeating the characters of its
/// longest alphanumeric run in place, so that the delimiters of an identifier survive.
pub fn lengthen(s: &str, target: usize) -> String {
    if s.len() >= target {
        // shorten from the middle of the longest run instead
        let chars: Vec<char> = s.chars().collect();
        let mut out = String::new();
        for c in chars {
            if out.len() + c.len_utf8() > target {
                break;
            }
            out.push(c);
        }
        return out;
    }
    let chars: Vec<char> = s.chars().collect();
    // longest alphanumeric run
    let (mut best_start, mut best_len, mut cur_start, mut cur_len) = (0usize, 0usize, 0usize, 0usize);
    for (i, c) in chars.iter().enumerate() {
        if c.is_alphanumeric() {
            if cur_len == 0 {
                cur_start = i;
            }
            cur_len += 1;
            if cur_len > best_len {
                best_len = cur_len;
                best_start = cur_start;
            }
        } else {
            cur_len = 0;
        }
    }
    let run: Vec<char> = if best_len == 0 { vec!['a'] } else { chars[best_start..best_start + best_len].to_vec() };
    let insert_at = best_start + best_len;
    let mut out: String = chars[..insert_at].iter().collect();
    let tail: String = chars[insert_at..].iter().collect();
    let mut i = 0;
    while out.len() + tail.len() < target {
        let c = run[i % run.len()];
        if out.len() + tail.len() + c.len_utf8() > target {
            out.push('a');
        } else {
            out.push(c);
        }
        i += 1;
    }
    out.push_str(&tail);
    out
}

fn json_mutate(kind: &str, data: &mut Vec<u8>, t: &mut Tape) -> bool {
    let Ok(v) = serde_json::from_slice::<Value>(data) else {
        return false;
    };
    let mut c = Counts { nodes: 0, members: 0, strings: Vec::new() };
    count(&v, &mut c);
    let op = match kind {
        "json_delete_member" => {
            if c.members == 0 {
                return false;
            }
            JsonOp::DeleteMember(t.index(c.members))
        }
        "json_dup_member" => {
            if c.members == 0 {
                return false;
            }
            JsonOp::DupMember(t.index(c.members))
        }
        "json_type_swap" => {
            let k = t.index(c.nodes);
            JsonOp::Replace(k, SWAP_VALUES[t.index(SWAP_VALUES.len())].to_string())
        }
        "json_long_string" => {
            if c.strings.is_empty() {
                return false;
            }
            let (k, s) = &c.strings[t.index(c.strings.len())];
            let len = BOUNDARY_LENGTHS[t.index(BOUNDARY_LENGTHS.len())];
            // a quarter of the long strings are multi-byte characters behind 0-3 ASCII ones, so that
            // every fixed byte offset falls inside a character for some of them
            let long = if t.chance(1, 4) {
                let unit = *t.pick(&["\u{e9}", "\u{20ac}", "\u{1F600}"]);
                let mut l: String = s.chars().take(t.below(4) as usize).filter(|c| c.is_ascii()).collect();
                while l.len() + unit.len() <= len.min(4096) {
                    l.push_str(unit);
                }
                l
            } else {
                lengthen(s, len)
            };
            JsonOp::Replace(*k, serde_json::to_string(&long).unwrap_or_else(|_| "\"\"".into()))
        }
        "json_string_edit" => {
            if c.strings.is_empty() {
                return false;
            }
            // the little grammars live in short strings ("==2", "v1.1", "m.text"): half of the edits go to one of those
            let short: Vec<usize> = c.strings.iter().enumerate().filter(|(_, (_, s))| !s.is_empty() && s.len() <= 6).map(|(i, _)| i).collect();
            let pick = if !short.is_empty() && t.chance(1, 2) { short[t.index(short.len())] } else { t.index(c.strings.len()) };
            let (k, s) = &c.strings[pick];
            let chars: Vec<char> = s.chars().collect();
            let n = 1 + t.below(2) as usize;
            let edited: String = match t.below(8) {
                0 => chars.iter().take(n).collect(),
                1 => chars.iter().skip(n).collect(),
                2 => chars.iter().take(chars.len().saturating_sub(n)).collect(),
                3 => {
                    // up to (and perhaps including) the first character that is not alphanumeric
                    let cut = chars.iter().position(|c| !c.is_alphanumeric()).map(|p| p + t.below(2) as usize).unwrap_or(chars.len());
                    chars.iter().take(cut).collect()
                }
                4 => {
                    let mut e: String = chars.iter().collect();
                    e.push('\u{e9}');
                    e
                }
                5 => {
                    let mut c2 = chars.clone();
                    if c2.len() >= 2 {
                        c2[1] = '\u{e9}';
                    } else {
                        c2.push('\u{e9}');
                    }
                    c2.into_iter().collect()
                }
                6 => {
                    // the leading operator / sigil alone
                    let cut = chars.iter().position(|c| c.is_alphanumeric()).unwrap_or(chars.len());
                    chars.iter().take(cut.max(1).min(chars.len())).collect()
                }
                _ => STRING_TOKENS[t.index(STRING_TOKENS.len())].to_string(),
            };
            JsonOp::Replace(*k, serde_json::to_string(&edited).unwrap_or_else(|_| "\"\"".into()))
        }
        "json_string_copy" => {
            // one string of the document takes the place of another (an event citing itself or a
            // sibling, a user ID where a room ID belongs, ...)
            if c.strings.len() < 2 {
                return false;
            }
            let a = t.index(c.strings.len());
            let mut b = t.index(c.strings.len());
            if a == b {
                b = (b + 1) % c.strings.len();
            }
            let (k, old) = &c.strings[a];
            let new = &c.strings[b].1;
            if old == new {
                return false;
            }
            JsonOp::Replace(*k, serde_json::to_string(new).unwrap_or_else(|_| "\"\"".into()))
        }
        "json_glob_blowup" => {
            // a glob (a string with a wildcard) becomes the classic backtracking input
            let globs: Vec<usize> = c.strings.iter().enumerate().filter(|(_, (_, s))| s.contains('*') || s.contains('?')).map(|(i, _)| i).collect();
            if globs.is_empty() {
                return false;
            }
            let (k, _) = &c.strings[globs[t.index(globs.len())]];
            let n = 8 + t.below(40) as usize;
            let unit = *t.pick(&["*a", "a*", "?*a", "*a?"]);
            let mut g = unit.repeat(n);
            g.push_str(*t.pick(&["*b", "b", "", "*"]));
            JsonOp::Replace(*k, serde_json::to_string(&g).unwrap_or_else(|_| "\"\"".into()))
        }
        "json_nest" => {
            let k = t.index(c.nodes);
            let depth = NEST_DEPTHS[t.index(NEST_DEPTHS.len())];
            if t.chance(1, 2) {
                JsonOp::Wrap(k, "{\"a\":".repeat(depth), "}".repeat(depth))
            } else {
                JsonOp::Wrap(k, "[".repeat(depth), "]".repeat(depth))
            }
        }
        _ => return false,
    };
    let mut out = String::with_capacity(data.len() + 64);
    emit(&v, &op, &mut 0, &mut 0, &mut out);
    *data = out.into_bytes();
    true
}

// ---------------------------------------------------------------------------------------------
// push-rule edit scripts: {"start": "server_default"|"empty", "ops": [ {"op":"insert", "kind":.., "rule_id":.., "after":.., "before":..}, ..]}

fn anchor_mutate(kind: &str, data: &mut Vec<u8>, t: &mut Tape) -> bool {
    let Ok(mut v) = serde_json::from_slice::<Value>(data) else {
        return false;
    };
    let Some(ops) = v.get_mut("ops").and_then(|o| o.as_array_mut()) else {
        return false;
    };
    let inserts: Vec<usize> = ops.iter().enumerate().filter(|(_, o)| o.get("op").and_then(|x| x.as_str()) == Some("insert")).map(|(i, _)| i).collect();
    if inserts.is_empty() {
        return false;
    }
    let i = inserts[t.index(inserts.len())];
    let side = if t.chance(1, 2) { "before" } else { "after" };
    let both = t.chance(1, 5);
    let anchor = match kind {
        "anchor_self" => "$self",
        "anchor_last" => "$last",
        _ => "$self",
    };
    if kind == "anchor_empty" {
        // the chosen insert becomes the first operation on an empty ruleset
        let mut op = ops[i].clone();
        match t.below(3) {
            0 => {
                op["after"] = Value::Null;
                op["before"] = Value::Null;
            }
            1 => {
                op[side] = Value::String("$self".into());
            }
            _ => {
                op[side] = Value::String("$last".into());
            }
        }
        ops.insert(0, op);
        v["start"] = Value::String("empty".into());
    } else {
        ops[i][side] = Value::String(anchor.into());
        if both {
            let other = if side == "before" { "after" } else { "before" };
            ops[i][other] = Value::String(anchor.into());
        }
    }
    *data = serde_json::to_vec(&v).unwrap_or_default();
    true
}

// ---------------------------------------------------------------------------------------------
// identifiers / URIs / header values

fn delim_mutate(kind: &str, data: &mut Vec<u8>, t: &mut Tape) -> bool {
    let scan = data.len().min(4096);
    let pos: Vec<usize> = (0..scan).filter(|&i| DELIMS.contains(&data[i])).collect();
    match kind {
        "delim_double" => {
            if pos.is_empty() {
                return false;
            }
            let p = pos[t.index(pos.len())];
            let b = data[p];
            data.insert(p, b);
            true
        }
        "delim_empty" => {
            if pos.is_empty() {
                return false;
            }
            let k = t.index(pos.len());
            let p = pos[k];
            let next = pos.get(k + 1).copied().unwrap_or(data.len());
            if next > p + 1 {
                data.drain(p + 1..next);
                return true;
            }
            let prev = if k == 0 { 0 } else { pos[k - 1] + 1 };
            if p > prev {
                data.drain(prev..p);
                return true;
            }
            false
        }
        "value_token" => {
            // the value of one `name=value` pair (query string, header parameter) is replaced
            let eqs: Vec<usize> = (0..scan).filter(|&i| data[i] == b'=').collect();
            if eqs.is_empty() {
                return false;
            }
            let p = eqs[t.index(eqs.len())] + 1;
            let e = (p..data.len()).find(|&i| matches!(data[i], b'&' | b';' | b',' | b' ' | b'#' | b'\n')).unwrap_or(data.len());
            let tok = VALUE_TOKENS[t.index(VALUE_TOKENS.len())];
            data.splice(p..e, tok.bytes());
            true
        }
        "seg_long" => {
            // segment starts: the beginning of the region and the byte after every delimiter
            let mut starts: Vec<usize> = vec![0];
            starts.extend(pos.iter().map(|p| p + 1));
            let s = starts[t.index(starts.len())];
            let e = pos.iter().copied().find(|&p| p >= s).unwrap_or(data.len());
            let target = SEG_LENGTHS[t.index(SEG_LENGTHS.len())];
            let whole = t.chance(1, 2); // target is the length of the whole value, else of the segment
            let seg: Vec<u8> = if e > s { data[s..e].to_vec() } else { b"a".to_vec() };
            let cur = if whole { data.len() } else { e - s };
            if cur >= target {
                return false;
            }
            let add = target - cur;
            let ins: Vec<u8> = (0..add).map(|i| seg[i % seg.len()]).collect();
            data.splice(e..e, ins);
            true
        }
        _ => false,
    }
}

#[cfg(test)]
mod tests {
    use super::*;
    /// Reach of the string-edit mutator: short grammar strings inside an HTTP body lose their
    /// leading characters / collapse to an operator often enough to matter.
    #[test]
    fn string_edit_reaches_short_grammar_strings() {
        let seed = b"200\nContent-Type: application/json\n\n{\"versions\":[\"r0.6.1\",\"v1.1\",\"v1.11\"],\"is\":\"==2\"}".to_vec();
        let (mut dotted, mut lone_eq, mut changed) = (0, 0, 0);
        for i in 0..4000u64 {
            let mut t = Tape::generate(simcore::tape::run_seed(7, i));
            let mut d = seed.clone();
            if apply("json_string_edit", T_HTTP | T_BYTES, &mut d, &[], &mut t) && d != seed {
                changed += 1;
                let text = String::from_utf8_lossy(&d).to_string();
                if text.contains("\".1") || text.contains("\".6.1") || text.contains("\".\"") {
                    dotted += 1;
                }
                if text.contains("\"is\":\"=\"") || text.contains("\"is\":\"=\u{e9}") {
                    lone_eq += 1;
                }
            }
        }
        assert!(changed > 3000, "changed {changed}");
        assert!(dotted > 40, "dotted {dotted}");
        assert!(lone_eq > 40, "lone_eq {lone_eq}");
    }

    #[test]
    fn lengthen_exact() {
        assert_eq!(lengthen("@alice:example.org", 255).len(), 255);
        assert!(lengthen("@alice:example.org", 255).starts_with("@alice:example") && lengthen("@alice:example.org", 255).ends_with(".org"));
    }
}
