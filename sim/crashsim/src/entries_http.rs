//! 8. Endpoint conversions: `IncomingRequest::try_from_http_request` and
//! `IncomingResponse::try_from_http_response` for a sample of client, federation, appservice,
//! identity-service and push-gateway endpoints.
//!
//! Delivery format (requests): line 1 = METHOD, line 2 = URI, then `Name: value` header lines, an
//! empty line, the body. Responses: line 1 = status code, then headers, empty line, body.
//! The router in front of ruma is a stub: it matches the percent-decoded path against the
//! endpoint's `METADATA.history` path templates and hands the placeholder segments to ruma.

use std::fmt::Debug;

use ruma_common::api::{IncomingRequest, IncomingResponse, Metadata};

use crate::entries::{sum, variant, R};
use crate::mutate::{T_BYTES, T_HTTP};

pub const T_REQ: u32 = T_HTTP | T_BYTES;

struct Parsed<'a> {
    first: &'a str,
    second: &'a str,
    headers: Vec<(&'a str, &'a [u8])>,
    body: &'a [u8],
}

fn split_head_body(b: &[u8]) -> (&[u8], &[u8]) {
    match b.windows(2).position(|w| w == b"\n\n") {
        Some(p) => (&b[..p], &b[p + 2..]),
        None => (b, &b[b.len()..]),
    }
}

fn parse(b: &[u8], two_lines: bool) -> Result<Parsed<'_>, String> {
    let (head, body) = split_head_body(b);
    let mut lines = head.split(|&c| c == b'\n');
    let first = std::str::from_utf8(lines.next().unwrap_or(b"")).map_err(|_| "outer-bad-http".to_string())?;
    let second = if two_lines { std::str::from_utf8(lines.next().unwrap_or(b"")).map_err(|_| "outer-bad-http".to_string())? } else { "" };
    let mut headers = Vec::new();
    for l in lines {
        let Some(c) = l.iter().position(|&c| c == b':') else {
            return Err("outer-bad-http".to_string());
        };
        let name = std::str::from_utf8(&l[..c]).map_err(|_| "outer-bad-http".to_string())?;
        let mut v = &l[c + 1..];
        while v.first() == Some(&b' ') {
            v = &v[1..];
        }
        headers.push((name, v));
    }
    Ok(Parsed { first, second, headers, body })
}

fn build_request(b: &[u8]) -> Result<http::Request<Vec<u8>>, String> {
    let p = parse(b, true)?;
    let mut rb = http::Request::builder().method(p.first.trim()).uri(p.second.trim());
    for (n, v) in &p.headers {
        rb = rb.header(*n, *v);
    }
    rb.body(p.body.to_vec()).map_err(|_| "outer-bad-http".to_string())
}

fn build_response(b: &[u8]) -> Result<http::Response<Vec<u8>>, String> {
    let p = parse(b, false)?;
    let status: u16 = p.first.trim().parse().map_err(|_| "outer-bad-http".to_string())?;
    let mut rb = http::Response::builder().status(status);
    for (n, v) in &p.headers {
        rb = rb.header(*n, *v);
    }
    rb.body(p.body.to_vec()).map_err(|_| "outer-bad-http".to_string())
}

fn percent_decode(s: &str) -> Result<String, String> {
    let b = s.as_bytes();
    let mut out = Vec::with_capacity(b.len());
    let mut i = 0;
    while i < b.len() {
        if b[i] == b'%' {
            let hex = |c: u8| (c as char).to_digit(16);
            match (b.get(i + 1).copied().and_then(hex), b.get(i + 2).copied().and_then(hex)) {
                (Some(h), Some(l)) => {
                    out.push((h * 16 + l) as u8);
                    i += 3;
                    continue;
                }
                _ => return Err("outer-bad-percent-encoding".to_string()),
            }
        }
        out.push(b[i]);
        i += 1;
    }
    String::from_utf8(out).map_err(|_| "outer-path-not-utf8".to_string())
}

/// Match the request path against the endpoint's path templates (`:name` = placeholder).
fn route(path: &str, meta: &Metadata, allow_short: bool) -> Result<Vec<String>, String> {
    let segs: Vec<&str> = path.split('/').collect();
    for tpl in meta.history.all_paths() {
        let tsegs: Vec<&str> = tpl.split('/').collect();
        for cut in 0..=(allow_short as usize) {
            let tsegs = &tsegs[..tsegs.len() - cut];
            if cut == 1 && !tpl.rsplit('/').next().is_some_and(|s| s.starts_with(':')) {
                continue;
            }
            if tsegs.len() != segs.len() {
                continue;
            }
            let mut args = Vec::new();
            let mut ok = true;
            for (t, s) in tsegs.iter().zip(&segs) {
                if t.starts_with(':') {
                    args.push(*s);
                } else if t != s {
                    ok = false;
                    break;
                }
            }
            if ok {
                return args.into_iter().map(percent_decode).collect();
            }
        }
    }
    Err("outer-no-route".to_string())
}

fn request<T: IncomingRequest + Debug>(b: &[u8], allow_short: bool) -> R {
    let req = build_request(b)?;
    let path = req.uri().path().to_string();
    let args = route(&path, &T::METADATA, allow_short)?;
    let r = T::try_from_http_request(req, &args).map_err(|e| format!("from-http-{}", variant(&e)))?;
    Ok(sum(&format!("{r:?}")))
}

fn response<T: IncomingResponse + Debug>(b: &[u8]) -> R {
    let resp = build_response(b)?;
    let r = T::try_from_http_response(resp).map_err(|e| format!("from-http-{}", variant(&e)))?;
    Ok(sum(&format!("{r:?}")))
}

/// Like `response`, for the entry points whose subject is the *error* side of a response: a
/// non-success status that ruma turns into the endpoint's error type is an accepted input, and the
/// parsed error (errcode-specific fields, `Retry-After`, UIAA info, ...) is part of the outcome.
fn response_or_error<T: IncomingResponse + Debug>(b: &[u8]) -> R {
    use ruma_common::api::error::FromHttpResponseError as E;
    let resp = build_response(b)?;
    match T::try_from_http_response(resp) {
        Ok(r) => Ok(sum(&format!("{r:?}"))),
        Err(E::Server(e)) => Ok(sum(&format!("server-error {e:?}"))),
        Err(e) => Err(format!("from-http-{}", variant(&e))),
    }
}

pub fn c_send_message(b: &[u8]) -> R {
    request::<ruma_client_api::message::send_message_event::v3::Request>(b, false)
}
pub fn c_sync(b: &[u8]) -> R {
    request::<ruma_client_api::sync::sync_events::v3::Request>(b, false)
}
pub fn c_set_pushrule(b: &[u8]) -> R {
    request::<ruma_client_api::push::set_pushrule::v3::Request>(b, false)
}
pub fn c_join_room(b: &[u8]) -> R {
    request::<ruma_client_api::membership::join_room_by_id::v3::Request>(b, false)
}
pub fn c_send_state(b: &[u8]) -> R {
    request::<ruma_client_api::state::send_state_event::v3::Request>(b, true)
}
pub fn c_create_filter(b: &[u8]) -> R {
    request::<ruma_client_api::filter::create_filter::v3::Request>(b, false)
}
pub fn c_create_content(b: &[u8]) -> R {
    request::<ruma_client_api::media::create_content::v3::Request>(b, false)
}
pub fn f_send_transaction(b: &[u8]) -> R {
    request::<ruma_federation_api::transactions::send_transaction_message::v1::Request>(b, false)
}
pub fn f_create_join(b: &[u8]) -> R {
    request::<ruma_federation_api::membership::create_join_event::v2::Request>(b, false)
}
pub fn f_get_missing_events(b: &[u8]) -> R {
    request::<ruma_federation_api::event::get_missing_events::v1::Request>(b, false)
}
pub fn a_push_events(b: &[u8]) -> R {
    request::<ruma_appservice_api::event::push_events::v1::Request>(b, false)
}
pub fn i_lookup_3pid(b: &[u8]) -> R {
    request::<ruma_identity_service_api::lookup::lookup_3pid::v2::Request>(b, false)
}
pub fn i_store_invitation(b: &[u8]) -> R {
    request::<ruma_identity_service_api::invitation::store_invitation::v2::Request>(b, false)
}
pub fn p_send_event_notification(b: &[u8]) -> R {
    request::<ruma_push_gateway_api::send_event_notification::v1::Request>(b, false)
}
pub fn r_sync_response(b: &[u8]) -> R {
    response::<ruma_client_api::sync::sync_events::v3::Response>(b)
}
pub fn r_server_keys_response(b: &[u8]) -> R {
    response::<ruma_federation_api::discovery::get_server_keys::v2::Response>(b)
}
/// Federation media download: a `multipart/mixed` body parsed by ruma itself.
pub fn r_fed_media_content(b: &[u8]) -> R {
    response::<ruma_federation_api::authenticated_media::get_content::v1::Response>(b)
}
pub fn r_fed_media_thumbnail(b: &[u8]) -> R {
    response::<ruma_federation_api::authenticated_media::get_content_thumbnail::v1::Response>(b)
}

pub fn r_store_invitation_response(b: &[u8]) -> R {
    response::<ruma_identity_service_api::invitation::store_invitation::v2::Response>(b)
}
pub fn r_lookup_3pid_response(b: &[u8]) -> R {
    response::<ruma_identity_service_api::lookup::lookup_3pid::v2::Response>(b)
}
pub fn r_get_missing_events_response(b: &[u8]) -> R {
    response::<ruma_federation_api::event::get_missing_events::v1::Response>(b)
}
pub fn r_send_transaction_response(b: &[u8]) -> R {
    response::<ruma_federation_api::transactions::send_transaction_message::v1::Response>(b)
}
pub fn r_create_join_response(b: &[u8]) -> R {
    response::<ruma_federation_api::membership::create_join_event::v2::Response>(b)
}
pub fn r_get_pushrules_response(b: &[u8]) -> R {
    response::<ruma_client_api::push::get_pushrules_all::v3::Response>(b)
}
pub fn r_get_state_response(b: &[u8]) -> R {
    response::<ruma_client_api::state::get_state_events::v3::Response>(b)
}

pub fn r_get_content_response(b: &[u8]) -> R {
    response::<ruma_client_api::authenticated_media::get_content::v1::Response>(b)
}

// --- more endpoint conversions (requests a remote client / server / homeserver sent) ---
pub fn c_get_message_events(b: &[u8]) -> R {
    request::<ruma_client_api::message::get_message_events::v3::Request>(b, false)
}
pub fn c_get_context(b: &[u8]) -> R {
    request::<ruma_client_api::context::get_context::v3::Request>(b, false)
}
pub fn c_login(b: &[u8]) -> R {
    request::<ruma_client_api::session::login::v3::Request>(b, false)
}
pub fn c_register(b: &[u8]) -> R {
    request::<ruma_client_api::account::register::v3::Request>(b, false)
}
pub fn c_create_room(b: &[u8]) -> R {
    request::<ruma_client_api::room::create_room::v3::Request>(b, false)
}
pub fn c_upload_keys(b: &[u8]) -> R {
    request::<ruma_client_api::keys::upload_keys::v3::Request>(b, false)
}
pub fn c_send_to_device(b: &[u8]) -> R {
    request::<ruma_client_api::to_device::send_event_to_device::v3::Request>(b, false)
}
pub fn c_set_read_marker(b: &[u8]) -> R {
    request::<ruma_client_api::read_marker::set_read_marker::v3::Request>(b, false)
}
pub fn c_search_users(b: &[u8]) -> R {
    request::<ruma_client_api::user_directory::search_users::v3::Request>(b, false)
}
pub fn c_get_keys(b: &[u8]) -> R {
    request::<ruma_client_api::keys::get_keys::v3::Request>(b, false)
}
pub fn c_set_presence(b: &[u8]) -> R {
    request::<ruma_client_api::presence::set_presence::v3::Request>(b, false)
}
pub fn c_upload_signatures(b: &[u8]) -> R {
    request::<ruma_client_api::keys::upload_signatures::v3::Request>(b, false)
}
pub fn c_get_relations(b: &[u8]) -> R {
    request::<ruma_client_api::relations::get_relating_events_with_rel_type_and_event_type::v1::Request>(b, false)
}
pub fn c_knock_room(b: &[u8]) -> R {
    request::<ruma_client_api::knock::knock_room::v3::Request>(b, false)
}
pub fn c_report_content(b: &[u8]) -> R {
    request::<ruma_client_api::room::report_content::v3::Request>(b, false)
}
pub fn f_create_invite(b: &[u8]) -> R {
    request::<ruma_federation_api::membership::create_invite::v2::Request>(b, false)
}
pub fn f_get_event(b: &[u8]) -> R {
    request::<ruma_federation_api::event::get_event::v1::Request>(b, false)
}
pub fn f_backfill(b: &[u8]) -> R {
    request::<ruma_federation_api::backfill::get_backfill::v1::Request>(b, false)
}
pub fn f_claim_keys(b: &[u8]) -> R {
    request::<ruma_federation_api::keys::claim_keys::v1::Request>(b, false)
}
pub fn f_get_devices(b: &[u8]) -> R {
    request::<ruma_federation_api::device::get_devices::v1::Request>(b, false)
}
pub fn f_send_knock(b: &[u8]) -> R {
    request::<ruma_federation_api::knock::send_knock::v1::Request>(b, false)
}
pub fn f_create_leave(b: &[u8]) -> R {
    request::<ruma_federation_api::membership::create_leave_event::v2::Request>(b, false)
}
pub fn f_query_profile(b: &[u8]) -> R {
    request::<ruma_federation_api::query::get_profile_information::v1::Request>(b, false)
}
pub fn f_exchange_invite(b: &[u8]) -> R {
    request::<ruma_federation_api::thirdparty::exchange_invite::v1::Request>(b, false)
}
pub fn f_make_join(b: &[u8]) -> R {
    request::<ruma_federation_api::membership::prepare_join_event::v1::Request>(b, false)
}
pub fn a_query_user_id(b: &[u8]) -> R {
    request::<ruma_appservice_api::query::query_user_id::v1::Request>(b, false)
}
pub fn a_ping(b: &[u8]) -> R {
    request::<ruma_appservice_api::ping::send_ping::v1::Request>(b, false)
}
pub fn i_bind_3pid(b: &[u8]) -> R {
    request::<ruma_identity_service_api::association::bind_3pid::v2::Request>(b, false)
}
pub fn i_validate_email(b: &[u8]) -> R {
    request::<ruma_identity_service_api::association::email::validate_email::v2::Request>(b, false)
}
pub fn i_request_email_token(b: &[u8]) -> R {
    request::<ruma_identity_service_api::association::email::create_email_validation_session::v2::Request>(b, false)
}

// --- responses a remote server sent; the first three are about the error side ---
pub fn r_c_error(b: &[u8]) -> R {
    response_or_error::<ruma_client_api::message::send_message_event::v3::Response>(b)
}
pub fn r_uiaa(b: &[u8]) -> R {
    response_or_error::<ruma_client_api::account::register::v3::Response>(b)
}
pub fn r_f_error(b: &[u8]) -> R {
    response_or_error::<ruma_federation_api::event::get_event::v1::Response>(b)
}
pub fn r_get_supported_versions(b: &[u8]) -> R {
    // what every client does with this response: work out which versions it knows
    let resp = build_response(b)?;
    let r = <ruma_client_api::discovery::get_supported_versions::Response as IncomingResponse>::try_from_http_response(resp).map_err(|e| format!("from-http-{}", variant(&e)))?;
    let known = r.known_versions();
    let parsed: Vec<String> = r.versions.iter().map(|v| format!("{:?}", ruma_common::api::MatrixVersion::try_from(v.as_str()).ok())).collect();
    Ok(sum(&format!("{r:?} {known:?} {parsed:?}")))
}
pub fn r_discover_homeserver(b: &[u8]) -> R {
    response::<ruma_client_api::discovery::discover_homeserver::Response>(b)
}
pub fn r_discover_server(b: &[u8]) -> R {
    response::<ruma_federation_api::discovery::discover_homeserver::Response>(b)
}
pub fn r_login_types(b: &[u8]) -> R {
    response::<ruma_client_api::session::get_login_types::v3::Response>(b)
}
pub fn r_login(b: &[u8]) -> R {
    response::<ruma_client_api::session::login::v3::Response>(b)
}
pub fn r_make_join(b: &[u8]) -> R {
    response::<ruma_federation_api::membership::prepare_join_event::v1::Response>(b)
}
pub fn r_state_ids(b: &[u8]) -> R {
    response::<ruma_federation_api::event::get_room_state_ids::v1::Response>(b)
}
pub fn r_backfill(b: &[u8]) -> R {
    response::<ruma_federation_api::backfill::get_backfill::v1::Response>(b)
}
pub fn r_keys_query(b: &[u8]) -> R {
    response::<ruma_client_api::keys::get_keys::v3::Response>(b)
}
pub fn r_get_devices(b: &[u8]) -> R {
    response::<ruma_federation_api::device::get_devices::v1::Response>(b)
}
pub fn r_messages(b: &[u8]) -> R {
    response::<ruma_client_api::message::get_message_events::v3::Response>(b)
}
pub fn r_context(b: &[u8]) -> R {
    response::<ruma_client_api::context::get_context::v3::Response>(b)
}
pub fn r_joined_members(b: &[u8]) -> R {
    response::<ruma_client_api::membership::joined_members::v3::Response>(b)
}
pub fn r_public_rooms(b: &[u8]) -> R {
    response::<ruma_client_api::directory::get_public_rooms::v3::Response>(b)
}
pub fn r_turn_server(b: &[u8]) -> R {
    response::<ruma_client_api::voip::get_turn_server_info::v3::Response>(b)
}
pub fn r_profile(b: &[u8]) -> R {
    response::<ruma_client_api::profile::get_profile::v3::Response>(b)
}
pub fn r_hierarchy(b: &[u8]) -> R {
    response::<ruma_client_api::space::get_hierarchy::v1::Response>(b)
}
