//! Seed corpus (DESIGN §6 "Seeds"): hand-written valid inputs per entry point, embedded in the
//! source, plus the JSON fixture files found under `/repo/crates/*/tests/` at run time (loaded by
//! the supervisor only, sorted by path, files > 70 KB skipped).
//!
//! The first embedded seed of every entry point is its canary input.

use std::path::{Path, PathBuf};

use crate::seeds_events::*;
use crate::seeds_gen::*;

const ID_USER: &[&str] = &[
    "@alice:example.org",
    "@a:b",
    "@alice:matrix.org:8448",
    "@user:[2001:db8::1]:8448",
    "@user:1.2.3.4",
    "@a.b_c=d-e/f+g:sub.example.com",
    "@Alice Bob:example.org",
    "@ALICE:example.org",
    "@\u{fc}n\u{ef}c\u{f6}de:example.org",
    "@:example.org",
    "@_irc_bridge_nick[away]:example.org",
];
const ID_USER_WITH_SERVER: &[&str] = &["alice", "@alice:example.org", "bob.b_c", "Carol", "@dave:other.org:8448"];
const ID_ROOM: &[&str] = &[
    "!room:example.org",
    "!abc123DEF:matrix.org:8448",
    "!r:[::1]",
    "!r:[2001:db8::1]:8448",
    "!31hneApxJ_1o-63DmFrpeqnkFfWppnzWso1JvH3ogLM",
    "!r\u{f6}om:example.org",
];
const ID_ROOM_ALIAS: &[&str] = &["#room:example.org", "#ruma:matrix.org:443", "#a b:example.org", "#\u{fc}\u{f1}\u{ed}:example.org", "#x:[::1]:80", "#a:b:1"];
const ID_ROOM_OR_ALIAS: &[&str] = &["!room:example.org", "#room:example.org", "#ruma:matrix.org:443", "!r:[::1]", "!31hneApxJ_1o-63DmFrpeqnkFfWppnzWso1JvH3ogLM"];
const ID_EVENT: &[&str] = &[
    "$event:example.org",
    "$Rqnc-F-dvnEYJTyHq_iKxU2bZ1CI92-kuZq3a5lr5Zg",
    "$acR1l0raoZnm60CBwAVgqbZqoO/mYU81xysh1u7XcJk",
    "$143273582443PhrSn:example.org:8448",
    "$e:[::1]",
];
const ID_SERVER_NAME: &[&str] = &[
    "example.org",
    "example.org:8448",
    "1.2.3.4",
    "1.2.3.4:80",
    "[2001:db8::1]",
    "[2001:db8::1]:8448",
    "localhost",
    "a-b.c-d.example",
    "[::ffff:1.2.3.4]:1",
    "EXAMPLE.ORG:65535",
];
const ID_MXC: &[&str] = &[
    "mxc://example.org/abcDEF123-_",
    "mxc://127.0.0.1/asd32asdfasdsd",
    "mxc://[::1]:8448/x",
    "mxc://matrix.org:8448/AQwafuaFswefuhsfAFAgsw",
    "mxc://a/b",
];
const ID_DEVICE_KEY: &[&str] = &["ed25519:JLAFKJWSCS", "a\u{e9}d25519:JLAFKJWSCS", "curve25519:ABCDEFGH", "signed_curve25519:AAAAHQ", "org.custom:dev ice", "ed25519:d\u{e9}vice"];
const ID_SIGNING_KEY_ANY: &[&str] = &["ed25519:1", "\u{e9}d25519:1", "ed25519:abc+/=", "ed25519:a_b", "org.custom:x:y", "ed25519:cl\u{e9}"];
const ID_SERVER_SIGNING_KEY: &[&str] = &["ed25519:1", "x\u{20ac}:1", "ed25519:a_Bc9", "ed25519:auto", "org.custom:k_1"];
const ID_CROSS_SIGNING_KEY: &[&str] = &["ed25519:nqOvzeuGWT/sRx3h7+MHoInYj3Uk2LD/unI9kDYcHwk", "ed25519:AAAA", "ed25519:b+/9"];
const ID_CROSS_OR_DEVICE_KEY: &[&str] = &["ed25519:nqOvzeuGWT/sRx3h7+MHoInYj3Uk2LD/unI9kDYcHwk", "ed25519:JLAFKJWSCS", "ed25519:dev-1"];
const ID_ONE_TIME_KEY: &[&str] = &["signed_curve25519:AAAAHQ", "\u{fc}ber_curve:AAAAHQ", "curve25519:AAAAHg", "signed_curve25519:a_b", "org.custom:k"];
const ID_ROOM_VERSION: &[&str] = &["1", "2", "3", "4", "5", "6", "7", "8", "9", "10", "11", "12", "org.custom.version", "org.matrix.msc2870"];
const ID_CLIENT_SECRET: &[&str] = &["this_1s_a_secret", "abc.=_-", "A", "0123456789abcdefghijklmnopqrstuvwxyzABCDEFGHIJKLMNOPQRSTUVWXYZ"];
const ID_SESSION: &[&str] = &["session_ID-1", "abc", "A.b=_-"];
const ID_OPAQUE: &[&str] = &["JLAFKJWSCS", "txn-123", "1", "0", "org.matrix.voip.v2", "d\u{e9}vice id", "m1234567890.1"];

const URI_MATRIX: &[&str] = &[
    "matrix:u/alice:example.org",
    "matrix:u/alice:example.org?action=chat",
    "matrix:r/room:example.org",
    "matrix:roomid/room:example.org?via=example.org&via=other.org&action=join",
    "matrix:r/room:example.org/e/event",
    "matrix:roomid/room:example.org/e/event:example.org?via=a.b",
    "matrix:u/a%2Fb:example.org",
    "matrix:roomid/room:example.org/e/abc?via=%5B%3A%3A1%5D%3A8448",
    "matrix:r/r%C3%B6om:example.org?action=org.custom",
    "matrix:user/alice:example.org:8448",
];
const URI_MATRIX_TO: &[&str] = &[
    "https://matrix.to/#/@alice:example.org",
    "https://matrix.to/#/%23room%3Aexample.org",
    "https://matrix.to/#/!room:example.org?via=example.org&via=b.c",
    "https://matrix.to/#/!room:example.org/$event:example.org?via=a.b",
    "https://matrix.to/#/#room:example.org/$event",
    "https://matrix.to/#/%21room%3Aexample.org/%24event%3Aexample.org?via=%5B%3A%3A1%5D",
    "https://matrix.to/#/#room:example.org:8448",
];
const HDR_X_MATRIX: &[&str] = &[
    r###"X-Matrix origin=origin.hs.example.com,destination=destination.hs.example.com,key="ed25519:key1",sig="dGVzdA==""###,
    r###"X-Matrix origin="origin.hs.example.com",key="ed25519:1",sig="ABCDefgh+/12""###,
    r###"x-matrix origin="a.b:8448",key="ed25519:a_b",sig="YWJj",destination="[::1]:80""###,
    r###"X-Matrix origin="origin.hs.example.com:8448",destination="a\.b",key="ed25519:a",sig="YQ",extra=1"###,
    r###"X-Matrix key="ed25519:1", origin=o.example, sig="YWJjZA", destination=d.example"###,
];
const HDR_CONTENT_DISPOSITION: &[&str] = &[
    r###"attachment; filename="my file.txt""###,
    "inline",
    "attachment; filename*=utf-8''%E2%82%AC%20rates.txt",
    r###"attachment; filename="EURO rates"; filename*=utf-8'en'%e2%82%ac%20rates"###,
    r###"form-data; name=x; filename="a\"b\\c.txt""###,
    "attachment;filename=plain.txt",
    "  Attachment ;  FileName*=UTF-8''na%C3%AFve%20file ; size=1",
    "attachment; filename*=iso-8859-1'en'%A3%20rates",
    "org.custom-type; filename=\"x\"",
];
const B64_STANDARD: &[&str] = &[
    "dGVzdA",
    "dGVzdA==",
    "",
    "AAECAwQFBgcICQ==",
    "+/+/",
    "fQpGIW1Snz+pwLZu6sTy2aHy/DYWWTspTJRPyNp0PKkymfIsNffysMl6ObMMFdIJhk6g6pwlIqZ54rxo8SLmAg",
    "YQ",
    "YWI=",
];
const B64_URLSAFE: &[&str] = &["dGVzdA", "-_-_", "AAECAwQFBgcICQ", "", "aWF6-32KGYaC3A_FEUCk1Bt0JA37zP0wrStgmdCaW-0", "YQ=="];

const PUSH_EVENTS: &[&str] = &[
    r###"{"type":"m.room.message","sender":"@alice:example.org","room_id":"!room:example.org","event_id":"$e1","origin_server_ts":1,"content":{"msgtype":"m.text","body":"hello Bob, @room look","m.mentions":{"user_ids":["@bob:example.org"],"room":true}}}"###,
    r###"{"type":"m.room.member","sender":"@alice:example.org","room_id":"!room:example.org","state_key":"@bob:example.org","event_id":"$e2","origin_server_ts":2,"content":{"membership":"invite"}}"###,
    r###"{"type":"m.room.message","sender":"@alice:example.org","content":{"body":"bob's here: BOB. böb","msgtype":"m.notice","a.b":{"c\\d":[1,"x",null,true,{}],"e":{}},"n":-5,"big":9007199254740991}}"###,
    r###"{"type":"m.room.tombstone","state_key":"","sender":"@alice:example.org","content":{"body":"x","replacement_room":"!n:e.org"}}"###,
    r###"{"type":"m.reaction","sender":"@alice:example.org","content":{"m.relates_to":{"rel_type":"m.annotation","event_id":"$e","key":"k"}}}"###,
    r###"{"type":"m.room.server_acl","state_key":"","content":{"allow":["*"]}}"###,
];
const PUSH_GLOB: &[&str] = &[
    "hello*\nhello world",
    "h?llo\nhello",
    "*\nanything at all",
    "[a-z]\nq",
    "wor*ld\nthe wor ld is",
    "a\\*b\na*b",
    "!room:*\n!room:example.org",
    "bob\nhi Bob! and bob's friends",
    "*a*b*c*d*e*\naxbxcxdxex",
    "\u{fc}ber*\n\u{dc}BER cool \u{fc}bermensch",
    "\n",
    "?\n\u{1F600}",
];
const PUSH_EDITS: &[&str] = &[
    r###"{"start":"server_default","ops":[{"op":"insert","kind":"override","rule_id":"a","actions":["notify"],"conditions":[{"kind":"event_match","key":"type","pattern":"m.room.message"}]},{"op":"insert","kind":"override","rule_id":"b","after":"a"},{"op":"insert","kind":"content","rule_id":"c","pattern":"c*","before":".m.rule.contains_user_name"},{"op":"set_enabled","kind":"override","rule_id":".m.rule.master","enabled":true},{"op":"set_actions","kind":"underride","rule_id":".m.rule.message","actions":["notify",{"set_tweak":"highlight","value":false}]},{"op":"remove","kind":"override","rule_id":"a"},{"op":"get","kind":"content","rule_id":"c"}]}"###,
    r###"{"start":"empty","ops":[{"op":"insert","kind":"underride","rule_id":"u1"},{"op":"insert","kind":"underride","rule_id":"u2","before":"u1"},{"op":"insert","kind":"underride","rule_id":"u1","after":"u2"},{"op":"insert","kind":"room","rule_id":"!room:example.org","actions":["dont_notify"]},{"op":"insert","kind":"sender","rule_id":"@alice:example.org","actions":[]},{"op":"remove","kind":"room","rule_id":"!room:example.org"}]}"###,
    r###"{"start":"server_default","ops":[{"op":"insert","kind":"content","rule_id":"x","pattern":"x"},{"op":"insert","kind":"content","rule_id":"y","pattern":"y","after":"x"},{"op":"insert","kind":"content","rule_id":"z","pattern":"z","after":"x","before":"y"},{"op":"insert","kind":"content","rule_id":"x","pattern":"x2","after":"$last"},{"op":"insert","kind":"content","rule_id":"y","pattern":"y2","before":"$first"},{"op":"remove","kind":"content","rule_id":".m.rule.contains_user_name"},{"op":"remove","kind":"content","rule_id":"missing"}]}"###,
    r###"{"start":"empty","ops":[{"op":"insert","kind":"override","rule_id":"o1"},{"op":"insert","kind":"override","rule_id":"o2","after":"o1"},{"op":"insert","kind":"override","rule_id":"o3","before":"o1"},{"op":"insert","kind":"override","rule_id":"o1","after":"o2"},{"op":"set_enabled","kind":"override","rule_id":"o3","enabled":false},{"op":"insert","kind":"override","rule_id":".m.dot"},{"op":"insert","kind":"override","rule_id":"sl/ash"}]}"###,
];

const SIG_DER_HEX: &[&str] = &[
    // PKCS#8 v2 (private + public key), the document of ruma-signatures' doc examples
    "3051020101300506032b657004220420d8e8cef75f6ec184b7a0c3fbb51fe0f889fd8bd33575769883dcfed0344feead812100dd33eb6937335640cf4d1697e0af807d4bb2c7b333ab551a7d35f2a67974b769",
    // PKCS#8 v1 (private key only): crates/ruma-signatures/tests/keys/ed25519.der
    "302e020100300506032b6570042204203e1d3b892c203670b7e938204a189a934b611d4ade7d4daeb749aa0ac590b0a2",
    // the same key pair as written by `ring` (malformed public-key suffix; `ring-compat` path)
    "3053020101300506032b657004220420d8e8cef75f6ec184b7a0c3fbb51fe0f889fd8bd33575769883dcfed0344feeada123032100dd33eb6937335640cf4d1697e0af807d4bb2c7b333ab551a7d35f2a67974b769",
];

const HTML: &[&str] = &[
    r###"<mx-reply><blockquote><a href="https://matrix.to/#/!room:example.org/$event:example.org">In reply to</a> <a href="https://matrix.to/#/@alice:example.org">@alice:example.org</a><br>original</blockquote></mx-reply><p>This is a <b>reply</b> with <i>markup</i>.</p>"###,
    r###"<h1>h1</h1><h2>h2</h2><h3>h3</h3><h4>h4</h4><h5>h5</h5><h6>h6</h6><blockquote>q</blockquote><p>p</p><a href="https://example.org" name="n" target="_blank" rel="noopener">a</a><ul><li>u</li></ul><ol start="3"><li>o</li></ol><sup>sup</sup><sub>sub</sub><b>b</b><i>i</i><u>u</u><strong>s</strong><em>e</em><s>s</s><del>d</del><strike>k</strike><code class="language-rust">fn main() {}</code><hr><br><div data-mx-maths="x^2">div</div><table><caption>c</caption><thead><tr><th>h</th></tr></thead><tbody><tr><td>d</td></tr></tbody></table><pre><code>pre</code></pre><span data-mx-bg-color="#00ff00" data-mx-color="#ff0000" data-mx-spoiler="reason" data-mx-maths="y">span</span><img width="10" height="10" alt="alt" title="t" src="mxc://example.org/img"><details><summary>sum</summary>det</details><font color="#ff0000" data-mx-color="#00ff00" data-mx-bg-color="#0000ff">font</font>"###,
    r###"<script>alert(1)</script><style>p{}</style><iframe src="x"></iframe><a href="javascript:alert(1)">bad</a><a href="matrix:u/alice:example.org">m</a><a href="mailto:a@b.c">mail</a><a href="magnet:?xt=1">mag</a><img src="https://evil.example/x.png" onerror="x()"><p class="language-x other" style="color:red" onclick="x">cls</p><code class="language-rust notlang">c</code><unknown-tag attr="1">u<nested>n</nested></unknown-tag><!-- comment --><svg><circle r="1"/></svg><math><mi>x</mi></math>"###,
    "plain text with &amp; entities &lt;b&gt; &#x1F600; &#0; &nbsp; and unterminated <b>bold <i>italic",
    "<div><div><div><div><div><div><div><div><div><div>deep</div></div></div></div></div></div></div></div></div></div>",
    "<mx-reply>only fallback</mx-reply>",
    "<p>before</p><mx-reply><mx-reply>nested</mx-reply></mx-reply><p>after</p><mx-reply>second</mx-reply>",
    "<table><tr><td><table><tr><td>nested table</td></tr></table></td></tr></table><select><option>o</option></select><template><p>t</p></template><noscript><p>n</p></noscript><textarea><b>raw</b></textarea><title>t</title><plaintext>rest <b>is</b> text",
    "> <@alice:example.org> quoted line\n> second quoted line\n\nthe actual reply",
];

const HTTP_C_SEND_MESSAGE: &[&str] = &[
    "PUT\n/_matrix/client/v3/rooms/%21room%3Aexample.org/send/m.room.message/txn1\nAuthorization: Bearer tok\nContent-Type: application/json\n\n{\"msgtype\":\"m.text\",\"body\":\"hi\"}",
    "PUT\n/_matrix/client/r0/rooms/!room:example.org/send/m.reaction/t%2Fxn?ts=1234\nContent-Type: application/json\n\n{\"m.relates_to\":{\"rel_type\":\"m.annotation\",\"event_id\":\"$e\",\"key\":\"k\"}}",
    "PUT\nhttps://hs.example.org:8448/_matrix/client/v3/rooms/%21r%3Ae.org/send/org.custom/x?access_token=t&ts=0\n\n{}",
];
const HTTP_C_SYNC: &[&str] = &[
    "GET\n/_matrix/client/v3/sync?since=s72594_4483_1934&timeout=30000&full_state=false&set_presence=offline&filter=66696p746572\nAuthorization: Bearer tok\n\n",
    "GET\n/_matrix/client/v3/sync?filter=%7B%22room%22%3A%7B%22timeline%22%3A%7B%22limit%22%3A10%2C%22types%22%3A%5B%22m.room.*%22%5D%7D%7D%2C%22event_fields%22%3A%5B%22content.body%22%5D%7D\n\n",
    "GET\n/_matrix/client/r0/sync\n\n",
    "HEAD\n/_matrix/client/v3/sync?timeout=0&use_state_after=true\n\n",
];
const HTTP_C_SET_PUSHRULE: &[&str] = &[
    "PUT\n/_matrix/client/v3/pushrules/global/override/my.rule?before=.m.rule.master&after=other\nContent-Type: application/json\n\n{\"actions\":[\"notify\",{\"set_tweak\":\"sound\",\"value\":\"default\"}],\"conditions\":[{\"kind\":\"event_match\",\"key\":\"type\",\"pattern\":\"m.room.message\"},{\"kind\":\"room_member_count\",\"is\":\">=2\"}]}",
    "PUT\n/_matrix/client/v3/pushrules/global/content/word\n\n{\"actions\":[\"notify\"],\"pattern\":\"w*rd\"}",
    "PUT\n/_matrix/client/v3/pushrules/global/room/%21room%3Aexample.org\n\n{\"actions\":[]}",
    "PUT\n/_matrix/client/v3/pushrules/global/sender/%40alice%3Aexample.org?before=x\n\n{\"actions\":[\"dont_notify\"]}",
    "PUT\n/_matrix/client/v3/pushrules/global/underride/u\n\n{\"actions\":[\"notify\"],\"conditions\":[]}",
];
const HTTP_C_JOIN_ROOM: &[&str] = &[
    "POST\n/_matrix/client/v3/rooms/%21room%3Aexample.org/join\nContent-Type: application/json\n\n{\"reason\":\"because\",\"third_party_signed\":{\"sender\":\"@alice:example.org\",\"mxid\":\"@bob:example.org\",\"token\":\"random8nonce\",\"signatures\":{\"example.org\":{\"ed25519:0\":\"some9signature\"}}}}",
    "POST\n/_matrix/client/v3/rooms/!r:e.org/join\n\n{}",
];
const HTTP_C_SEND_STATE: &[&str] = &[
    "PUT\n/_matrix/client/v3/rooms/%21room%3Aexample.org/state/m.room.name/\nContent-Type: application/json\n\n{\"name\":\"New name\"}",
    "PUT\n/_matrix/client/v3/rooms/%21room%3Aexample.org/state/m.room.member/%40bob%3Aexample.org?ts=5\n\n{\"membership\":\"invite\"}",
    "PUT\n/_matrix/client/v3/rooms/%21room%3Aexample.org/state/m.room.topic\n\n{\"topic\":\"t\"}",
];
const HTTP_C_CREATE_FILTER: &[&str] = &[
    "POST\n/_matrix/client/v3/user/%40alice%3Aexample.org/filter\nContent-Type: application/json\n\n{\"room\":{\"state\":{\"types\":[\"m.room.*\"],\"not_rooms\":[\"!726s6s6q:example.com\"],\"lazy_load_members\":true},\"timeline\":{\"limit\":10,\"types\":[\"m.room.message\"],\"not_rooms\":[\"!726s6s6q:example.com\"],\"not_senders\":[\"@spam:example.com\"],\"contains_url\":true},\"ephemeral\":{\"types\":[\"m.receipt\",\"m.typing\"],\"not_rooms\":[\"!726s6s6q:example.com\"],\"not_senders\":[\"@spam:example.com\"]},\"rooms\":[\"!r:e.org\"],\"include_leave\":true},\"presence\":{\"types\":[\"m.presence\"],\"not_senders\":[\"@alice:example.com\"]},\"account_data\":{\"limit\":1},\"event_format\":\"client\",\"event_fields\":[\"type\",\"content\",\"sender\"]}",
    "POST\n/_matrix/client/r0/user/@a:b/filter\n\n{}",
];
const HTTP_C_CREATE_CONTENT: &[&str] = &[
    "POST\n/_matrix/media/v3/upload?filename=War+and+Peace.pdf\nContent-Type: application/pdf\nAuthorization: Bearer t\n\n%PDF-1.4 binary \x00\x01\x02",
    "POST\n/_matrix/media/r0/upload\n\n",
];
const HTTP_F_SEND_TRANSACTION: &[&str] = &[
    "PUT\n/_matrix/federation/v1/send/txn123\nAuthorization: X-Matrix origin=\"origin.example\",destination=\"dest.example\",key=\"ed25519:1\",sig=\"c2ln\"\nContent-Type: application/json\n\n{\"origin\":\"origin.example\",\"origin_server_ts\":1234567890,\"pdus\":[{\"room_id\":\"!room:example.org\",\"sender\":\"@alice:example.org\",\"origin_server_ts\":1000,\"type\":\"m.room.message\",\"content\":{\"msgtype\":\"m.text\",\"body\":\"hi\"},\"prev_events\":[\"$Rqnc-F-dvnEYJTyHq_iKxU2bZ1CI92-kuZq3a5lr5Zg\"],\"depth\":12,\"auth_events\":[],\"hashes\":{\"sha256\":\"x\"},\"signatures\":{\"example.org\":{\"ed25519:1\":\"sig\"}}}],\"edus\":[{\"edu_type\":\"m.typing\",\"content\":{\"room_id\":\"!room:example.org\",\"user_id\":\"@alice:example.org\",\"typing\":true}},{\"edu_type\":\"m.presence\",\"content\":{\"push\":[{\"user_id\":\"@alice:example.org\",\"presence\":\"online\",\"last_active_ago\":5,\"currently_active\":true,\"status_msg\":\"x\"}]}},{\"edu_type\":\"m.receipt\",\"content\":{\"!room:example.org\":{\"m.read\":{\"@alice:example.org\":{\"data\":{\"ts\":1},\"event_ids\":[\"$e:example.org\"]}}}}},{\"edu_type\":\"m.device_list_update\",\"content\":{\"user_id\":\"@alice:example.org\",\"device_id\":\"D\",\"stream_id\":6,\"prev_id\":[5],\"deleted\":false,\"device_display_name\":\"Mobile\",\"keys\":{\"user_id\":\"@alice:example.org\",\"device_id\":\"D\",\"algorithms\":[\"m.olm.v1.curve25519-aes-sha2\"],\"keys\":{\"ed25519:D\":\"k\"},\"signatures\":{\"@alice:example.org\":{\"ed25519:D\":\"s\"}}}}},{\"edu_type\":\"m.direct_to_device\",\"content\":{\"sender\":\"@alice:example.org\",\"type\":\"m.dummy\",\"message_id\":\"m1\",\"messages\":{\"@bob:example.org\":{\"*\":{}}}}},{\"edu_type\":\"m.signing_key_update\",\"content\":{\"user_id\":\"@alice:example.org\",\"master_key\":{\"user_id\":\"@alice:example.org\",\"usage\":[\"master\"],\"keys\":{\"ed25519:base64+master+public+key\":\"base64+master+public+key\"}}}},{\"edu_type\":\"org.custom\",\"content\":{\"x\":1}}]}",
    "PUT\n/_matrix/federation/v1/send/t\n\n{\"origin\":\"a.b\",\"origin_server_ts\":0,\"pdus\":[]}",
];
const HTTP_F_CREATE_JOIN: &[&str] = &[
    "PUT\n/_matrix/federation/v2/send_join/%21room%3Aexample.org/%24event%3Aexample.org?omit_members=true\nContent-Type: application/json\n\n{\"room_id\":\"!room:example.org\",\"sender\":\"@bob:other.org\",\"origin_server_ts\":1000,\"type\":\"m.room.member\",\"state_key\":\"@bob:other.org\",\"content\":{\"membership\":\"join\"},\"prev_events\":[],\"depth\":3,\"auth_events\":[],\"hashes\":{\"sha256\":\"x\"},\"signatures\":{}}",
    "PUT\n/_matrix/federation/v2/send_join/!r:e.org/$e\n\n{}",
];
const HTTP_F_GET_MISSING_EVENTS: &[&str] = &[
    "POST\n/_matrix/federation/v1/get_missing_events/%21room%3Aexample.org\nContent-Type: application/json\n\n{\"limit\":10,\"min_depth\":0,\"earliest_events\":[\"$missing_event:example.org\"],\"latest_events\":[\"$event_that_has_the_missing_event_as_a_previous_event:example.org\",\"$Rqnc-F-dvnEYJTyHq_iKxU2bZ1CI92-kuZq3a5lr5Zg\"]}",
    "POST\n/_matrix/federation/v1/get_missing_events/!r:e.org\n\n{\"earliest_events\":[],\"latest_events\":[]}",
];
const HTTP_A_PUSH_EVENTS: &[&str] = &[
    "PUT\n/_matrix/app/v1/transactions/35\nAuthorization: Bearer hs_token\nContent-Type: application/json\n\n{\"events\":[{\"type\":\"m.room.message\",\"event_id\":\"$m1:example.org\",\"room_id\":\"!room:example.org\",\"sender\":\"@alice:example.org\",\"origin_server_ts\":2000,\"content\":{\"msgtype\":\"m.text\",\"body\":\"hi\"}},{\"type\":\"m.room.member\",\"event_id\":\"$j:example.org\",\"room_id\":\"!room:example.org\",\"sender\":\"@alice:example.org\",\"origin_server_ts\":1,\"state_key\":\"@alice:example.org\",\"content\":{\"membership\":\"join\"}}],\"ephemeral\":[{\"type\":\"m.typing\",\"room_id\":\"!room:example.org\",\"content\":{\"user_ids\":[]}}],\"to_device\":[]}",
    "PUT\n/_matrix/app/v1/transactions/a%20b\n\n{\"events\":[]}",
];
const HTTP_I_LOOKUP_3PID: &[&str] = &[
    "POST\n/_matrix/identity/v2/lookup\nAuthorization: Bearer t\nContent-Type: application/json\n\n{\"algorithm\":\"sha256\",\"pepper\":\"matrixrocks\",\"addresses\":[\"4kenr7N9drpCJ4AfalmlGQVsOn3o2RHjkADUpXJWZUc\",\"nlo35_T5fzSGZzJApqu8lgIudJvmOQtDaHtr-I4rU7I\"]}",
    "POST\n/_matrix/identity/v2/lookup\n\n{\"algorithm\":\"none\",\"pepper\":\"p\",\"addresses\":[\"alice@example.org email\",\"18005552067 msisdn\"]}",
];
const HTTP_I_STORE_INVITATION: &[&str] = &[
    "POST\n/_matrix/identity/v2/store-invite\nAuthorization: Bearer t\nContent-Type: application/json\n\n{\"medium\":\"email\",\"address\":\"foo@example.com\",\"room_id\":\"!something:example.org\",\"sender\":\"@bob:example.com\",\"room_alias\":\"#somewhere:example.org\",\"room_avatar_url\":\"mxc://example.org/s0meM3dia\",\"room_join_rules\":\"public\",\"room_name\":\"Bob's Emporium of Messages\",\"room_type\":\"m.space\",\"sender_display_name\":\"Bob Smith\",\"sender_avatar_url\":\"mxc://example.org/an0th3rM3dia\"}",
    "POST\n/_matrix/identity/v2/store-invite\n\n{\"medium\":\"email\",\"address\":\"a@b.c\",\"room_id\":\"!r:e.org\",\"sender\":\"@a:b\"}",
];
const HTTP_P_SEND_EVENT_NOTIFICATION: &[&str] = &[
    "POST\n/_matrix/push/v1/notify\nContent-Type: application/json\n\n{\"notification\":{\"event_id\":\"$3957tyerfgewrf384\",\"room_id\":\"!slw48wfj34rtnrf:example.com\",\"type\":\"m.room.message\",\"sender\":\"@exampleuser:matrix.org\",\"sender_display_name\":\"Major Tom\",\"room_name\":\"Mission Control\",\"room_alias\":\"#exampleroom:matrix.org\",\"user_is_target\":false,\"prio\":\"high\",\"content\":{\"msgtype\":\"m.text\",\"body\":\"I'm floating in a most peculiar way.\"},\"counts\":{\"unread\":2,\"missed_calls\":1},\"devices\":[{\"app_id\":\"org.matrix.matrixConsole.ios\",\"pushkey\":\"V2h5IG9uIGVhcnRoIGRpZCB5b3UgZGVjb2RlIHRoaXM/\",\"pushkey_ts\":12345678,\"data\":{\"format\":\"event_id_only\",\"default_payload\":{\"aps\":{\"sound\":\"default\"}}},\"tweaks\":{\"sound\":\"bing\",\"highlight\":true,\"custom\":{\"x\":1}}}]}}",
    "POST\n/_matrix/push/v1/notify\n\n{\"notification\":{\"devices\":[]}}",
];
const HTTP_R_SYNC_RESPONSE: &[&str] = &[
    "200\nContent-Type: application/json\n\n{\"next_batch\":\"s72595_4483_1934\",\"presence\":{\"events\":[{\"type\":\"m.presence\",\"sender\":\"@example:localhost\",\"content\":{\"presence\":\"online\",\"last_active_ago\":2478593}}]},\"account_data\":{\"events\":[{\"type\":\"org.example.custom.config\",\"content\":{\"custom_config_key\":\"custom_config_value\"}}]},\"to_device\":{\"events\":[{\"type\":\"m.dummy\",\"sender\":\"@a:b\",\"content\":{}}]},\"device_lists\":{\"changed\":[\"@alice:example.com\"],\"left\":[\"@bob:example.com\"]},\"device_one_time_keys_count\":{\"signed_curve25519\":50},\"device_unused_fallback_key_types\":[\"signed_curve25519\"],\"rooms\":{\"join\":{\"!726s6s6q:example.com\":{\"summary\":{\"m.heroes\":[\"@alice:example.com\",\"@bob:example.com\"],\"m.joined_member_count\":2,\"m.invited_member_count\":0},\"state\":{\"events\":[{\"type\":\"m.room.member\",\"event_id\":\"$j:e.com\",\"sender\":\"@alice:example.org\",\"origin_server_ts\":1,\"state_key\":\"@alice:example.org\",\"content\":{\"membership\":\"join\"}}]},\"timeline\":{\"events\":[{\"type\":\"m.room.message\",\"event_id\":\"$m:e.com\",\"sender\":\"@alice:example.org\",\"origin_server_ts\":2,\"content\":{\"msgtype\":\"m.text\",\"body\":\"hi\"}}],\"limited\":true,\"prev_batch\":\"t34-23535_0_0\"},\"ephemeral\":{\"events\":[{\"type\":\"m.typing\",\"content\":{\"user_ids\":[\"@alice:matrix.org\"]}}]},\"account_data\":{\"events\":[{\"type\":\"m.tag\",\"content\":{\"tags\":{\"u.work\":{\"order\":0.9}}}}]},\"unread_notifications\":{\"highlight_count\":1,\"notification_count\":5},\"unread_thread_notifications\":{\"$t:e.com\":{\"highlight_count\":3,\"notification_count\":6}}}},\"invite\":{\"!696r7674:example.com\":{\"invite_state\":{\"events\":[{\"type\":\"m.room.name\",\"sender\":\"@alice:example.com\",\"state_key\":\"\",\"content\":{\"name\":\"My Room Name\"}}]}}},\"knock\":{\"!223asd456:example.com\":{\"knock_state\":{\"events\":[{\"type\":\"m.room.member\",\"sender\":\"@bob:example.com\",\"state_key\":\"@bob:example.com\",\"content\":{\"membership\":\"knock\"}}]}}},\"leave\":{\"!l:example.com\":{\"timeline\":{\"events\":[]}}}}}",
    "200\n\n{\"next_batch\":\"x\"}",
    "429\nContent-Type: application/json\nRetry-After: 2\n\n{\"errcode\":\"M_LIMIT_EXCEEDED\",\"error\":\"Too many requests\",\"retry_after_ms\":2000}",
    "401\n\n{\"errcode\":\"M_UNKNOWN_TOKEN\",\"error\":\"x\",\"soft_logout\":true}",
];
const HTTP_R_SERVER_KEYS_RESPONSE: &[&str] = &[
    "200\nContent-Type: application/json\n\n{\"server_name\":\"example.org\",\"verify_keys\":{\"ed25519:abc123\":{\"key\":\"VGhpcyBzaG91bGQgYmUgYSByZWFsIGVkMjU1MTkgcGF5bG9hZA\"}},\"old_verify_keys\":{\"ed25519:0ldk3y\":{\"expired_ts\":1532645052628,\"key\":\"VGhpcyBzaG91bGQgYmUgeW91ciBvbGQga2V5J3MgZWQyNTUxOSBwYXlsb2Fk\"}},\"signatures\":{\"example.org\":{\"ed25519:auto2\":\"VGhpcyBzaG91bGQgYWN0dWFsbHkgYmUgYSBzaWduYXR1cmU\"}},\"valid_until_ts\":1652262000000}",
    "200\n\n{\"server_name\":\"[::1]:8448\",\"verify_keys\":{},\"old_verify_keys\":{},\"signatures\":{},\"valid_until_ts\":0}",
];
const HTTP_R_FED_MEDIA: &[&str] = &[
    "200\nContent-Type: multipart/mixed; boundary=abcdef\n\n--abcdef\r\nContent-Type: application/json\r\n\r\n{}\r\n--abcdef\r\nContent-Type: text/plain\r\nContent-Disposition: attachment; filename=\"my file.txt\"\r\n\r\nsome plain text\r\n--abcdef--",
    "200\nContent-Type: multipart/mixed; boundary=\"b 1\"\n\npreamble\r\n--b 1\r\nContent-Type: application/json\r\n\r\n{\"x\":1}\r\n--b 1\r\nLocation: https://cdn.example.org/ab/c1/2345.txt\r\n\r\n\r\n--b 1--\r\nepilogue",
    "200\nContent-Type: multipart/mixed; boundary=x\n\n--x\nContent-Type: application/json\n\n{}\n\r\n--x\n\nbinary \u{0}\u{1} data\r\n--x--",
    "404\nContent-Type: application/json\n\n{\"errcode\":\"M_NOT_FOUND\",\"error\":\"nope\"}",
];

const HTTP_R_STORE_INVITATION: &[&str] = &[
    "200\nContent-Type: application/json\n\n{\"token\":\"sometoken\",\"public_keys\":[{\"public_key\":\"GNJNmT7HUzsJ4pbSUd1Hr1pJLmcJwY1pwS9cGzmSOHU\",\"key_validity_url\":\"https://id.example.org/_matrix/identity/v2/pubkey/isvalid\"},{\"public_key\":\"o7mbBCRP1kaY6vnRfZIWgU1mpp8_gQ0RESq8pgpXBw0\",\"key_validity_url\":\"https://id.example.org/_matrix/identity/v2/pubkey/ephemeral/isvalid\"}],\"display_name\":\"f...@b...\"}",
    "200\nContent-Type: application/json\n\n{\"token\":\"t\",\"public_keys\":[{\"public_key\":\"GNJNmT7HUzsJ4pbSUd1Hr1pJLmcJwY1pwS9cGzmSOHU\",\"key_validity_url\":\"https://id.example.org/_matrix/identity/v2/pubkey/isvalid\"}],\"display_name\":\"x\"}",
    "200\nContent-Type: application/json\n\n{\"token\":\"t\",\"public_keys\":[{\"public_key\":\"GNJNmT7HUzsJ4pbSUd1Hr1pJLmcJwY1pwS9cGzmSOHU\",\"key_validity_url\":\"https://id.example.org/_matrix/identity/v2/pubkey/isvalid\"},{\"public_key\":\"o7mbBCRP1kaY6vnRfZIWgU1mpp8_gQ0RESq8pgpXBw0\",\"key_validity_url\":\"https://id.example.org/_matrix/identity/v2/pubkey/ephemeral/isvalid\"},{\"public_key\":\"GNJNmT7HUzsJ4pbSUd1Hr1pJLmcJwY1pwS9cGzmSOHU\",\"key_validity_url\":\"https://id.example.org/_matrix/identity/v2/pubkey/isvalid\"}],\"display_name\":\"x\"}",
    "200\nContent-Type: application/json\n\n{\"token\":\"t\",\"public_keys\":[],\"display_name\":\"x\"}",
    "403\nContent-Type: application/json\n\n{\"errcode\":\"M_FORBIDDEN\",\"error\":\"no\"}",
];
const HTTP_R_LOOKUP_3PID: &[&str] = &[
    "200\nContent-Type: application/json\n\n{\"mappings\":{\"4kenr7N9drpCJ4AfalmlGQVsOn3o2RHjkADUpXJWZUc\":\"@alice:example.org\",\"x\":\"@bob:example.org\"}}",
    "200\nContent-Type: application/json\n\n{\"mappings\":{}}",
];
const HTTP_R_GET_MISSING_EVENTS: &[&str] = &[
    "200\nContent-Type: application/json\n\n{\"events\":[{\"room_id\":\"!room:example.org\",\"sender\":\"@alice:example.org\",\"origin_server_ts\":1000,\"type\":\"m.room.message\",\"content\":{\"msgtype\":\"m.text\",\"body\":\"hi\"},\"prev_events\":[\"$Rqnc-F-dvnEYJTyHq_iKxU2bZ1CI92-kuZq3a5lr5Zg\"],\"depth\":12,\"auth_events\":[],\"hashes\":{\"sha256\":\"x\"},\"signatures\":{\"example.org\":{\"ed25519:1\":\"sig\"}}},{\"room_id\":\"!room:example.org\",\"sender\":\"@alice:example.org\",\"origin_server_ts\":1000,\"type\":\"m.room.message\",\"content\":{\"msgtype\":\"m.text\",\"body\":\"hi\"},\"prev_events\":[\"$Rqnc-F-dvnEYJTyHq_iKxU2bZ1CI92-kuZq3a5lr5Zg\"],\"depth\":12,\"auth_events\":[],\"hashes\":{\"sha256\":\"x\"},\"signatures\":{\"example.org\":{\"ed25519:1\":\"sig\"}}}]}",
    "200\nContent-Type: application/json\n\n{\"events\":[]}",
];
const HTTP_R_SEND_TRANSACTION: &[&str] = &[
    "200\nContent-Type: application/json\n\n{\"pdus\":{\"$1failed_event:example.org\":{\"error\":\"You are not allowed to send a message to this room.\"},\"$1successful_event:example.org\":{}}}",
    "200\nContent-Type: application/json\n\n{\"pdus\":{}}",
];
const HTTP_R_CREATE_JOIN: &[&str] = &[
    "200\nContent-Type: application/json\n\n{\"auth_chain\":[{\"room_id\":\"!room:example.org\",\"sender\":\"@alice:example.org\",\"origin_server_ts\":1000,\"type\":\"m.room.message\",\"content\":{\"msgtype\":\"m.text\",\"body\":\"hi\"},\"prev_events\":[\"$Rqnc-F-dvnEYJTyHq_iKxU2bZ1CI92-kuZq3a5lr5Zg\"],\"depth\":12,\"auth_events\":[],\"hashes\":{\"sha256\":\"x\"},\"signatures\":{\"example.org\":{\"ed25519:1\":\"sig\"}}}],\"state\":[{\"room_id\":\"!room:example.org\",\"sender\":\"@alice:example.org\",\"origin_server_ts\":1000,\"type\":\"m.room.message\",\"content\":{\"msgtype\":\"m.text\",\"body\":\"hi\"},\"prev_events\":[\"$Rqnc-F-dvnEYJTyHq_iKxU2bZ1CI92-kuZq3a5lr5Zg\"],\"depth\":12,\"auth_events\":[],\"hashes\":{\"sha256\":\"x\"},\"signatures\":{\"example.org\":{\"ed25519:1\":\"sig\"}}},{\"room_id\":\"!room:example.org\",\"sender\":\"@alice:example.org\",\"origin_server_ts\":1000,\"type\":\"m.room.message\",\"content\":{\"msgtype\":\"m.text\",\"body\":\"hi\"},\"prev_events\":[\"$Rqnc-F-dvnEYJTyHq_iKxU2bZ1CI92-kuZq3a5lr5Zg\"],\"depth\":12,\"auth_events\":[],\"hashes\":{\"sha256\":\"x\"},\"signatures\":{\"example.org\":{\"ed25519:1\":\"sig\"}}}],\"event\":{\"room_id\":\"!room:example.org\",\"sender\":\"@alice:example.org\",\"origin_server_ts\":1000,\"type\":\"m.room.message\",\"content\":{\"msgtype\":\"m.text\",\"body\":\"hi\"},\"prev_events\":[\"$Rqnc-F-dvnEYJTyHq_iKxU2bZ1CI92-kuZq3a5lr5Zg\"],\"depth\":12,\"auth_events\":[],\"hashes\":{\"sha256\":\"x\"},\"signatures\":{\"example.org\":{\"ed25519:1\":\"sig\"}}},\"members_omitted\":true,\"servers_in_room\":[\"example.org\",\"matrix.org\"]}",
    "200\nContent-Type: application/json\n\n{\"auth_chain\":[],\"state\":[]}",
];
const HTTP_R_GET_PUSHRULES: &[&str] = &[
    "200\nContent-Type: application/json\n\n{\"global\":{\"content\":[{\"actions\":[\"notify\",{\"set_tweak\":\"sound\",\"value\":\"default\"},{\"set_tweak\":\"highlight\"}],\"default\":true,\"enabled\":true,\"pattern\":\"alice\",\"rule_id\":\".m.rule.contains_user_name\"}],\"override\":[{\"actions\":[],\"conditions\":[],\"default\":true,\"enabled\":false,\"rule_id\":\".m.rule.master\"},{\"actions\":[\"notify\"],\"conditions\":[{\"kind\":\"event_match\",\"key\":\"content.msgtype\",\"pattern\":\"m.notice\"},{\"kind\":\"room_member_count\",\"is\":\"2\"},{\"kind\":\"sender_notification_permission\",\"key\":\"room\"},{\"kind\":\"event_property_is\",\"key\":\"k\",\"value\":1},{\"kind\":\"event_property_contains\",\"key\":\"k\",\"value\":\"x\"}],\"default\":false,\"enabled\":true,\"rule_id\":\"mine\"}],\"room\":[{\"actions\":[],\"default\":false,\"enabled\":true,\"rule_id\":\"!room:example.org\"}],\"sender\":[{\"actions\":[],\"default\":false,\"enabled\":true,\"rule_id\":\"@alice:example.org\"}],\"underride\":[]}}",
    "200\nContent-Type: application/json\n\n{\"global\":{}}",
];
const HTTP_R_GET_STATE: &[&str] = &[
    "200\nContent-Type: application/json\n\n[{\"content\":{\"join_rule\":\"public\"},\"event_id\":\"$1:example.org\",\"origin_server_ts\":1,\"room_id\":\"!r:example.org\",\"sender\":\"@a:example.org\",\"state_key\":\"\",\"type\":\"m.room.join_rules\"},{\"content\":{\"membership\":\"join\"},\"event_id\":\"$2:example.org\",\"origin_server_ts\":2,\"room_id\":\"!r:example.org\",\"sender\":\"@a:example.org\",\"state_key\":\"@a:example.org\",\"type\":\"m.room.member\"}]",
    "200\nContent-Type: application/json\n\n[]",
];

const HTTP_R_GET_CONTENT_RESPONSE: &[&str] = &[
    "200\nContent-Type: image/png\nContent-Disposition: attachment; filename*=utf-8''%E2%82%AC%20rates.png\n\n\u{89}PNG binary",
    "200\nContent-Disposition: inline; filename=\"a b.txt\"\n\nhello",
    "200\n\n",
    "404\nContent-Type: application/json\n\n{\"errcode\":\"M_NOT_FOUND\",\"error\":\"nope\"}",
];

const STATERES: &[&str] = &[
    r###"[{"event_id":"$create","room_id":"!room:example.org","sender":"@alice:example.org","type":"m.room.create","content":{"creator":"@alice:example.org","room_version":"6"},"state_key":"","origin_server_ts":0,"prev_events":[],"auth_events":[]},{"event_id":"$alice-join","room_id":"!room:example.org","sender":"@alice:example.org","type":"m.room.member","content":{"membership":"join","displayname":"alice"},"state_key":"@alice:example.org","origin_server_ts":1,"prev_events":["$create"],"auth_events":["$create"]},{"event_id":"$pl","room_id":"!room:example.org","sender":"@alice:example.org","type":"m.room.power_levels","content":{"users":{"@alice:example.org":100},"invite":0,"kick":50,"ban":50,"redact":50,"state_default":50,"events_default":0,"users_default":0,"events":{"m.room.name":50},"notifications":{"room":50}},"state_key":"","origin_server_ts":2,"prev_events":["$alice-join"],"auth_events":["$create","$alice-join"]},{"event_id":"$jr","room_id":"!room:example.org","sender":"@alice:example.org","type":"m.room.join_rules","content":{"join_rule":"public"},"state_key":"","origin_server_ts":3,"prev_events":["$pl"],"auth_events":["$create","$alice-join","$pl"]},{"event_id":"$bob-join","room_id":"!room:example.org","sender":"@bob:example.org","type":"m.room.member","content":{"membership":"join"},"state_key":"@bob:example.org","origin_server_ts":4,"prev_events":["$jr"],"auth_events":["$create","$jr","$pl"]},{"event_id":"$pl2","room_id":"!room:example.org","sender":"@alice:example.org","type":"m.room.power_levels","content":{"users":{"@alice:example.org":100,"@bob:example.org":50}},"state_key":"","origin_server_ts":5,"prev_events":["$bob-join"],"auth_events":["$create","$alice-join","$pl"]},{"event_id":"$name-a","room_id":"!room:example.org","sender":"@alice:example.org","type":"m.room.name","content":{"name":"A"},"state_key":"","origin_server_ts":6,"prev_events":["$pl2"],"auth_events":["$create","$alice-join","$pl2"]},{"event_id":"$name-b","room_id":"!room:example.org","sender":"@bob:example.org","type":"m.room.name","content":{"name":"B"},"state_key":"","origin_server_ts":7,"prev_events":["$pl2"],"auth_events":["$create","$bob-join","$pl2"]},{"event_id":"$msg","room_id":"!room:example.org","sender":"@bob:example.org","type":"m.room.message","content":{"msgtype":"m.text","body":"hi"},"origin_server_ts":8,"prev_events":["$name-a","$name-b"],"auth_events":["$create","$bob-join","$pl2"]}]"###,
    r###"[{"event_id":"$create","room_id":"!room:example.org","sender":"@alice:example.org","type":"m.room.create","content":{"creator":"@alice:example.org","room_version":"10"},"state_key":"","origin_server_ts":0,"prev_events":[],"auth_events":[]},{"event_id":"$alice-join","room_id":"!room:example.org","sender":"@alice:example.org","type":"m.room.member","content":{"membership":"join"},"state_key":"@alice:example.org","origin_server_ts":1,"prev_events":["$create"],"auth_events":["$create"]},{"event_id":"$pl","room_id":"!room:example.org","sender":"@alice:example.org","type":"m.room.power_levels","content":{"users":{"@alice:example.org":100},"invite":50},"state_key":"","origin_server_ts":2,"prev_events":["$alice-join"],"auth_events":["$create","$alice-join"]},{"event_id":"$jr","room_id":"!room:example.org","sender":"@alice:example.org","type":"m.room.join_rules","content":{"join_rule":"restricted","allow":[{"type":"m.room_membership","room_id":"!space:example.org"}]},"state_key":"","origin_server_ts":3,"prev_events":["$pl"],"auth_events":["$create","$alice-join","$pl"]},{"event_id":"$carol-join","room_id":"!room:example.org","sender":"@carol:example.org","type":"m.room.member","content":{"membership":"join","join_authorised_via_users_server":"@alice:example.org"},"state_key":"@carol:example.org","origin_server_ts":4,"prev_events":["$jr"],"auth_events":["$create","$jr","$pl","$alice-join"]},{"event_id":"$tpi","room_id":"!room:example.org","sender":"@alice:example.org","type":"m.room.third_party_invite","content":{"display_name":"d","key_validity_url":"https://x","public_key":"fQpGIW1Snz+pwLZu6sTy2aHy/DYWWTspTJRPyNp0PKk","public_keys":[{"public_key":"fQpGIW1Snz+pwLZu6sTy2aHy/DYWWTspTJRPyNp0PKk"}]},"state_key":"tok","origin_server_ts":5,"prev_events":["$carol-join"],"auth_events":["$create","$alice-join","$pl"]},{"event_id":"$dave-invite","room_id":"!room:example.org","sender":"@alice:example.org","type":"m.room.member","content":{"membership":"invite","third_party_invite":{"display_name":"d","signed":{"mxid":"@dave:example.org","token":"tok","signatures":{"magic.forest":{"ed25519:3":"fQpGIW1Snz+pwLZu6sTy2aHy/DYWWTspTJRPyNp0PKkymfIsNffysMl6ObMMFdIJhk6g6pwlIqZ54rxo8SLmAg"}}}}},"state_key":"@dave:example.org","origin_server_ts":6,"prev_events":["$tpi"],"auth_events":["$create","$alice-join","$pl","$tpi","$jr"]},{"event_id":"$eve-knock","room_id":"!room:example.org","sender":"@eve:example.org","type":"m.room.member","content":{"membership":"knock"},"state_key":"@eve:example.org","origin_server_ts":7,"prev_events":["$dave-invite"],"auth_events":["$create","$jr","$pl"]},{"event_id":"$mallory-ban","room_id":"!room:example.org","sender":"@alice:example.org","type":"m.room.member","content":{"membership":"ban"},"state_key":"@mallory:example.org","origin_server_ts":8,"prev_events":["$eve-knock"],"auth_events":["$create","$alice-join","$pl"]},{"event_id":"$red","room_id":"!room:example.org","sender":"@alice:example.org","type":"m.room.redaction","content":{"redacts":"$eve-knock"},"redacts":"$eve-knock","origin_server_ts":9,"prev_events":["$mallory-ban"],"auth_events":["$create","$alice-join","$pl"]}]"###,
    r###"[{"event_id":"$c:example.org","room_id":"!room:example.org","sender":"@alice:example.org","type":"m.room.create","content":{"creator":"@alice:example.org"},"state_key":"","origin_server_ts":0,"prev_events":[],"auth_events":[]},{"event_id":"$j:example.org","room_id":"!room:example.org","sender":"@alice:example.org","type":"m.room.member","content":{"membership":"join"},"state_key":"@alice:example.org","origin_server_ts":1,"prev_events":["$c:example.org"],"auth_events":["$c:example.org"]},{"event_id":"$a:example.org","room_id":"!room:example.org","sender":"@alice:example.org","type":"m.room.aliases","content":{"aliases":["#r:example.org"]},"state_key":"example.org","origin_server_ts":2,"prev_events":["$j:example.org"],"auth_events":["$c:example.org","$j:example.org"]},{"event_id":"$h:example.org","room_id":"!room:example.org","sender":"@alice:example.org","type":"m.room.history_visibility","content":{"history_visibility":"shared"},"state_key":"","origin_server_ts":3,"prev_events":["$a:example.org"],"auth_events":["$c:example.org","$j:example.org"]},{"event_id":"$pl:example.org","room_id":"!room:example.org","sender":"@alice:example.org","type":"m.room.power_levels","content":{"users":{"@alice:example.org":"100"},"ban":"50"},"state_key":"","origin_server_ts":4,"prev_events":["$h:example.org"],"auth_events":["$c:example.org","$j:example.org"]}]"###,
];

fn strs(v: &[&str]) -> Vec<Vec<u8>> {
    v.iter().map(|s| s.as_bytes().to_vec()).collect()
}
fn cat(parts: &[&[&str]]) -> Vec<Vec<u8>> {
    parts.iter().flat_map(|p| strs(p)).collect()
}
fn hex(v: &[&str]) -> Vec<Vec<u8>> {
    v.iter()
        .map(|s| (0..s.len() / 2).map(|i| u8::from_str_radix(&s[2 * i..2 * i + 2], 16).unwrap_or(0)).collect())
        .collect()
}

/// Embedded seeds of an entry point; element 0 is the canary input.
pub fn embedded(name: &str) -> Vec<Vec<u8>> {
    match name {
        "id.user" => strs(ID_USER),
        "id.user_with_server" => strs(ID_USER_WITH_SERVER),
        "id.room" => strs(ID_ROOM),
        "id.room_alias" => strs(ID_ROOM_ALIAS),
        "id.room_or_alias" => strs(ID_ROOM_OR_ALIAS),
        "id.event" => strs(ID_EVENT),
        "id.server_name" => strs(ID_SERVER_NAME),
        "id.mxc" => strs(ID_MXC),
        "id.key_id" => cat(&[ID_DEVICE_KEY, ID_SIGNING_KEY_ANY, ID_SERVER_SIGNING_KEY, ID_CROSS_SIGNING_KEY, ID_CROSS_OR_DEVICE_KEY, ID_ONE_TIME_KEY]),
        "id.room_version" => strs(ID_ROOM_VERSION),
        "id.client_secret" => strs(ID_CLIENT_SECRET),
        "id.session" => strs(ID_SESSION),
        "id.opaque" => strs(ID_OPAQUE),
        "uri.matrix" => strs(URI_MATRIX),
        "uri.matrix_to" => strs(URI_MATRIX_TO),
        "hdr.x_matrix" | "hdr.x_matrix_str" => strs(HDR_X_MATRIX),
        "hdr.content_disposition" => strs(HDR_CONTENT_DISPOSITION),
        "b64.standard" => strs(B64_STANDARD),
        "b64.urlsafe" => strs(B64_URLSAFE),
        "ev.timeline" | "ev.sync_timeline" => cat(&[MESSAGE_EVENTS, STATE_EVENTS]),
        "ev.state" | "ev.sync_state" | "ev.stripped_state" => strs(STATE_EVENTS),
        "ev.to_device" => strs(TO_DEVICE_EVENTS),
        "ev.global_account_data" => strs(GLOBAL_ACCOUNT_DATA),
        "ev.room_account_data" => strs(ROOM_ACCOUNT_DATA),
        "ev.ephemeral" => strs(EPHEMERAL_EVENTS),
        "ev.presence" => strs(PRESENCE_EVENTS),
        "ev.pdu" => strs(PDUS),
        "ev.message_content" => strs(MESSAGE_CONTENTS),
        "ev.state_content" => strs(STATE_CONTENTS),
        "push.ruleset" => strs(RULESETS),
        "push.event" => cat(&[PUSH_EVENTS, MESSAGE_EVENTS]),
        "push.glob" => strs(PUSH_GLOB),
        "push.edits" => strs(PUSH_EDITS),
        "sig.canonical" | "sig.sign_json" => cat(&[SIGNED_EVENTS, SIGNED_JSON, STATE_EVENTS, MESSAGE_EVENTS]),
        "sig.redact" | "sig.hash_and_sign" | "sig.resign_verify" => cat(&[SIGNED_EVENTS, STATE_EVENTS, MESSAGE_EVENTS]),
        "sig.verify_json" => strs(SIGNED_JSON),
        "sig.verify_event" => strs(SIGNED_EVENTS),
        "sig.from_der" => hex(SIG_DER_HEX),
        "html.sanitize" | "html.sanitize_shared" | "html.helpers" | "html.matrix" => strs(HTML),
        "http.c.send_message" => strs(HTTP_C_SEND_MESSAGE),
        "http.c.sync" => strs(HTTP_C_SYNC),
        "http.c.set_pushrule" => strs(HTTP_C_SET_PUSHRULE),
        "http.c.join_room" => strs(HTTP_C_JOIN_ROOM),
        "http.c.send_state" => strs(HTTP_C_SEND_STATE),
        "http.c.create_filter" => strs(HTTP_C_CREATE_FILTER),
        "http.c.create_content" => strs(HTTP_C_CREATE_CONTENT),
        "http.f.send_transaction" => strs(HTTP_F_SEND_TRANSACTION),
        "http.f.create_join" => strs(HTTP_F_CREATE_JOIN),
        "http.f.get_missing_events" => strs(HTTP_F_GET_MISSING_EVENTS),
        "http.a.push_events" => strs(HTTP_A_PUSH_EVENTS),
        "http.i.lookup_3pid" => strs(HTTP_I_LOOKUP_3PID),
        "http.i.store_invitation" => strs(HTTP_I_STORE_INVITATION),
        "http.p.send_event_notification" => strs(HTTP_P_SEND_EVENT_NOTIFICATION),
        "http.r.sync_response" => strs(HTTP_R_SYNC_RESPONSE),
        "http.r.server_keys_response" => strs(HTTP_R_SERVER_KEYS_RESPONSE),
        "http.r.get_content_response" => strs(HTTP_R_GET_CONTENT_RESPONSE),
        "http.r.fed_media_content" | "http.r.fed_media_thumbnail" => strs(HTTP_R_FED_MEDIA),
        "http.r.store_invitation" => strs(HTTP_R_STORE_INVITATION),
        "http.r.lookup_3pid" => strs(HTTP_R_LOOKUP_3PID),
        "http.r.get_missing_events" => strs(HTTP_R_GET_MISSING_EVENTS),
        "http.r.send_transaction" => strs(HTTP_R_SEND_TRANSACTION),
        "http.r.create_join" => strs(HTTP_R_CREATE_JOIN),
        "http.r.get_pushrules" => strs(HTTP_R_GET_PUSHRULES),
        "http.r.get_state" => strs(HTTP_R_GET_STATE),
        "stateres.auth_types" | "stateres.auth_check" | "stateres.resolve" => strs(STATERES),
        _ => Vec::new(),
    }
}

/// Whether fixture files (whole file) / their array elements (single objects) are extra seeds.
pub fn wants_fixture_files(name: &str) -> bool {
    name.starts_with("stateres.")
}
pub fn wants_fixture_objects(name: &str) -> bool {
    matches!(
        name,
        "ev.timeline" | "ev.sync_timeline" | "ev.state" | "ev.sync_state" | "ev.stripped_state" | "push.event" | "sig.canonical" | "sig.redact" | "sig.sign_json"
            | "sig.hash_and_sign" | "sig.resign_verify" | "sig.verify_json" | "sig.verify_event"
    )
}

fn walk(dir: &Path, out: &mut Vec<PathBuf>) {
    let Ok(rd) = std::fs::read_dir(dir) else { return };
    let mut entries: Vec<PathBuf> = rd.filter_map(|e| e.ok().map(|e| e.path())).collect();
    entries.sort();
    for p in entries {
        if p.is_dir() {
            walk(&p, out);
        } else if p.extension().and_then(|e| e.to_str()) == Some("json") {
            out.push(p);
        }
    }
}

/// (path, bytes) of every `*.json` under `<repo>/crates/*/tests/`, sorted by path.
pub fn load_fixtures() -> Vec<(String, Vec<u8>)> {
    let repo = std::env::var("VERIF_REPO").unwrap_or_else(|_| "/repo".to_string());
    let crates = Path::new(&repo).join("crates");
    let mut files = Vec::new();
    let Ok(rd) = std::fs::read_dir(&crates) else { return Vec::new() };
    let mut dirs: Vec<PathBuf> = rd.filter_map(|e| e.ok().map(|e| e.path())).collect();
    dirs.sort();
    for d in dirs {
        walk(&d.join("tests"), &mut files);
    }
    files.sort();
    let mut out = Vec::new();
    for f in files {
        if let Ok(b) = std::fs::read(&f) {
            if b.len() <= crate::mutate::MAX_INPUT {
                out.push((f.display().to_string(), b));
            }
        }
    }
    out
}
