//! Seed corpus (DESIGN §6 "Seeds"): hand-written valid inputs per entry point, embedded in the
//! source, plus the JSON fixture files found under `/repo/crates/*/tests/` at run time (loaded by
//! the supervisor only, sorted by path, files > 70 KB skipped).
//!
//! The first embedded seed of every entry point is its canary input.

use std::path::{Path, PathBuf};

use crate::seeds_events::*;
use crate::seeds_gen::*;

const ID_USER: &[&str] = &[
    "@alice:example.org",
    "@a:b",
    "@alice:matrix.org:8448",
    "@user:[2001:db8::1]:8448",
    "@user:1.2.3.4",
    "@a.b_c=d-e/f+g:sub.example.com",
    "@Alice Bob:example.org",
    "@ALICE:example.org",
    "@\u{fc}n\u{ef}c\u{f6}de:example.org",
    "@:example.org",
    "@_irc_bridge_nick[away]:example.org",
];
const ID_USER_WITH_SERVER: &[&str] = &["alice", "@alice:example.org", "bob.b_c", "Carol", "@dave:other.org:8448"];
const ID_ROOM: &[&str] = &[
    "!room:example.org",
    "!abc123DEF:matrix.org:8448",
    "!r:[::1]",
    "!r:[2001:db8::1]:8448",
    "!31hneApxJ_1o-63DmFrpeqnkFfWppnzWso1JvH3ogLM",
    "!r\u{f6}om:example.org",
];
const ID_ROOM_ALIAS: &[&str] = &["#room:example.org", "#ruma:matrix.org:443", "#a b:example.org", "#\u{fc}\u{f1}\u{ed}:example.org", "#x:[::1]:80", "#a:b:1"];
const ID_ROOM_OR_ALIAS: &[&str] = &["!room:example.org", "#room:example.org", "#ruma:matrix.org:443", "!r:[::1]", "!31hneApxJ_1o-63DmFrpeqnkFfWppnzWso1JvH3ogLM"];
const ID_EVENT: &[&str] = &[
    "$event:example.org",
    "$Rqnc-F-dvnEYJTyHq_iKxU2bZ1CI92-kuZq3a5lr5Zg",
    "$acR1l0raoZnm60CBwAVgqbZqoO/mYU81xysh1u7XcJk",
    "$143273582443PhrSn:example.org:8448",
    "$e:[::1]",
];
const ID_SERVER_NAME: &[&str] = &[
    "example.org",
    "example.org:8448",
    "1.2.3.4",
    "1.2.3.4:80",
    "[2001:db8::1]",
    "[2001:db8::1]:8448",
    "localhost",
    "a-b.c-d.example",
    "[::ffff:1.2.3.4]:1",
    "EXAMPLE.ORG:65535",
];
const ID_MXC: &[&str] = &[
    "mxc://example.org/abcDEF123-_",
    "mxc://127.0.0.1/asd32asdfasdsd",
    "mxc://[::1]:8448/x",
    "mxc://matrix.org:8448/AQwafuaFswefuhsfAFAgsw",
    "mxc://a/b",
];
const ID_DEVICE_KEY: &[&str] = &["ed25519:JLAFKJWSCS", "a\u{e9}d25519:JLAFKJWSCS", "curve25519:ABCDEFGH", "signed_curve25519:AAAAHQ", "org.custom:dev ice", "ed25519:d\u{e9}vice"];
const ID_SIGNING_KEY_ANY: &[&str] = &["ed25519:1", "\u{e9}d25519:1", "ed25519:abc+/=", "ed25519:a_b", "org.custom:x:y", "ed25519:cl\u{e9}"];
const ID_SERVER_SIGNING_KEY: &[&str] = &["ed25519:1", "x\u{20ac}:1", "ed25519:a_Bc9", "ed25519:auto", "org.custom:k_1"];
const ID_CROSS_SIGNING_KEY: &[&str] = &["ed25519:nqOvzeuGWT/sRx3h7+MHoInYj3Uk2LD/unI9kDYcHwk", "ed25519:AAAA", "ed25519:b+/9"];
const ID_CROSS_OR_DEVICE_KEY: &[&str] = &["ed25519:nqOvzeuGWT/sRx3h7+MHoInYj3Uk2LD/unI9kDYcHwk", "ed25519:JLAFKJWSCS", "ed25519:dev-1"];
const ID_ONE_TIME_KEY: &[&str] = &["signed_curve25519:AAAAHQ", "\u{fc}ber_curve:AAAAHQ", "curve25519:AAAAHg", "signed_curve25519:a_b", "org.custom:k"];
const ID_ROOM_VERSION: &[&str] = &["1", "2", "3", "4", "5", "6", "7", "8", "9", "10", "11", "12", "org.custom.version", "org.matrix.msc2870"];
const ID_CLIENT_SECRET: &[&str] = &["this_1s_a_secret", "abc.=_-", "A", "0123456789abcdefghijklmnopqrstuvwxyzABCDEFGHIJKLMNOPQRSTUVWXYZ"];
const ID_SESSION: &[&str] = &["session_ID-1", "abc", "A.b=_-"];
const ID_OPAQUE: &[&str] = &["JLAFKJWSCS", "txn-123", "1", "0", "org.matrix.voip.v2", "d\u{e9}vice id", "m1234567890.1"];

const URI_MATRIX: &[&str] = &[
    "matrix:u/alice:example.org",
    "matrix:u/alice:example.org?action=chat",
    "matrix:r/room:example.org",
    "matrix:roomid/room:example.org?via=example.org&via=other.org&action=join",
    "matrix:r/room:example.org/e/event",
    "matrix:roomid/room:example.org/e/event:example.org?via=a.b",
    "matrix:u/a%2Fb:example.org",
    "matrix:roomid/room:example.org/e/abc?via=%5B%3A%3A1%5D%3A8448",
    "matrix:r/r%C3%B6om:example.org?action=org.custom",
    "matrix:user/alice:example.org:8448",
];
const URI_MATRIX_TO: &[&str] = &[
    "https://matrix.to/#/@alice:example.org",
    "https://matrix.to/#/%23room%3Aexample.org",
    "https://matrix.to/#/!room:example.org?via=example.org&via=b.c",
    "https://matrix.to/#/!room:example.org/$event:example.org?via=a.b",
    "https://matrix.to/#/#room:example.org/$event",
    "https://matrix.to/#/%21room%3Aexample.org/%24event%3Aexample.org?via=%5B%3A%3A1%5D",
    "https://matrix.to/#/#room:example.org:8448",
];
const HDR_X_MATRIX: &[&str] = &[
    r###"X-Matrix origin=origin.hs.example.com,destination=destination.hs.example.com,key="ed25519:key1",sig="dGVzdA==""###,
    r###"X-Matrix origin="origin.hs.example.com",key="ed25519:1",sig="ABCDefgh+/12""###,
    r###"x-matrix origin="a.b:8448",key="ed25519:a_b",sig="YWJj",destination="[::1]:80""###,
    r###"X-Matrix origin="origin.hs.example.com:8448",destination="a\.b",key="ed25519:a",sig="YQ",extra=1"###,
    r###"X-Matrix key="ed25519:1", origin=o.example, sig="YWJjZA", destination=d.example"###,
];
const HDR_CONTENT_DISPOSITION: &[&str] = &[
    r###"attachment; filename="my file.txt""###,
    "inline",
    "attachment; filename*=utf-8''%E2%82%AC%20rates.txt",
    r###"attachment; filename="EURO rates"; filename*=utf-8'en'%e2%82%ac%20rates"###,
    r###"form-data; name=x; filename="a\"b\\c.txt""###,
    "attachment;filename=plain.txt",
    "  Attachment ;  FileName*=UTF-8''na%C3%AFve%20file ; size=1",
    "attachment; filename*=iso-8859-1'en'%A3%20rates",
    "org.custom-type; filename=\"x\"",
];
const B64_STANDARD: &[&str] = &[
    "dGVzdA",
    "dGVzdA==",
    "",
    "AAECAwQFBgcICQ==",
    "+/+/",
    "fQpGIW1Snz+pwLZu6sTy2aHy/DYWWTspTJRPyNp0PKkymfIsNffysMl6ObMMFdIJhk6g6pwlIqZ54rxo8SLmAg",
    "YQ",
    "YWI=",
];
const B64_URLSAFE: &[&str] = &["dGVzdA", "-_-_", "AAECAwQFBgcICQ", "", "aWF6-32KGYaC3A_FEUCk1Bt0JA37zP0wrStgmdCaW-0", "YQ=="];

const PUSH_EVENTS: &[&str] = &[
    r###"{"type":"m.room.message","sender":"@alice:example.org","room_id":"!room:example.org","event_id":"$e1","origin_server_ts":1,"content":{"msgtype":"m.text","body":"hello Bob, @room look","m.mentions":{"user_ids":["@bob:example.org"],"room":true}}}"###,
    r###"{"type":"m.room.member","sender":"@alice:example.org","room_id":"!room:example.org","state_key":"@bob:example.org","event_id":"$e2","origin_server_ts":2,"content":{"membership":"invite"}}"###,
    r###"{"type":"m.room.message","sender":"@alice:example.org","content":{"body":"bob's here: BOB. böb","msgtype":"m.notice","a.b":{"c\\d":[1,"x",null,true,{}],"e":{}},"n":-5,"big":9007199254740991}}"###,
    r###"{"type":"m.room.tombstone","state_key":"","sender":"@alice:example.org","content":{"body":"x","replacement_room":"!n:e.org"}}"###,
    r###"{"type":"m.reaction","sender":"@alice:example.org","content":{"m.relates_to":{"rel_type":"m.annotation","event_id":"$e","key":"k"}}}"###,
    r###"{"type":"m.room.server_acl","state_key":"","content":{"allow":["*"]}}"###,
];
const PUSH_GLOB: &[&str] = &[
    "hello*\nhello world",
    "h?llo\nhello",
    "*\nanything at all",
    "[a-z]\nq",
    "wor*ld\nthe wor ld is",
    "a\\*b\na*b",
    "!room:*\n!room:example.org",
    "bob\nhi Bob! and bob's friends",
    "*a*b*c*d*e*\naxbxcxdxex",
    "\u{fc}ber*\n\u{dc}BER cool \u{fc}bermensch",
    "\n",
    "?\n\u{1F600}",
    // literal patterns that start with punctuation (the specification's own `@room`), met inside and between words
    "@room\nhello x@roomy, mail@rooms.example and @room look",
    "#tag\nsee#tagged #tag!",
    "\u{1F600}\nab\u{1F600}cd \u{1F600}",
    "-x\na-x-x b-x -x",
];
const PUSH_EDITS: &[&str] = &[
    r###"{"start":"server_default","ops":[{"op":"insert","kind":"override","rule_id":"a","actions":["notify"],"conditions":[{"kind":"event_match","key":"type","pattern":"m.room.message"}]},{"op":"insert","kind":"override","rule_id":"b","after":"a"},{"op":"insert","kind":"content","rule_id":"c","pattern":"c*","before":".m.rule.contains_user_name"},{"op":"set_enabled","kind":"override","rule_id":".m.rule.master","enabled":true},{"op":"set_actions","kind":"underride","rule_id":".m.rule.message","actions":["notify",{"set_tweak":"highlight","value":false}]},{"op":"remove","kind":"override","rule_id":"a"},{"op":"get","kind":"content","rule_id":"c"}]}"###,
    r###"{"start":"empty","ops":[{"op":"insert","kind":"underride","rule_id":"u1"},{"op":"insert","kind":"underride","rule_id":"u2","before":"u1"},{"op":"insert","kind":"underride","rule_id":"u1","after":"u2"},{"op":"insert","kind":"room","rule_id":"!room:example.org","actions":["dont_notify"]},{"op":"insert","kind":"sender","rule_id":"@alice:example.org","actions":[]},{"op":"remove","kind":"room","rule_id":"!room:example.org"}]}"###,
    r###"{"start":"server_default","ops":[{"op":"insert","kind":"content","rule_id":"x","pattern":"x"},{"op":"insert","kind":"content","rule_id":"y","pattern":"y","after":"x"},{"op":"insert","kind":"content","rule_id":"z","pattern":"z","after":"x","before":"y"},{"op":"insert","kind":"content","rule_id":"x","pattern":"x2","after":"$last"},{"op":"insert","kind":"content","rule_id":"y","pattern":"y2","before":"$first"},{"op":"remove","kind":"content","rule_id":".m.rule.contains_user_name"},{"op":"remove","kind":"content","rule_id":"missing"}]}"###,
    r###"{"start":"empty","ops":[{"op":"insert","kind":"override","rule_id":"o1"},{"op":"insert","kind":"override","rule_id":"o2","after":"o1"},{"op":"insert","kind":"override","rule_id":"o3","before":"o1"},{"op":"insert","kind":"override","rule_id":"o1","after":"o2"},{"op":"set_enabled","kind":"override","rule_id":"o3","enabled":false},{"op":"insert","kind":"override","rule_id":".m.dot"},{"op":"insert","kind":"override","rule_id":"sl/ash"}]}"###,
];

const SIG_DER_HEX: &[&str] = &[
    // PKCS#8 v2 (private + public key), the document of ruma-signatures' doc examples
    "3051020101300506032b657004220420d8e8cef75f6ec184b7a0c3fbb51fe0f889fd8bd33575769883dcfed0344feead812100dd33eb6937335640cf4d1697e0af807d4bb2c7b333ab551a7d35f2a67974b769",
    // PKCS#8 v1 (private key only): crates/ruma-signatures/tests/keys/ed25519.der
    "302e020100300506032b6570042204203e1d3b892c203670b7e938204a189a934b611d4ade7d4daeb749aa0ac590b0a2",
    // the same key pair as written by `ring` (malformed public-key suffix; `ring-compat` path)
    "3053020101300506032b657004220420d8e8cef75f6ec184b7a0c3fbb51fe0f889fd8bd33575769883dcfed0344feeada123032100dd33eb6937335640cf4d1697e0af807d4bb2c7b333ab551a7d35f2a67974b769",
];

const HTML: &[&str] = &[
    r###"<mx-reply><blockquote><a href="https://matrix.to/#/!room:example.org/$event:example.org">In reply to</a> <a href="https://matrix.to/#/@alice:example.org">@alice:example.org</a><br>original</blockquote></mx-reply><p>This is a <b>reply</b> with <i>markup</i>.</p>"###,
    r###"<h1>h1</h1><h2>h2</h2><h3>h3</h3><h4>h4</h4><h5>h5</h5><h6>h6</h6><blockquote>q</blockquote><p>p</p><a href="https://example.org" name="n" target="_blank" rel="noopener">a</a><ul><li>u</li></ul><ol start="3"><li>o</li></ol><sup>sup</sup><sub>sub</sub><b>b</b><i>i</i><u>u</u><strong>s</strong><em>e</em><s>s</s><del>d</del><strike>k</strike><code class="language-rust">fn main() {}</code><hr><br><div data-mx-maths="x^2">div</div><table><caption>c</caption><thead><tr><th>h</th></tr></thead><tbody><tr><td>d</td></tr></tbody></table><pre><code>pre</code></pre><span data-mx-bg-color="#00ff00" data-mx-color="#ff0000" data-mx-spoiler="reason" data-mx-maths="y">span</span><img width="10" height="10" alt="alt" title="t" src="mxc://example.org/img"><details><summary>sum</summary>det</details><font color="#ff0000" data-mx-color="#00ff00" data-mx-bg-color="#0000ff">font</font>"###,
    r###"<script>alert(1)</script><style>p{}</style><iframe src="x"></iframe><a href="javascript:alert(1)">bad</a><a href="matrix:u/alice:example.org">m</a><a href="mailto:a@b.c">mail</a><a href="magnet:?xt=1">mag</a><img src="https://evil.example/x.png" onerror="x()"><p class="language-x other" style="color:red" onclick="x">cls</p><code class="language-rust notlang">c</code><unknown-tag attr="1">u<nested>n</nested></unknown-tag><!-- comment --><svg><circle r="1"/></svg><math><mi>x</mi></math>"###,
    "plain text with &amp; entities &lt;b&gt; &#x1F600; &#0; &nbsp; and unterminated <b>bold <i>italic",
    "<div><div><div><div><div><div><div><div><div><div>deep</div></div></div></div></div></div></div></div></div></div>",
    "<mx-reply>only fallback</mx-reply>",
    "<p>before</p><mx-reply><mx-reply>nested</mx-reply></mx-reply><p>after</p><mx-reply>second</mx-reply>",
    "<table><tr><td><table><tr><td>nested table</td></tr></table></td></tr></table><select><option>o</option></select><template><p>t</p></template><noscript><p>n</p></noscript><textarea><b>raw</b></textarea><title>t</title><plaintext>rest <b>is</b> text",
    "> <@alice:example.org> quoted line\n> second quoted line\n\nthe actual reply",
];

const HTTP_C_SEND_MESSAGE: &[&str] = &[
    "PUT\n/_matrix/client/v3/rooms/%21room%3Aexample.org/send/m.room.message/txn1\nAuthorization: Bearer tok\nContent-Type: application/json\n\n{\"msgtype\":\"m.text\",\"body\":\"hi\"}",
    "PUT\n/_matrix/client/r0/rooms/!room:example.org/send/m.reaction/t%2Fxn?ts=1234\nContent-Type: application/json\n\n{\"m.relates_to\":{\"rel_type\":\"m.annotation\",\"event_id\":\"$e\",\"key\":\"k\"}}",
    "PUT\nhttps://hs.example.org:8448/_matrix/client/v3/rooms/%21r%3Ae.org/send/org.custom/x?access_token=t&ts=0\n\n{}",
];
const HTTP_C_SYNC: &[&str] = &[
    "GET\n/_matrix/client/v3/sync?since=s72594_4483_1934&timeout=30000&full_state=false&set_presence=offline&filter=66696p746572\nAuthorization: Bearer tok\n\n",
    "GET\n/_matrix/client/v3/sync?filter=%7B%22room%22%3A%7B%22timeline%22%3A%7B%22limit%22%3A10%2C%22types%22%3A%5B%22m.room.*%22%5D%7D%7D%2C%22event_fields%22%3A%5B%22content.body%22%5D%7D\n\n",
    "GET\n/_matrix/client/r0/sync\n\n",
    "HEAD\n/_matrix/client/v3/sync?timeout=0&use_state_after=true\n\n",
];
const HTTP_C_SET_PUSHRULE: &[&str] = &[
    "PUT\n/_matrix/client/v3/pushrules/global/override/my.rule?before=.m.rule.master&after=other\nContent-Type: application/json\n\n{\"actions\":[\"notify\",{\"set_tweak\":\"sound\",\"value\":\"default\"}],\"conditions\":[{\"kind\":\"event_match\",\"key\":\"type\",\"pattern\":\"m.room.message\"},{\"kind\":\"room_member_count\",\"is\":\">=2\"}]}",
    "PUT\n/_matrix/client/v3/pushrules/global/content/word\n\n{\"actions\":[\"notify\"],\"pattern\":\"w*rd\"}",
    "PUT\n/_matrix/client/v3/pushrules/global/room/%21room%3Aexample.org\n\n{\"actions\":[]}",
    "PUT\n/_matrix/client/v3/pushrules/global/sender/%40alice%3Aexample.org?before=x\n\n{\"actions\":[\"dont_notify\"]}",
    "PUT\n/_matrix/client/v3/pushrules/global/underride/u\n\n{\"actions\":[\"notify\"],\"conditions\":[]}",
];
const HTTP_C_JOIN_ROOM: &[&str] = &[
    "POST\n/_matrix/client/v3/rooms/%21room%3Aexample.org/join\nContent-Type: application/json\n\n{\"reason\":\"because\",\"third_party_signed\":{\"sender\":\"@alice:example.org\",\"mxid\":\"@bob:example.org\",\"token\":\"random8nonce\",\"signatures\":{\"example.org\":{\"ed25519:0\":\"some9signature\"}}}}",
    "POST\n/_matrix/client/v3/rooms/!r:e.org/join\n\n{}",
];
const HTTP_C_SEND_STATE: &[&str] = &[
    "PUT\n/_matrix/client/v3/rooms/%21room%3Aexample.org/state/m.room.name/\nContent-Type: application/json\n\n{\"name\":\"New name\"}",
    "PUT\n/_matrix/client/v3/rooms/%21room%3Aexample.org/state/m.room.member/%40bob%3Aexample.org?ts=5\n\n{\"membership\":\"invite\"}",
    "PUT\n/_matrix/client/v3/rooms/%21room%3Aexample.org/state/m.room.topic\n\n{\"topic\":\"t\"}",
];
const HTTP_C_CREATE_FILTER: &[&str] = &[
    "POST\n/_matrix/client/v3/user/%40alice%3Aexample.org/filter\nContent-Type: application/json\n\n{\"room\":{\"state\":{\"types\":[\"m.room.*\"],\"not_rooms\":[\"!726s6s6q:example.com\"],\"lazy_load_members\":true},\"timeline\":{\"limit\":10,\"types\":[\"m.room.message\"],\"not_rooms\":[\"!726s6s6q:example.com\"],\"not_senders\":[\"@spam:example.com\"],\"contains_url\":true},\"ephemeral\":{\"types\":[\"m.receipt\",\"m.typing\"],\"not_rooms\":[\"!726s6s6q:example.com\"],\"not_senders\":[\"@spam:example.com\"]},\"rooms\":[\"!r:e.org\"],\"include_leave\":true},\"presence\":{\"types\":[\"m.presence\"],\"not_senders\":[\"@alice:example.com\"]},\"account_data\":{\"limit\":1},\"event_format\":\"client\",\"event_fields\":[\"type\",\"content\",\"sender\"]}",
    "POST\n/_matrix/client/r0/user/@a:b/filter\n\n{}",
];
const HTTP_C_CREATE_CONTENT: &[&str] = &[
    "POST\n/_matrix/media/v3/upload?filename=War+and+Peace.pdf\nContent-Type: application/pdf\nAuthorization: Bearer t\n\n%PDF-1.4 binary \x00\x01\x02",
    "POST\n/_matrix/media/r0/upload\n\n",
];
const HTTP_F_SEND_TRANSACTION: &[&str] = &[
    "PUT\n/_matrix/federation/v1/send/txn123\nAuthorization: X-Matrix origin=\"origin.example\",destination=\"dest.example\",key=\"ed25519:1\",sig=\"c2ln\"\nContent-Type: application/json\n\n{\"origin\":\"origin.example\",\"origin_server_ts\":1234567890,\"pdus\":[{\"room_id\":\"!room:example.org\",\"sender\":\"@alice:example.org\",\"origin_server_ts\":1000,\"type\":\"m.room.message\",\"content\":{\"msgtype\":\"m.text\",\"body\":\"hi\"},\"prev_events\":[\"$Rqnc-F-dvnEYJTyHq_iKxU2bZ1CI92-kuZq3a5lr5Zg\"],\"depth\":12,\"auth_events\":[],\"hashes\":{\"sha256\":\"x\"},\"signatures\":{\"example.org\":{\"ed25519:1\":\"sig\"}}}],\"edus\":[{\"edu_type\":\"m.typing\",\"content\":{\"room_id\":\"!room:example.org\",\"user_id\":\"@alice:example.org\",\"typing\":true}},{\"edu_type\":\"m.presence\",\"content\":{\"push\":[{\"user_id\":\"@alice:example.org\",\"presence\":\"online\",\"last_active_ago\":5,\"currently_active\":true,\"status_msg\":\"x\"}]}},{\"edu_type\":\"m.receipt\",\"content\":{\"!room:example.org\":{\"m.read\":{\"@alice:example.org\":{\"data\":{\"ts\":1},\"event_ids\":[\"$e:example.org\"]}}}}},{\"edu_type\":\"m.device_list_update\",\"content\":{\"user_id\":\"@alice:example.org\",\"device_id\":\"D\",\"stream_id\":6,\"prev_id\":[5],\"deleted\":false,\"device_display_name\":\"Mobile\",\"keys\":{\"user_id\":\"@alice:example.org\",\"device_id\":\"D\",\"algorithms\":[\"m.olm.v1.curve25519-aes-sha2\"],\"keys\":{\"ed25519:D\":\"k\"},\"signatures\":{\"@alice:example.org\":{\"ed25519:D\":\"s\"}}}}},{\"edu_type\":\"m.direct_to_device\",\"content\":{\"sender\":\"@alice:example.org\",\"type\":\"m.dummy\",\"message_id\":\"m1\",\"messages\":{\"@bob:example.org\":{\"*\":{}}}}},{\"edu_type\":\"m.signing_key_update\",\"content\":{\"user_id\":\"@alice:example.org\",\"master_key\":{\"user_id\":\"@alice:example.org\",\"usage\":[\"master\"],\"keys\":{\"ed25519:base64+master+public+key\":\"base64+master+public+key\"}}}},{\"edu_type\":\"org.custom\",\"content\":{\"x\":1}}]}",
    "PUT\n/_matrix/federation/v1/send/t\n\n{\"origin\":\"a.b\",\"origin_server_ts\":0,\"pdus\":[]}",
];
const HTTP_F_CREATE_JOIN: &[&str] = &[
    "PUT\n/_matrix/federation/v2/send_join/%21room%3Aexample.org/%24event%3Aexample.org?omit_members=true\nContent-Type: application/json\n\n{\"room_id\":\"!room:example.org\",\"sender\":\"@bob:other.org\",\"origin_server_ts\":1000,\"type\":\"m.room.member\",\"state_key\":\"@bob:other.org\",\"content\":{\"membership\":\"join\"},\"prev_events\":[],\"depth\":3,\"auth_events\":[],\"hashes\":{\"sha256\":\"x\"},\"signatures\":{}}",
    "PUT\n/_matrix/federation/v2/send_join/!r:e.org/$e\n\n{}",
];
const HTTP_F_GET_MISSING_EVENTS: &[&str] = &[
    "POST\n/_matrix/federation/v1/get_missing_events/%21room%3Aexample.org\nContent-Type: application/json\n\n{\"limit\":10,\"min_depth\":0,\"earliest_events\":[\"$missing_event:example.org\"],\"latest_events\":[\"$event_that_has_the_missing_event_as_a_previous_event:example.org\",\"$Rqnc-F-dvnEYJTyHq_iKxU2bZ1CI92-kuZq3a5lr5Zg\"]}",
    "POST\n/_matrix/federation/v1/get_missing_events/!r:e.org\n\n{\"earliest_events\":[],\"latest_events\":[]}",
];
const HTTP_A_PUSH_EVENTS: &[&str] = &[
    "PUT\n/_matrix/app/v1/transactions/35\nAuthorization: Bearer hs_token\nContent-Type: application/json\n\n{\"events\":[{\"type\":\"m.room.message\",\"event_id\":\"$m1:example.org\",\"room_id\":\"!room:example.org\",\"sender\":\"@alice:example.org\",\"origin_server_ts\":2000,\"content\":{\"msgtype\":\"m.text\",\"body\":\"hi\"}},{\"type\":\"m.room.member\",\"event_id\":\"$j:example.org\",\"room_id\":\"!room:example.org\",\"sender\":\"@alice:example.org\",\"origin_server_ts\":1,\"state_key\":\"@alice:example.org\",\"content\":{\"membership\":\"join\"}}],\"ephemeral\":[{\"type\":\"m.typing\",\"room_id\":\"!room:example.org\",\"content\":{\"user_ids\":[]}}],\"to_device\":[]}",
    "PUT\n/_matrix/app/v1/transactions/a%20b\n\n{\"events\":[]}",
];
const HTTP_I_LOOKUP_3PID: &[&str] = &[
    "POST\n/_matrix/identity/v2/lookup\nAuthorization: Bearer t\nContent-Type: application/json\n\n{\"algorithm\":\"sha256\",\"pepper\":\"matrixrocks\",\"addresses\":[\"4kenr7N9drpCJ4AfalmlGQVsOn3o2RHjkADUpXJWZUc\",\"nlo35_T5fzSGZzJApqu8lgIudJvmOQtDaHtr-I4rU7I\"]}",
    "POST\n/_matrix/identity/v2/lookup\n\n{\"algorithm\":\"none\",\"pepper\":\"p\",\"addresses\":[\"alice@example.org email\",\"18005552067 msisdn\"]}",
];
const HTTP_I_STORE_INVITATION: &[&str] = &[
    "POST\n/_matrix/identity/v2/store-invite\nAuthorization: Bearer t\nContent-Type: application/json\n\n{\"medium\":\"email\",\"address\":\"foo@example.com\",\"room_id\":\"!something:example.org\",\"sender\":\"@bob:example.com\",\"room_alias\":\"#somewhere:example.org\",\"room_avatar_url\":\"mxc://example.org/s0meM3dia\",\"room_join_rules\":\"public\",\"room_name\":\"Bob's Emporium of Messages\",\"room_type\":\"m.space\",\"sender_display_name\":\"Bob Smith\",\"sender_avatar_url\":\"mxc://example.org/an0th3rM3dia\"}",
    "POST\n/_matrix/identity/v2/store-invite\n\n{\"medium\":\"email\",\"address\":\"a@b.c\",\"room_id\":\"!r:e.org\",\"sender\":\"@a:b\"}",
];
const HTTP_P_SEND_EVENT_NOTIFICATION: &[&str] = &[
    "POST\n/_matrix/push/v1/notify\nContent-Type: application/json\n\n{\"notification\":{\"event_id\":\"$3957tyerfgewrf384\",\"room_id\":\"!slw48wfj34rtnrf:example.com\",\"type\":\"m.room.message\",\"sender\":\"@exampleuser:matrix.org\",\"sender_display_name\":\"Major Tom\",\"room_name\":\"Mission Control\",\"room_alias\":\"#exampleroom:matrix.org\",\"user_is_target\":false,\"prio\":\"high\",\"content\":{\"msgtype\":\"m.text\",\"body\":\"I'm floating in a most peculiar way.\"},\"counts\":{\"unread\":2,\"missed_calls\":1},\"devices\":[{\"app_id\":\"org.matrix.matrixConsole.ios\",\"pushkey\":\"V2h5IG9uIGVhcnRoIGRpZCB5b3UgZGVjb2RlIHRoaXM/\",\"pushkey_ts\":12345678,\"data\":{\"format\":\"event_id_only\",\"default_payload\":{\"aps\":{\"sound\":\"default\"}}},\"tweaks\":{\"sound\":\"bing\",\"highlight\":true,\"custom\":{\"x\":1}}}]}}",
    "POST\n/_matrix/push/v1/notify\n\n{\"notification\":{\"devices\":[]}}",
];
const HTTP_R_SYNC_RESPONSE: &[&str] = &[
    "200\nContent-Type: application/json\n\n{\"next_batch\":\"s72595_4483_1934\",\"presence\":{\"events\":[{\"type\":\"m.presence\",\"sender\":\"@example:localhost\",\"content\":{\"presence\":\"online\",\"last_active_ago\":2478593}}]},\"account_data\":{\"events\":[{\"type\":\"org.example.custom.config\",\"content\":{\"custom_config_key\":\"custom_config_value\"}}]},\"to_device\":{\"events\":[{\"type\":\"m.dummy\",\"sender\":\"@a:b\",\"content\":{}}]},\"device_lists\":{\"changed\":[\"@alice:example.com\"],\"left\":[\"@bob:example.com\"]},\"device_one_time_keys_count\":{\"signed_curve25519\":50},\"device_unused_fallback_key_types\":[\"signed_curve25519\"],\"rooms\":{\"join\":{\"!726s6s6q:example.com\":{\"summary\":{\"m.heroes\":[\"@alice:example.com\",\"@bob:example.com\"],\"m.joined_member_count\":2,\"m.invited_member_count\":0},\"state\":{\"events\":[{\"type\":\"m.room.member\",\"event_id\":\"$j:e.com\",\"sender\":\"@alice:example.org\",\"origin_server_ts\":1,\"state_key\":\"@alice:example.org\",\"content\":{\"membership\":\"join\"}}]},\"timeline\":{\"events\":[{\"type\":\"m.room.message\",\"event_id\":\"$m:e.com\",\"sender\":\"@alice:example.org\",\"origin_server_ts\":2,\"content\":{\"msgtype\":\"m.text\",\"body\":\"hi\"}}],\"limited\":true,\"prev_batch\":\"t34-23535_0_0\"},\"ephemeral\":{\"events\":[{\"type\":\"m.typing\",\"content\":{\"user_ids\":[\"@alice:matrix.org\"]}}]},\"account_data\":{\"events\":[{\"type\":\"m.tag\",\"content\":{\"tags\":{\"u.work\":{\"order\":0.9}}}}]},\"unread_notifications\":{\"highlight_count\":1,\"notification_count\":5},\"unread_thread_notifications\":{\"$t:e.com\":{\"highlight_count\":3,\"notification_count\":6}}}},\"invite\":{\"!696r7674:example.com\":{\"invite_state\":{\"events\":[{\"type\":\"m.room.name\",\"sender\":\"@alice:example.com\",\"state_key\":\"\",\"content\":{\"name\":\"My Room Name\"}}]}}},\"knock\":{\"!223asd456:example.com\":{\"knock_state\":{\"events\":[{\"type\":\"m.room.member\",\"sender\":\"@bob:example.com\",\"state_key\":\"@bob:example.com\",\"content\":{\"membership\":\"knock\"}}]}}},\"leave\":{\"!l:example.com\":{\"timeline\":{\"events\":[]}}}}}",
    "200\n\n{\"next_batch\":\"x\"}",
    "429\nContent-Type: application/json\nRetry-After: 2\n\n{\"errcode\":\"M_LIMIT_EXCEEDED\",\"error\":\"Too many requests\",\"retry_after_ms\":2000}",
    "401\n\n{\"errcode\":\"M_UNKNOWN_TOKEN\",\"error\":\"x\",\"soft_logout\":true}",
];
const HTTP_R_SERVER_KEYS_RESPONSE: &[&str] = &[
    "200\nContent-Type: application/json\n\n{\"server_name\":\"example.org\",\"verify_keys\":{\"ed25519:abc123\":{\"key\":\"VGhpcyBzaG91bGQgYmUgYSByZWFsIGVkMjU1MTkgcGF5bG9hZA\"}},\"old_verify_keys\":{\"ed25519:0ldk3y\":{\"expired_ts\":1532645052628,\"key\":\"VGhpcyBzaG91bGQgYmUgeW91ciBvbGQga2V5J3MgZWQyNTUxOSBwYXlsb2Fk\"}},\"signatures\":{\"example.org\":{\"ed25519:auto2\":\"VGhpcyBzaG91bGQgYWN0dWFsbHkgYmUgYSBzaWduYXR1cmU\"}},\"valid_until_ts\":1652262000000}",
    "200\n\n{\"server_name\":\"[::1]:8448\",\"verify_keys\":{},\"old_verify_keys\":{},\"signatures\":{},\"valid_until_ts\":0}",
];
const HTTP_R_FED_MEDIA: &[&str] = &[
    "200\nContent-Type: multipart/mixed; boundary=abcdef\n\n--abcdef\r\nContent-Type: application/json\r\n\r\n{}\r\n--abcdef\r\nContent-Type: text/plain\r\nContent-Disposition: attachment; filename=\"my file.txt\"\r\n\r\nsome plain text\r\n--abcdef--",
    "200\nContent-Type: multipart/mixed; boundary=\"b 1\"\n\npreamble\r\n--b 1\r\nContent-Type: application/json\r\n\r\n{\"x\":1}\r\n--b 1\r\nLocation: https://cdn.example.org/ab/c1/2345.txt\r\n\r\n\r\n--b 1--\r\nepilogue",
    "200\nContent-Type: multipart/mixed; boundary=x\n\n--x\nContent-Type: application/json\n\n{}\n\r\n--x\n\nbinary \u{0}\u{1} data\r\n--x--",
    "404\nContent-Type: application/json\n\n{\"errcode\":\"M_NOT_FOUND\",\"error\":\"nope\"}",
];

const HTTP_R_STORE_INVITATION: &[&str] = &[
    "200\nContent-Type: application/json\n\n{\"token\":\"sometoken\",\"public_keys\":[{\"public_key\":\"GNJNmT7HUzsJ4pbSUd1Hr1pJLmcJwY1pwS9cGzmSOHU\",\"key_validity_url\":\"https://id.example.org/_matrix/identity/v2/pubkey/isvalid\"},{\"public_key\":\"o7mbBCRP1kaY6vnRfZIWgU1mpp8_gQ0RESq8pgpXBw0\",\"key_validity_url\":\"https://id.example.org/_matrix/identity/v2/pubkey/ephemeral/isvalid\"}],\"display_name\":\"f...@b...\"}",
    "200\nContent-Type: application/json\n\n{\"token\":\"t\",\"public_keys\":[{\"public_key\":\"GNJNmT7HUzsJ4pbSUd1Hr1pJLmcJwY1pwS9cGzmSOHU\",\"key_validity_url\":\"https://id.example.org/_matrix/identity/v2/pubkey/isvalid\"}],\"display_name\":\"x\"}",
    "200\nContent-Type: application/json\n\n{\"token\":\"t\",\"public_keys\":[{\"public_key\":\"GNJNmT7HUzsJ4pbSUd1Hr1pJLmcJwY1pwS9cGzmSOHU\",\"key_validity_url\":\"https://id.example.org/_matrix/identity/v2/pubkey/isvalid\"},{\"public_key\":\"o7mbBCRP1kaY6vnRfZIWgU1mpp8_gQ0RESq8pgpXBw0\",\"key_validity_url\":\"https://id.example.org/_matrix/identity/v2/pubkey/ephemeral/isvalid\"},{\"public_key\":\"GNJNmT7HUzsJ4pbSUd1Hr1pJLmcJwY1pwS9cGzmSOHU\",\"key_validity_url\":\"https://id.example.org/_matrix/identity/v2/pubkey/isvalid\"}],\"display_name\":\"x\"}",
    "200\nContent-Type: application/json\n\n{\"token\":\"t\",\"public_keys\":[],\"display_name\":\"x\"}",
    "403\nContent-Type: application/json\n\n{\"errcode\":\"M_FORBIDDEN\",\"error\":\"no\"}",
];
const HTTP_R_LOOKUP_3PID: &[&str] = &[
    "200\nContent-Type: application/json\n\n{\"mappings\":{\"4kenr7N9drpCJ4AfalmlGQVsOn3o2RHjkADUpXJWZUc\":\"@alice:example.org\",\"x\":\"@bob:example.org\"}}",
    "200\nContent-Type: application/json\n\n{\"mappings\":{}}",
];
const HTTP_R_GET_MISSING_EVENTS: &[&str] = &[
    "200\nContent-Type: application/json\n\n{\"events\":[{\"room_id\":\"!room:example.org\",\"sender\":\"@alice:example.org\",\"origin_server_ts\":1000,\"type\":\"m.room.message\",\"content\":{\"msgtype\":\"m.text\",\"body\":\"hi\"},\"prev_events\":[\"$Rqnc-F-dvnEYJTyHq_iKxU2bZ1CI92-kuZq3a5lr5Zg\"],\"depth\":12,\"auth_events\":[],\"hashes\":{\"sha256\":\"x\"},\"signatures\":{\"example.org\":{\"ed25519:1\":\"sig\"}}},{\"room_id\":\"!room:example.org\",\"sender\":\"@alice:example.org\",\"origin_server_ts\":1000,\"type\":\"m.room.message\",\"content\":{\"msgtype\":\"m.text\",\"body\":\"hi\"},\"prev_events\":[\"$Rqnc-F-dvnEYJTyHq_iKxU2bZ1CI92-kuZq3a5lr5Zg\"],\"depth\":12,\"auth_events\":[],\"hashes\":{\"sha256\":\"x\"},\"signatures\":{\"example.org\":{\"ed25519:1\":\"sig\"}}}]}",
    "200\nContent-Type: application/json\n\n{\"events\":[]}",
];
const HTTP_R_SEND_TRANSACTION: &[&str] = &[
    "200\nContent-Type: application/json\n\n{\"pdus\":{\"$1failed_event:example.org\":{\"error\":\"You are not allowed to send a message to this room.\"},\"$1successful_event:example.org\":{}}}",
    "200\nContent-Type: application/json\n\n{\"pdus\":{}}",
];
const HTTP_R_CREATE_JOIN: &[&str] = &[
    "200\nContent-Type: application/json\n\n{\"auth_chain\":[{\"room_id\":\"!room:example.org\",\"sender\":\"@alice:example.org\",\"origin_server_ts\":1000,\"type\":\"m.room.message\",\"content\":{\"msgtype\":\"m.text\",\"body\":\"hi\"},\"prev_events\":[\"$Rqnc-F-dvnEYJTyHq_iKxU2bZ1CI92-kuZq3a5lr5Zg\"],\"depth\":12,\"auth_events\":[],\"hashes\":{\"sha256\":\"x\"},\"signatures\":{\"example.org\":{\"ed25519:1\":\"sig\"}}}],\"state\":[{\"room_id\":\"!room:example.org\",\"sender\":\"@alice:example.org\",\"origin_server_ts\":1000,\"type\":\"m.room.message\",\"content\":{\"msgtype\":\"m.text\",\"body\":\"hi\"},\"prev_events\":[\"$Rqnc-F-dvnEYJTyHq_iKxU2bZ1CI92-kuZq3a5lr5Zg\"],\"depth\":12,\"auth_events\":[],\"hashes\":{\"sha256\":\"x\"},\"signatures\":{\"example.org\":{\"ed25519:1\":\"sig\"}}},{\"room_id\":\"!room:example.org\",\"sender\":\"@alice:example.org\",\"origin_server_ts\":1000,\"type\":\"m.room.message\",\"content\":{\"msgtype\":\"m.text\",\"body\":\"hi\"},\"prev_events\":[\"$Rqnc-F-dvnEYJTyHq_iKxU2bZ1CI92-kuZq3a5lr5Zg\"],\"depth\":12,\"auth_events\":[],\"hashes\":{\"sha256\":\"x\"},\"signatures\":{\"example.org\":{\"ed25519:1\":\"sig\"}}}],\"event\":{\"room_id\":\"!room:example.org\",\"sender\":\"@alice:example.org\",\"origin_server_ts\":1000,\"type\":\"m.room.message\",\"content\":{\"msgtype\":\"m.text\",\"body\":\"hi\"},\"prev_events\":[\"$Rqnc-F-dvnEYJTyHq_iKxU2bZ1CI92-kuZq3a5lr5Zg\"],\"depth\":12,\"auth_events\":[],\"hashes\":{\"sha256\":\"x\"},\"signatures\":{\"example.org\":{\"ed25519:1\":\"sig\"}}},\"members_omitted\":true,\"servers_in_room\":[\"example.org\",\"matrix.org\"]}",
    "200\nContent-Type: application/json\n\n{\"auth_chain\":[],\"state\":[]}",
];
const HTTP_R_GET_PUSHRULES: &[&str] = &[
    "200\nContent-Type: application/json\n\n{\"global\":{\"content\":[{\"actions\":[\"notify\",{\"set_tweak\":\"sound\",\"value\":\"default\"},{\"set_tweak\":\"highlight\"}],\"default\":true,\"enabled\":true,\"pattern\":\"alice\",\"rule_id\":\".m.rule.contains_user_name\"}],\"override\":[{\"actions\":[],\"conditions\":[],\"default\":true,\"enabled\":false,\"rule_id\":\".m.rule.master\"},{\"actions\":[\"notify\"],\"conditions\":[{\"kind\":\"event_match\",\"key\":\"content.msgtype\",\"pattern\":\"m.notice\"},{\"kind\":\"room_member_count\",\"is\":\"2\"},{\"kind\":\"sender_notification_permission\",\"key\":\"room\"},{\"kind\":\"event_property_is\",\"key\":\"k\",\"value\":1},{\"kind\":\"event_property_contains\",\"key\":\"k\",\"value\":\"x\"}],\"default\":false,\"enabled\":true,\"rule_id\":\"mine\"}],\"room\":[{\"actions\":[],\"default\":false,\"enabled\":true,\"rule_id\":\"!room:example.org\"}],\"sender\":[{\"actions\":[],\"default\":false,\"enabled\":true,\"rule_id\":\"@alice:example.org\"}],\"underride\":[]}}",
    "200\nContent-Type: application/json\n\n{\"global\":{}}",
];
const HTTP_R_GET_STATE: &[&str] = &[
    "200\nContent-Type: application/json\n\n[{\"content\":{\"join_rule\":\"public\"},\"event_id\":\"$1:example.org\",\"origin_server_ts\":1,\"room_id\":\"!r:example.org\",\"sender\":\"@a:example.org\",\"state_key\":\"\",\"type\":\"m.room.join_rules\"},{\"content\":{\"membership\":\"join\"},\"event_id\":\"$2:example.org\",\"origin_server_ts\":2,\"room_id\":\"!r:example.org\",\"sender\":\"@a:example.org\",\"state_key\":\"@a:example.org\",\"type\":\"m.room.member\"}]",
    "200\nContent-Type: application/json\n\n[]",
];

const HTTP_R_GET_CONTENT_RESPONSE: &[&str] = &[
    "200\nContent-Type: image/png\nContent-Disposition: attachment; filename*=utf-8''%E2%82%AC%20rates.png\n\n\u{89}PNG binary",
    "200\nContent-Disposition: inline; filename=\"a b.txt\"\n\nhello",
    "200\n\n",
    "404\nContent-Type: application/json\n\n{\"errcode\":\"M_NOT_FOUND\",\"error\":\"nope\"}",
];

// more endpoint conversions (generated once from a script, then maintained by hand)
const HTTP_C_GET_MESSAGE_EVENTS: &[&str] = &[
    "GET\n/_matrix/client/v3/rooms/%21room%3Aexample.org/messages?from=t47429-4392820_219380_26003_2265&to=t4357353_219380_26003_2265&dir=b&limit=3&filter=%7B%22types%22%3A%5B%22m.room.message%22%5D%2C%22not_senders%22%3A%5B%22%40spam%3Aexample.org%22%5D%2C%22contains_url%22%3Afalse%2C%22lazy_load_members%22%3Atrue%2C%22limit%22%3A5%7D\nAuthorization: Bearer tok\n\n",
    "GET\n/_matrix/client/r0/rooms/!r:e.org/messages?dir=f\n\n",
    "GET\n/_matrix/client/v3/rooms/%21room%3Aexample.org/messages?dir=b&filter=%7B%7D&limit=0&from=\n\n",
    "GET\n/_matrix/client/v3/rooms/%2131hneApxJ_1o-63DmFrpeqnkFfWppnzWso1JvH3ogLM/messages?filter=%7B%22rooms%22%3A%5B%22%21a%3Ab%22%5D%2C%22not_rooms%22%3A%5B%5D%2C%22senders%22%3A%5B%5D%2C%22not_types%22%3A%5B%22m.%2A%22%5D%2C%22include_redundant_members%22%3Atrue%2C%22unread_thread_notifications%22%3Atrue%7D&from=a+b%20c&dir=f&limit=9007199254740991\n\n",
];
const HTTP_C_GET_CONTEXT: &[&str] = &[
    "GET\n/_matrix/client/v3/rooms/%21room%3Aexample.org/context/%24event%3Aexample.org?limit=3&filter=%7B%22types%22%3A%5B%22m.room.message%22%5D%2C%22not_senders%22%3A%5B%22%40spam%3Aexample.org%22%5D%2C%22contains_url%22%3Afalse%2C%22lazy_load_members%22%3Atrue%2C%22limit%22%3A5%7D\nAuthorization: Bearer tok\n\n",
    "GET\n/_matrix/client/v3/rooms/!r:e.org/context/$Rqnc-F-dvnEYJTyHq_iKxU2bZ1CI92-kuZq3a5lr5Zg\n\n",
    "GET\n/_matrix/client/r0/rooms/%21room%3Aexample.org/context/%24acR1l0raoZnm60CBwAVgqbZqoO%2FmYU81xysh1u7XcJk?limit=0&filter=%7B%22rooms%22%3A%5B%22%21a%3Ab%22%5D%2C%22not_rooms%22%3A%5B%5D%2C%22senders%22%3A%5B%5D%2C%22not_types%22%3A%5B%22m.%2A%22%5D%2C%22include_redundant_members%22%3Atrue%2C%22unread_thread_notifications%22%3Atrue%7D\n\n",
];
const HTTP_C_LOGIN: &[&str] = &[
    "POST\n/_matrix/client/v3/login\nContent-Type: application/json\n\n{\"type\":\"m.login.password\",\"identifier\":{\"type\":\"m.id.user\",\"user\":\"cheeky_monkey\"},\"password\":\"ilovebananas\",\"device_id\":\"GHTYAJCE\",\"initial_device_display_name\":\"Jungle Phone\",\"refresh_token\":true}",
    "POST\n/_matrix/client/v3/login\n\n{\"type\":\"m.login.token\",\"token\":\"1234567890abcdef\"}",
    "POST\n/_matrix/client/v3/login\n\n{\"type\":\"org.custom.login\",\"foo\":{\"bar\":1},\"device_id\":\"D\"}",
    "POST\n/_matrix/client/r0/login\n\n{\"type\":\"m.login.password\",\"identifier\":{\"type\":\"m.id.thirdparty\",\"medium\":\"email\",\"address\":\"alice@example.org\"},\"password\":\"p\"}",
    "POST\n/_matrix/client/v3/login\nAuthorization: Bearer tok\n\n{\"type\":\"m.login.application_service\",\"identifier\":{\"type\":\"m.id.phone\",\"country\":\"GB\",\"phone\":\"07700900000\"}}",
    "POST\n/_matrix/client/v3/login\n\n{\"type\":\"m.login.password\",\"user\":\"alice\",\"medium\":\"org.custom.medium\",\"address\":\"x\",\"password\":\"p\",\"identifier\":{\"type\":\"m.id.thirdparty\",\"medium\":\"msisdn\",\"address\":\"447700900000\"}}",
];
const HTTP_C_REGISTER: &[&str] = &[
    "POST\n/_matrix/client/v3/register?kind=user\nContent-Type: application/json\n\n{\"username\":\"cheeky_monkey\",\"password\":\"ilovebananas\",\"device_id\":\"GHTYAJCE\",\"initial_device_display_name\":\"Jungle Phone\",\"inhibit_login\":false,\"refresh_token\":true,\"auth\":{\"type\":\"m.login.dummy\",\"session\":\"xxxxx\"}}",
    "POST\n/_matrix/client/v3/register?kind=guest\n\n{}",
    "POST\n/_matrix/client/v3/register\n\n{\"username\":\"u\",\"auth\":{\"type\":\"m.login.email.identity\",\"threepid_creds\":{\"sid\":\"123\",\"client_secret\":\"secret_1\",\"id_server\":\"id.example.org\",\"id_access_token\":\"tok\"},\"session\":\"s\"}}",
    "POST\n/_matrix/client/r0/register\n\n{\"auth\":{\"session\":\"abc\"}}",
    "POST\n/_matrix/client/v3/register\nAuthorization: Bearer tok\n\n{\"type\":\"m.login.application_service\",\"username\":\"_irc_bob\",\"inhibit_login\":true}",
    "POST\n/_matrix/client/v3/register\n\n{\"auth\":{\"type\":\"m.login.registration_token\",\"token\":\"fBVFdqVE\",\"session\":\"s\"},\"guest_access_token\":\"g\"}",
    "POST\n/_matrix/client/v3/register\n\n{\"auth\":{\"type\":\"org.custom.auth\",\"session\":\"s\",\"x\":[1,2]},\"password\":\"p\"}",
    "POST\n/_matrix/client/v3/register\n\n{\"auth\":{\"type\":\"m.login.password\",\"identifier\":{\"type\":\"m.id.user\",\"user\":\"@a:b\"},\"password\":\"p\",\"session\":\"s\"}}",
];
const HTTP_C_CREATE_ROOM: &[&str] = &[
    "POST\n/_matrix/client/v3/createRoom\nAuthorization: Bearer tok\nContent-Type: application/json\n\n{\"preset\":\"public_chat\",\"room_alias_name\":\"thepub\",\"name\":\"The Grand Duke Pub\",\"topic\":\"All about happy hour\",\"visibility\":\"public\",\"is_direct\":false,\"room_version\":\"11\",\"invite\":[\"@bob:example.org\",\"@carol:other.org:8448\"],\"invite_3pid\":[{\"id_server\":\"id.example.org\",\"id_access_token\":\"abc123\",\"medium\":\"email\",\"address\":\"cheeky@monkey.com\"}],\"initial_state\":[{\"type\":\"m.room.join_rules\",\"state_key\":\"\",\"content\":{\"join_rule\":\"public\"}},{\"type\":\"m.room.encryption\",\"content\":{\"algorithm\":\"m.megolm.v1.aes-sha2\"}}],\"power_level_content_override\":{\"users\":{\"@alice:example.org\":100},\"events_default\":0,\"state_default\":50,\"invite\":50,\"events\":{\"m.room.name\":50},\"notifications\":{\"room\":20}},\"creation_content\":{\"m.federate\":false,\"type\":\"m.space\",\"predecessor\":{\"room_id\":\"!old:example.org\",\"event_id\":\"$last:example.org\"}}}",
    "POST\n/_matrix/client/v3/createRoom\n\n{}",
    "POST\n/_matrix/client/r0/createRoom\n\n{\"preset\":\"trusted_private_chat\",\"is_direct\":true,\"invite\":[\"@a:b\"],\"visibility\":\"private\",\"invite_3pid\":[]}",
    "POST\n/_matrix/client/v3/createRoom\n\n{\"preset\":\"org.custom.preset\",\"room_version\":\"org.custom.version\",\"creation_content\":{\"additional_creators\":[\"@x:y\"],\"m.federate\":true},\"initial_state\":[{\"type\":\"org.custom.state\",\"state_key\":\"k\",\"content\":{}}],\"power_level_content_override\":{\"users\":{\"@a:b\":\"100\"}}}",
];
const HTTP_C_UPLOAD_KEYS: &[&str] = &[
    "POST\n/_matrix/client/v3/keys/upload\nAuthorization: Bearer tok\nContent-Type: application/json\n\n{\"device_keys\":{\"user_id\":\"@alice:example.com\",\"device_id\":\"JLAFKJWSCS\",\"algorithms\":[\"m.olm.v1.curve25519-aes-sha2\",\"m.megolm.v1.aes-sha2\"],\"keys\":{\"curve25519:JLAFKJWSCS\":\"3C5BFWi2Y8MaVvjM8M22DBmh24PmgR0nPvJOIArzgyI\",\"ed25519:JLAFKJWSCS\":\"lEuiRJBit0IG6nUf5pUzWTUEsRVVe/HJkoKuEww9ULI\"},\"signatures\":{\"@alice:example.com\":{\"ed25519:JLAFKJWSCS\":\"dSO80A01XiigH3uBiDVx/EjzaoycHcjq9lfQX0uWsqxl2giMIiSPR8a4d291W1ihKJL/a+myXS367WT6NAIcBA\"}}},\"one_time_keys\":{\"signed_curve25519:AAAAHg\":{\"key\":\"zKbLg+NrIjpnagy+pIY6uPL4ZwEG2v+8F9lmgsnlZzs\",\"signatures\":{\"@alice:example.com\":{\"ed25519:JLAFKJWSCS\":\"IQeCEPb9HFk217cU9kw9EOiusC6kMIkoIRnbnfOh5Oc63S1ghgyjShBGpu34blQomoalCyXWyhaaT3MrLZYQAA\"}}},\"signed_curve25519:AAAAHQ\":{\"key\":\"j3fR3HemM16M7CWhoI4Sk5ZsdmdfQHsKL1xuSft6MSw\",\"signatures\":{\"@alice:example.com\":{\"ed25519:JLAFKJWSCS\":\"FLWxXqGbwrb8SM3Y795eB6OA8bwBcoMZFXBqnTn58AYWZSqiD45tlBVcDa2L7RwdKXebW/VzDlnfVJ+9jok1Bw\"}}},\"curve25519:AAAAAQ\":\"/qyvZvwjiTxGdGU0RCguDCLeR+nmsb3FfNG3/Ve4vU8\"},\"fallback_keys\":{\"signed_curve25519:AAAAGj\":{\"key\":\"zKbLg+NrIjpnagy+pIY6uPL4ZwEG2v+8F9lmgsnlZzs\",\"signatures\":{\"@alice:example.com\":{\"ed25519:JLAFKJWSCS\":\"IQeCEPb9HFk217cU9kw9EOiusC6kMIkoIRnbnfOh5Oc63S1ghgyjShBGpu34blQomoalCyXWyhaaT3MrLZYQAA\"}},\"fallback\":true}}}",
    "POST\n/_matrix/client/v3/keys/upload\n\n{}",
    "POST\n/_matrix/client/r0/keys/upload\n\n{\"one_time_keys\":{\"org.custom:k\":\"x\",\"curve25519:a_b\":\"y\"},\"fallback_keys\":{}}",
];
const HTTP_C_SEND_TO_DEVICE: &[&str] = &[
    "PUT\n/_matrix/client/v3/sendToDevice/m.room_key_request/txn35\nAuthorization: Bearer tok\nContent-Type: application/json\n\n{\"messages\":{\"@alice:example.com\":{\"TLLBEANAAG\":{\"action\":\"request\",\"body\":{\"algorithm\":\"m.megolm.v1.aes-sha2\",\"room_id\":\"!Cuyf34gef24t:localhost\",\"session_id\":\"X3lUlvLELLYxeTx4yOVu6UDpasGEVO0Jbu+QFnm0cKQ\",\"sender_key\":\"RF3s+E7RkTQTGF2d8Deol0FkQvgII2aJDf3/Jp5mxVU\"},\"request_id\":\"1495474790150.19\",\"requesting_device_id\":\"RJYKSTBOIE\"}},\"@bob:example.org\":{\"*\":{\"action\":\"request_cancellation\",\"request_id\":\"r\",\"requesting_device_id\":\"D\"}}}}",
    "PUT\n/_matrix/client/r0/sendToDevice/m.dummy/t%20x\n\n{\"messages\":{}}",
    "PUT\n/_matrix/client/v3/sendToDevice/org.custom.type/m1234567890.1\n\n{\"messages\":{\"@a:b\":{\"d\u{e9}vice id\":{\"x\":[1,null,{\"y\":\"z\"}]},\"*\":{}}}}",
    "PUT\n/_matrix/client/v3/sendToDevice/m.room.encrypted/t\n\n{\"messages\":{\"@a:b\":{\"D\":{\"algorithm\":\"m.olm.v1.curve25519-aes-sha2\",\"sender_key\":\"k\",\"ciphertext\":{\"7qZcfnBmbEGzxxaWfBjElJuvn7BZx+lSz/SvFrDF/z8\":{\"type\":0,\"body\":\"AwogGJJzMhf\"}}}}}}",
];
const HTTP_C_SET_READ_MARKER: &[&str] = &[
    "POST\n/_matrix/client/v3/rooms/%21room%3Aexample.org/read_markers\nContent-Type: application/json\n\n{\"m.fully_read\":\"$somewhere:example.org\",\"m.read\":\"$elsewhere:example.org\",\"m.read.private\":\"$Rqnc-F-dvnEYJTyHq_iKxU2bZ1CI92-kuZq3a5lr5Zg\"}",
    "POST\n/_matrix/client/v3/rooms/!r:e.org/read_markers\n\n{}",
    "POST\n/_matrix/client/r0/rooms/%21room%3Aexample.org/read_markers\n\n{\"m.read.private\":\"$acR1l0raoZnm60CBwAVgqbZqoO/mYU81xysh1u7XcJk\"}",
];
const HTTP_C_SEARCH_USERS: &[&str] = &[
    "POST\n/_matrix/client/v3/user_directory/search\nAccept-Language: en-GB,en;q=0.8\nContent-Type: application/json\n\n{\"search_term\":\"foo\",\"limit\":10}",
    "POST\n/_matrix/client/r0/user_directory/search\n\n{\"search_term\":\"\"}",
    "POST\n/_matrix/client/v3/user_directory/search\naccept-language: *\n\n{\"search_term\":\"b\u{d8}b @x:y\",\"limit\":0}",
];
const HTTP_C_GET_KEYS: &[&str] = &[
    "POST\n/_matrix/client/v3/keys/query\nContent-Type: application/json\n\n{\"timeout\":10000,\"device_keys\":{\"@alice:example.com\":[],\"@bob:example.org\":[\"JLAFKJWSCS\",\"d2\"]}}",
    "POST\n/_matrix/client/v3/keys/query\n\n{\"device_keys\":{}}",
    "POST\n/_matrix/client/r0/keys/query\n\n{\"timeout\":0,\"device_keys\":{\"@a:[::1]:8448\":[\"*\"]},\"token\":\"ignored\"}",
];
const HTTP_C_SET_PRESENCE: &[&str] = &[
    "PUT\n/_matrix/client/v3/presence/%40alice%3Aexample.org/status\nContent-Type: application/json\n\n{\"presence\":\"online\",\"status_msg\":\"I am here.\"}",
    "PUT\n/_matrix/client/v3/presence/@a:b/status\n\n{\"presence\":\"unavailable\"}",
    "PUT\n/_matrix/client/r0/presence/%40alice%3Aexample.org%3A8448/status\n\n{\"presence\":\"org.custom.busy\",\"status_msg\":\"\"}",
    "PUT\n/_matrix/client/v3/presence/@a:b/status\n\n{\"presence\":\"offline\",\"status_msg\":null}",
];
const HTTP_C_UPLOAD_SIGNATURES: &[&str] = &[
    "POST\n/_matrix/client/v3/keys/signatures/upload\nContent-Type: application/json\n\n{\"@alice:example.com\":{\"HIJKLMN\":{\"user_id\":\"@alice:example.com\",\"device_id\":\"HIJKLMN\",\"algorithms\":[\"m.olm.v1.curve25519-aes-sha2\",\"m.megolm.v1.aes-sha2\"],\"keys\":{\"curve25519:JLAFKJWSCS\":\"3C5BFWi2Y8MaVvjM8M22DBmh24PmgR0nPvJOIArzgyI\",\"ed25519:JLAFKJWSCS\":\"lEuiRJBit0IG6nUf5pUzWTUEsRVVe/HJkoKuEww9ULI\"},\"signatures\":{\"@alice:example.com\":{\"ed25519:JLAFKJWSCS\":\"dSO80A01XiigH3uBiDVx/EjzaoycHcjq9lfQX0uWsqxl2giMIiSPR8a4d291W1ihKJL/a+myXS367WT6NAIcBA\"}}},\"base64+master+public+key\":{\"user_id\":\"@alice:example.com\",\"usage\":[\"master\"],\"keys\":{\"ed25519:base64+master+public+key\":\"base64+master+public+key\"},\"signatures\":{\"@alice:example.com\":{\"ed25519:HIJKLMN\":\"signature+of+master+key\"}}}}}",
    "POST\n/_matrix/client/v3/keys/signatures/upload\n\n{}",
    "POST\n/_matrix/client/unstable/keys/signatures/upload\n\n{\"@alice:example.com\":{},\"@bob:example.org\":{\"base64+master+public+key\":{\"user_id\":\"@bob:example.org\",\"usage\":[\"master\"],\"keys\":{\"ed25519:base64+master+public+key\":\"base64+master+public+key\"},\"signatures\":{\"@alice:example.com\":{\"ed25519:base64+user+signing+public+key\":\"sig\"}}}}}",
];
const HTTP_C_GET_RELATIONS: &[&str] = &[
    "GET\n/_matrix/client/v1/rooms/%21room%3Aexample.org/relations/%24event%3Aexample.org/m.annotation/m.reaction?from=page2_token&to=end&dir=f&limit=20&recurse=true\nAuthorization: Bearer tok\n\n",
    "GET\n/_matrix/client/v1/rooms/!r:e.org/relations/$e/m.thread/m.room.message\n\n",
    "GET\n/_matrix/client/unstable/rooms/!r:e.org/relations/$e/org.custom.rel/org.custom.event?dir=b&limit=0\n\n",
    "GET\n/_matrix/client/v1/rooms/%21room%3Aexample.org/relations/%24acR1l0raoZnm60CBwAVgqbZqoO%2FmYU81xysh1u7XcJk/m.replace/m.room.encrypted?recurse=false&from=\n\n",
];
const HTTP_C_KNOCK_ROOM: &[&str] = &[
    "POST\n/_matrix/client/v3/knock/%23room%3Aexample.org?via=example.org&via=other.org%3A8448&server_name=legacy.org\nContent-Type: application/json\n\n{\"reason\":\"Looking for support\"}",
    "POST\n/_matrix/client/v3/knock/!r:e.org\n\n{}",
    "POST\n/_matrix/client/v3/knock/%21room%3Aexample.org?server_name=%5B%3A%3A1%5D%3A8448&server_name=1.2.3.4\n\n{\"reason\":\"\"}",
    "POST\n/_matrix/client/unstable/xyz.amorgan.knock/knock/!31hneApxJ_1o-63DmFrpeqnkFfWppnzWso1JvH3ogLM?via=a.b\n\n{\"reason\":null}",
];
const HTTP_C_REPORT_CONTENT: &[&str] = &[
    "POST\n/_matrix/client/v3/rooms/%21room%3Aexample.org/report/%24event%3Aexample.org\nContent-Type: application/json\n\n{\"score\":-100,\"reason\":\"this makes me sad\"}",
    "POST\n/_matrix/client/v3/rooms/!r:e.org/report/$Rqnc-F-dvnEYJTyHq_iKxU2bZ1CI92-kuZq3a5lr5Zg\n\n{}",
    "POST\n/_matrix/client/r0/rooms/%21room%3Aexample.org/report/%24acR1l0raoZnm60CBwAVgqbZqoO%2FmYU81xysh1u7XcJk\n\n{\"score\":0}",
];
const HTTP_F_CREATE_INVITE: &[&str] = &[
    "PUT\n/_matrix/federation/v2/invite/%21room%3Aexample.org/%24event%3Aexample.org\nAuthorization: X-Matrix origin=\"origin.example\",destination=\"dest.example\",key=\"ed25519:1\",sig=\"c2ln\"\nContent-Type: application/json\n\n{\"room_version\":\"10\",\"event\":{\"room_id\":\"!room:example.org\",\"sender\":\"@alice:example.org\",\"origin_server_ts\":1000,\"type\":\"m.room.member\",\"state_key\":\"@bob:other.org\",\"content\":{\"membership\":\"invite\"},\"prev_events\":[\"$Rqnc-F-dvnEYJTyHq_iKxU2bZ1CI92-kuZq3a5lr5Zg\"],\"depth\":3,\"auth_events\":[\"$create\",\"$jr\"],\"hashes\":{\"sha256\":\"x\"},\"signatures\":{\"other.org\":{\"ed25519:1\":\"sig\"}}},\"invite_room_state\":[{\"type\":\"m.room.name\",\"sender\":\"@alice:example.org\",\"state_key\":\"\",\"content\":{\"name\":\"Example Room\"}},{\"type\":\"m.room.join_rules\",\"sender\":\"@alice:example.org\",\"state_key\":\"\",\"content\":{\"join_rule\":\"invite\"}}]}",
    "PUT\n/_matrix/federation/v2/invite/!r:e.org/$e\n\n{\"room_version\":\"org.custom\",\"event\":{},\"invite_room_state\":[]}",
    "PUT\n/_matrix/federation/v2/invite/%2131hneApxJ_1o-63DmFrpeqnkFfWppnzWso1JvH3ogLM/$Rqnc-F-dvnEYJTyHq_iKxU2bZ1CI92-kuZq3a5lr5Zg\n\n{\"room_version\":\"12\",\"event\":{\"room_id\":\"!room:example.org\",\"sender\":\"@alice:example.org\",\"origin_server_ts\":1000,\"type\":\"m.room.member\",\"state_key\":\"@bob:other.org\",\"content\":{\"membership\":\"invite\",\"is_direct\":true,\"third_party_invite\":{\"display_name\":\"d\",\"signed\":{\"mxid\":\"@bob:other.org\",\"token\":\"t\",\"signatures\":{\"id.example.org\":{\"ed25519:0\":\"s\"}}}}},\"prev_events\":[\"$Rqnc-F-dvnEYJTyHq_iKxU2bZ1CI92-kuZq3a5lr5Zg\"],\"depth\":3,\"auth_events\":[\"$create\",\"$jr\"],\"hashes\":{\"sha256\":\"x\"},\"signatures\":{\"other.org\":{\"ed25519:1\":\"sig\"}}},\"invite_room_state\":[{\"room_id\":\"!room:example.org\",\"sender\":\"@alice:example.org\",\"origin_server_ts\":1000,\"type\":\"m.room.create\",\"content\":{\"room_version\":\"12\"},\"prev_events\":[\"$Rqnc-F-dvnEYJTyHq_iKxU2bZ1CI92-kuZq3a5lr5Zg\"],\"depth\":12,\"auth_events\":[],\"hashes\":{\"sha256\":\"x\"},\"signatures\":{\"example.org\":{\"ed25519:1\":\"sig\"}},\"state_key\":\"\"}]}",
];
const HTTP_F_GET_EVENT: &[&str] = &[
    "GET\n/_matrix/federation/v1/event/%24event%3Aexample.org\nAuthorization: X-Matrix origin=\"origin.example\",destination=\"dest.example\",key=\"ed25519:1\",sig=\"c2ln\"\n\n",
    "GET\n/_matrix/federation/v1/event/$Rqnc-F-dvnEYJTyHq_iKxU2bZ1CI92-kuZq3a5lr5Zg\n\n",
    "GET\n/_matrix/federation/v1/event/%24acR1l0raoZnm60CBwAVgqbZqoO%2FmYU81xysh1u7XcJk\n\n",
];
const HTTP_F_BACKFILL: &[&str] = &[
    "GET\n/_matrix/federation/v1/backfill/%21room%3Aexample.org?v=%24abc%3Aexample.org&v=%24def%3Aexample.org&limit=5\nAuthorization: X-Matrix origin=\"origin.example\",destination=\"dest.example\",key=\"ed25519:1\",sig=\"c2ln\"\n\n",
    "GET\n/_matrix/federation/v1/backfill/!r:e.org?limit=0&v=$Rqnc-F-dvnEYJTyHq_iKxU2bZ1CI92-kuZq3a5lr5Zg\n\n",
    "GET\n/_matrix/federation/v1/backfill/%21room%3Aexample.org?v=%24acR1l0raoZnm60CBwAVgqbZqoO%2FmYU81xysh1u7XcJk&limit=100&v=$e&v=%24143273582443PhrSn%3Aexample.org%3A8448\n\n",
];
const HTTP_F_CLAIM_KEYS: &[&str] = &[
    "POST\n/_matrix/federation/v1/user/keys/claim\nAuthorization: X-Matrix origin=\"origin.example\",destination=\"dest.example\",key=\"ed25519:1\",sig=\"c2ln\"\nContent-Type: application/json\n\n{\"one_time_keys\":{\"@alice:example.com\":{\"JLAFKJWSCS\":\"signed_curve25519\",\"D2\":\"curve25519\"},\"@bob:example.org\":{\"X\":\"org.custom.alg\"}}}",
    "POST\n/_matrix/federation/v1/user/keys/claim\n\n{\"one_time_keys\":{}}",
    "POST\n/_matrix/federation/v1/user/keys/claim\n\n{\"one_time_keys\":{\"@a:b\":{}}}",
];
const HTTP_F_GET_DEVICES: &[&str] = &[
    "GET\n/_matrix/federation/v1/user/devices/%40alice%3Aexample.org\nAuthorization: X-Matrix origin=\"origin.example\",destination=\"dest.example\",key=\"ed25519:1\",sig=\"c2ln\"\n\n",
    "GET\n/_matrix/federation/v1/user/devices/@a:b\n\n",
    "GET\n/_matrix/federation/v1/user/devices/%40alice%3A%5B2001%3Adb8%3A%3A1%5D%3A8448\n\n",
];
const HTTP_F_SEND_KNOCK: &[&str] = &[
    "PUT\n/_matrix/federation/v1/send_knock/%21room%3Aexample.org/%24event%3Aexample.org\nAuthorization: X-Matrix origin=\"origin.example\",destination=\"dest.example\",key=\"ed25519:1\",sig=\"c2ln\"\nContent-Type: application/json\n\n{\"room_id\":\"!room:example.org\",\"sender\":\"@bob:other.org\",\"origin_server_ts\":1000,\"type\":\"m.room.member\",\"state_key\":\"@bob:other.org\",\"content\":{\"membership\":\"knock\",\"reason\":\"let me in\"},\"prev_events\":[\"$Rqnc-F-dvnEYJTyHq_iKxU2bZ1CI92-kuZq3a5lr5Zg\"],\"depth\":3,\"auth_events\":[\"$create\",\"$jr\"],\"hashes\":{\"sha256\":\"x\"},\"signatures\":{\"other.org\":{\"ed25519:1\":\"sig\"}}}",
    "PUT\n/_matrix/federation/unstable/xyz.amorgan.knock/send_knock/!r:e.org/$e\n\n{}",
    "PUT\n/_matrix/federation/v1/send_knock/%21room%3Aexample.org/$Rqnc-F-dvnEYJTyHq_iKxU2bZ1CI92-kuZq3a5lr5Zg\n\n[{\"room_id\":\"!room:example.org\",\"sender\":\"@bob:other.org\",\"origin_server_ts\":1000,\"type\":\"m.room.member\",\"state_key\":\"@bob:other.org\",\"content\":{\"membership\":\"knock\"},\"prev_events\":[\"$Rqnc-F-dvnEYJTyHq_iKxU2bZ1CI92-kuZq3a5lr5Zg\"],\"depth\":3,\"auth_events\":[\"$create\",\"$jr\"],\"hashes\":{\"sha256\":\"x\"},\"signatures\":{\"other.org\":{\"ed25519:1\":\"sig\"}}}]",
];
const HTTP_F_CREATE_LEAVE: &[&str] = &[
    "PUT\n/_matrix/federation/v2/send_leave/%21room%3Aexample.org/%24event%3Aexample.org\nAuthorization: X-Matrix origin=\"origin.example\",destination=\"dest.example\",key=\"ed25519:1\",sig=\"c2ln\"\nContent-Type: application/json\n\n{\"room_id\":\"!room:example.org\",\"sender\":\"@bob:other.org\",\"origin_server_ts\":1000,\"type\":\"m.room.member\",\"state_key\":\"@bob:other.org\",\"content\":{\"membership\":\"leave\"},\"prev_events\":[\"$Rqnc-F-dvnEYJTyHq_iKxU2bZ1CI92-kuZq3a5lr5Zg\"],\"depth\":3,\"auth_events\":[\"$create\",\"$jr\"],\"hashes\":{\"sha256\":\"x\"},\"signatures\":{\"other.org\":{\"ed25519:1\":\"sig\"}}}",
    "PUT\n/_matrix/federation/v2/send_leave/!r:e.org/$e\n\n{}",
    "PUT\n/_matrix/federation/v2/send_leave/%21room%3Aexample.org/%24acR1l0raoZnm60CBwAVgqbZqoO%2FmYU81xysh1u7XcJk\n\n{\"room_id\":\"!room:example.org\",\"sender\":\"@alice:example.org\",\"origin_server_ts\":1000,\"type\":\"m.room.member\",\"state_key\":\"@bob:other.org\",\"content\":{\"membership\":\"leave\",\"reason\":\"kicked\"},\"prev_events\":[\"$Rqnc-F-dvnEYJTyHq_iKxU2bZ1CI92-kuZq3a5lr5Zg\"],\"depth\":3,\"auth_events\":[\"$create\",\"$jr\"],\"hashes\":{\"sha256\":\"x\"},\"signatures\":{\"other.org\":{\"ed25519:1\":\"sig\"}}}",
];
const HTTP_F_QUERY_PROFILE: &[&str] = &[
    "GET\n/_matrix/federation/v1/query/profile?user_id=%40alice%3Aexample.org&field=displayname\nAuthorization: X-Matrix origin=\"origin.example\",destination=\"dest.example\",key=\"ed25519:1\",sig=\"c2ln\"\n\n",
    "GET\n/_matrix/federation/v1/query/profile?user_id=@a:b\n\n",
    "GET\n/_matrix/federation/v1/query/profile?field=avatar_url&user_id=%40alice%3Aexample.org%3A8448\n\n",
    "GET\n/_matrix/federation/v1/query/profile?user_id=%40a.b_c%3Dd-e%2Ff%2Bg%3Asub.example.com&field=org.custom.field\n\n",
];
const HTTP_F_EXCHANGE_INVITE: &[&str] = &[
    "PUT\n/_matrix/federation/v1/exchange_third_party_invite/%21room%3Aexample.org\nAuthorization: X-Matrix origin=\"origin.example\",destination=\"dest.example\",key=\"ed25519:1\",sig=\"c2ln\"\nContent-Type: application/json\n\n{\"type\":\"m.room.member\",\"room_id\":\"!room:example.org\",\"sender\":\"@alice:example.org\",\"state_key\":\"@bob:other.org\",\"content\":{\"display_name\":\"alice\",\"signed\":{\"mxid\":\"@bob:other.org\",\"token\":\"abc123\",\"signatures\":{\"magic.forest\":{\"ed25519:3\":\"fQpGIW1Snz+pwLZu6sTy2aHy/DYWWTspTJRPyNp0PKkymfIsNffysMl6ObMMFdIJhk6g6pwlIqZ54rxo8SLmAg\"}}}}}",
    "PUT\n/_matrix/federation/v1/exchange_third_party_invite/%21room%3Aexample.org\n\n{\"type\":\"m.room.member\",\"room_id\":\"!room:example.org\",\"sender\":\"@alice:example.org\",\"state_key\":\"@bob:other.org\",\"content\":{\"membership\":\"invite\",\"third_party_invite\":{\"display_name\":\"alice\",\"signed\":{\"mxid\":\"@bob:other.org\",\"token\":\"abc123\",\"signatures\":{\"magic.forest\":{\"ed25519:3\":\"fQpGIW1Snz+pwLZu6sTy2aHy/DYWWTspTJRPyNp0PKkymfIsNffysMl6ObMMFdIJhk6g6pwlIqZ54rxo8SLmAg\"}}}}}}",
    "PUT\n/_matrix/federation/v1/exchange_third_party_invite/!r:e.org\n\n{\"type\":\"org.custom.type\",\"sender\":\"@a:b\",\"state_key\":\"@c:d\",\"content\":{\"display_name\":\"\",\"signed\":{\"mxid\":\"@c:d\",\"token\":\"\",\"signatures\":{}}}}",
];
const HTTP_F_MAKE_JOIN: &[&str] = &[
    "GET\n/_matrix/federation/v1/make_join/%21room%3Aexample.org/%40bob%3Aother.org?ver=1&ver=10&ver=11&ver=org.custom\nAuthorization: X-Matrix origin=\"origin.example\",destination=\"dest.example\",key=\"ed25519:1\",sig=\"c2ln\"\n\n",
    "GET\n/_matrix/federation/v1/make_join/!r:e.org/@a:b\n\n",
    "GET\n/_matrix/federation/v1/make_join/%21room%3Aexample.org/%40bob%3Aother.org?ver=12\n\n",
];
const HTTP_A_QUERY_USER_ID: &[&str] = &[
    "GET\n/_matrix/app/v1/users/%40_irc_bob%3Aexample.org\nAuthorization: Bearer hs_token\n\n",
    "GET\n/_matrix/app/v1/users/@a:b\n\n",
    "GET\n/_matrix/app/v1/users/%40_irc_bridge_nick%5Baway%5D%3Aexample.org?access_token=hs_token\n\n",
];
const HTTP_A_PING: &[&str] = &[
    "POST\n/_matrix/app/v1/ping\nAuthorization: Bearer hs_token\nContent-Type: application/json\n\n{\"transaction_id\":\"mautrix-go_1683636478256400935_123\"}",
    "POST\n/_matrix/app/v1/ping\n\n{}",
    "POST\n/_matrix/app/unstable/fi.mau.msc2659/ping\n\n{\"transaction_id\":\"a b/c\"}",
];
const HTTP_I_BIND_3PID: &[&str] = &[
    "POST\n/_matrix/identity/v2/3pid/bind\nAuthorization: Bearer tok\nContent-Type: application/json\n\n{\"sid\":\"1234\",\"client_secret\":\"monkeys_are_GREAT\",\"mxid\":\"@ears:matrix.org\"}",
    "POST\n/_matrix/identity/v2/3pid/bind\n\n{\"sid\":\"session_ID-1\",\"client_secret\":\"abc.=_-\",\"mxid\":\"@a:[::1]:8448\"}",
];
const HTTP_I_VALIDATE_EMAIL: &[&str] = &[
    "POST\n/_matrix/identity/v2/validate/email/submitToken\nAuthorization: Bearer tok\nContent-Type: application/json\n\n{\"sid\":\"1234\",\"client_secret\":\"monkeys_are_GREAT\",\"token\":\"atoken\"}",
    "POST\n/_matrix/identity/v2/validate/email/submitToken\n\n{\"sid\":\"A.b=_-\",\"client_secret\":\"A\",\"token\":\"\"}",
];
const HTTP_I_REQUEST_EMAIL_TOKEN: &[&str] = &[
    "POST\n/_matrix/identity/v2/validate/email/requestToken\nAuthorization: Bearer tok\nContent-Type: application/json\n\n{\"client_secret\":\"monkeys_are_GREAT\",\"email\":\"alice@example.org\",\"send_attempt\":1,\"next_link\":\"https://example.org/congratulations.html\"}",
    "POST\n/_matrix/identity/v2/validate/email/requestToken\n\n{\"client_secret\":\"0123456789abcdefghijklmnopqrstuvwxyzABCDEFGHIJKLMNOPQRSTUVWXYZ\",\"email\":\"\",\"send_attempt\":0}",
];
const HTTP_R_C_ERROR: &[&str] = &[
    "200\nContent-Type: application/json\n\n{\"event_id\":\"$e\"}",
    "403\nContent-Type: application/json\n\n{\"errcode\":\"M_FORBIDDEN\",\"error\":\"You are not allowed to send a message to this room.\"}",
    "429\nContent-Type: application/json\nRetry-After: 2\n\n{\"errcode\":\"M_LIMIT_EXCEEDED\",\"error\":\"Too many requests\",\"retry_after_ms\":2000}",
    "429\nContent-Type: application/json\nRetry-After: Fri, 15 May 2015 15:34:21 GMT\n\n{\"errcode\":\"M_LIMIT_EXCEEDED\",\"error\":\"Too many requests\",\"retry_after_ms\":2000}",
    "429\nContent-Type: application/json\n\n{\"errcode\":\"M_LIMIT_EXCEEDED\",\"error\":\"Too many requests\"}",
    "400\nContent-Type: application/json\n\n{\"errcode\":\"M_BAD_JSON\",\"error\":\"Malformed\"}",
    "404\nContent-Type: text/html\n\n<html><body>404 Not Found</body></html>",
    "401\nContent-Type: application/json\n\n{\"errcode\":\"M_UNKNOWN_TOKEN\",\"error\":\"Soft logged out\",\"soft_logout\":true}",
    "403\nContent-Type: application/json\n\n{\"errcode\":\"M_RESOURCE_LIMIT_EXCEEDED\",\"error\":\"This homeserver has hit its Monthly Active User limit.\",\"admin_contact\":\"mailto:server.admin@example.org\",\"limit_type\":\"monthly_active_user\"}",
    "400\nContent-Type: application/json\n\n{\"errcode\":\"M_INCOMPATIBLE_ROOM_VERSION\",\"error\":\"Your homeserver does not support the features required to join this room\",\"room_version\":\"3\"}",
    "403\nContent-Type: application/json\n\n{\"errcode\":\"M_WRONG_ROOM_KEYS_VERSION\",\"error\":\"Wrong backup version.\",\"current_version\":\"42\"}",
    "418\nContent-Type: application/json\n\n{\"errcode\":\"ORG.EXAMPLE_TEAPOT\",\"error\":\"short and stout\",\"handle\":{\"spout\":[1,2]},\"soft_logout\":\"n/a\",\"retry_after_ms\":\"x\"}",
    "500\nContent-Type: application/json\n\n{\"error\":\"no errcode here\",\"detail\":5}",
    "502\nContent-Type: application/json\n\n{\"errcode\":\"M_BAD_STATUS\",\"error\":\"upstream\",\"status\":503,\"body\":\"Service Unavailable\"}",
    "413\n\n",
];
const HTTP_R_UIAA: &[&str] = &[
    "200\nContent-Type: application/json\n\n{\"access_token\":\"abc123\",\"user_id\":\"@cheeky_monkey:matrix.org\",\"device_id\":\"GHTYAJCE\",\"refresh_token\":\"r\",\"expires_in_ms\":60000}",
    "401\nContent-Type: application/json\n\n{\"flows\":[{\"stages\":[\"m.login.recaptcha\",\"m.login.terms\"]},{\"stages\":[\"m.login.email.identity\",\"org.custom.stage\"]},{\"stages\":[]},{}],\"params\":{\"m.login.recaptcha\":{\"public_key\":\"6Le31_kSAAAAAK-54VKccKamtr-MFA_3WS1d_fGV\"},\"m.login.terms\":{\"policies\":{\"privacy_policy\":{\"version\":\"1.2\",\"en\":{\"name\":\"Privacy Policy\",\"url\":\"https://example.org/privacy-1.2-en.html\"}}}}},\"session\":\"xxxxxx\",\"completed\":[\"m.login.dummy\"]}",
    "401\nContent-Type: application/json\n\n{\"errcode\":\"M_FORBIDDEN\",\"error\":\"Invalid password\",\"completed\":[\"m.login.recaptcha\"],\"flows\":[{\"stages\":[\"m.login.password\"]},{\"stages\":[\"m.login.sso\"]},{\"stages\":[\"m.login.registration_token\",\"m.login.msisdn\"]}],\"params\":{},\"session\":\"s\"}",
    "401\nContent-Type: application/json\n\n{\"flows\":[]}",
    "401\nContent-Type: application/json\n\n{\"errcode\":\"M_UNKNOWN_TOKEN\",\"error\":\"Unrecognised access token\",\"soft_logout\":false}",
    "400\nContent-Type: application/json\n\n{\"errcode\":\"M_USER_IN_USE\",\"error\":\"Desired user ID is already taken.\"}",
    "200\nContent-Type: application/json\n\n{\"user_id\":\"@1234:example.org\"}",
    "401\nContent-Type: application/json\n\n{\"flows\":[{\"stages\":[\"m.login.dummy\"]}],\"errcode\":\"M_LIMIT_EXCEEDED\",\"error\":\"slow down\",\"retry_after_ms\":5,\"params\":null,\"session\":null}",
    "403\nContent-Type: application/json\n\n{\"flows\":[{\"stages\":[\"m.login.dummy\"]}],\"session\":\"s\"}",
];
const HTTP_R_F_ERROR: &[&str] = &[
    "200\nContent-Type: application/json\n\n{\"origin\":\"example.org\",\"origin_server_ts\":1234567890,\"pdus\":[{\"room_id\":\"!room:example.org\",\"sender\":\"@alice:example.org\",\"origin_server_ts\":1000,\"type\":\"m.room.message\",\"content\":{\"msgtype\":\"m.text\",\"body\":\"hi\"},\"prev_events\":[\"$Rqnc-F-dvnEYJTyHq_iKxU2bZ1CI92-kuZq3a5lr5Zg\"],\"depth\":12,\"auth_events\":[],\"hashes\":{\"sha256\":\"x\"},\"signatures\":{\"example.org\":{\"ed25519:1\":\"sig\"}}}]}",
    "404\nContent-Type: application/json\n\n{\"errcode\":\"M_NOT_FOUND\",\"error\":\"Event not found\"}",
    "403\nContent-Type: application/json\n\n{\"errcode\":\"M_FORBIDDEN\",\"error\":\"Host not in room.\"}",
    "502\nContent-Type: text/html\n\n<html><body><h1>502 Bad Gateway</h1></body></html>",
    "429\nContent-Type: application/json\nRetry-After: 2\n\n{\"errcode\":\"M_LIMIT_EXCEEDED\",\"error\":\"Too many requests\",\"retry_after_ms\":2000}",
    "200\nContent-Type: application/json\n\n{\"origin\":\"example.org\",\"origin_server_ts\":0,\"pdus\":[]}",
    "200\nContent-Type: application/json\n\n{\"origin\":\"[::1]:8448\",\"origin_server_ts\":1,\"pdus\":[{\"room_id\":\"!room:example.org\",\"sender\":\"@alice:example.org\",\"origin_server_ts\":1000,\"type\":\"m.room.message\",\"content\":{\"msgtype\":\"m.text\",\"body\":\"hi\"},\"prev_events\":[\"$Rqnc-F-dvnEYJTyHq_iKxU2bZ1CI92-kuZq3a5lr5Zg\"],\"depth\":12,\"auth_events\":[],\"hashes\":{\"sha256\":\"x\"},\"signatures\":{\"example.org\":{\"ed25519:1\":\"sig\"}}},{\"room_id\":\"!room:example.org\",\"sender\":\"@alice:example.org\",\"origin_server_ts\":1000,\"type\":\"m.room.message\",\"content\":{\"msgtype\":\"m.text\",\"body\":\"hi\"},\"prev_events\":[\"$Rqnc-F-dvnEYJTyHq_iKxU2bZ1CI92-kuZq3a5lr5Zg\"],\"depth\":12,\"auth_events\":[],\"hashes\":{\"sha256\":\"x\"},\"signatures\":{\"example.org\":{\"ed25519:1\":\"sig\"}}}]}",
    "401\n\n{\"errcode\":\"M_UNAUTHORIZED\",\"error\":\"Invalid signature\"}",
];
const HTTP_R_GET_SUPPORTED_VERSIONS: &[&str] = &[
    "200\nContent-Type: application/json\n\n{\"versions\":[\"r0.0.1\",\"r0.6.1\",\"v1.1\",\"v1.11\",\"v99.0\",\"nonsense\"],\"unstable_features\":{\"org.matrix.e2e_cross_signing\":true,\"org.matrix.msc2285.stable\":false}}",
    "200\nContent-Type: application/json\n\n{\"versions\":[]}",
    "200\n\n{\"versions\":[\"v1.1\"],\"unstable_features\":{},\"server\":{\"name\":\"x\"}}",
];
const HTTP_R_DISCOVER_HOMESERVER: &[&str] = &[
    "200\nContent-Type: application/json\n\n{\"m.homeserver\":{\"base_url\":\"https://matrix.example.com\"},\"m.identity_server\":{\"base_url\":\"https://identity.example.com\"},\"org.example.custom.property\":{\"app_url\":\"https://custom.app.example.org\"}}",
    "200\nContent-Type: application/json\n\n{\"m.homeserver\":{\"base_url\":\"\"}}",
    "200\nContent-Type: text/plain\n\n{\"m.homeserver\":{\"base_url\":\"https://matrix.example.com:8448/\",\"extra\":1},\"m.tile_server\":{\"map_style_url\":\"https://tiles.example.org/style.json\"},\"m.authentication\":{\"issuer\":\"https://auth.example.org/\",\"account\":\"https://auth.example.org/account\"}}",
    "404\nContent-Type: text/plain\n\nNot found",
];
const HTTP_R_DISCOVER_SERVER: &[&str] = &[
    "200\nContent-Type: application/json\n\n{\"m.server\":\"delegated.example.com:1234\"}",
    "200\nContent-Type: application/json\n\n{\"m.server\":\"[2001:db8::1]:8448\"}",
    "200\nContent-Type: application/octet-stream\n\n{\"m.server\":\"1.2.3.4\",\"m.other\":null}",
    "404\nContent-Type: text/html\n\n<html></html>",
];
const HTTP_R_LOGIN_TYPES: &[&str] = &[
    "200\nContent-Type: application/json\n\n{\"flows\":[{\"type\":\"m.login.password\"},{\"type\":\"m.login.token\",\"get_login_token\":true},{\"type\":\"m.login.sso\",\"identity_providers\":[{\"id\":\"oidc-github\",\"name\":\"GitHub\",\"icon\":\"mxc://example.org/gh\",\"brand\":\"github\"},{\"id\":\"custom\",\"name\":\"Custom\",\"brand\":\"org.custom.brand\"},{\"id\":\"g\",\"name\":\"G\",\"icon\":null,\"brand\":null}]},{\"type\":\"m.login.application_service\"},{\"type\":\"org.custom.login\",\"extra\":{\"a\":[1]}}]}",
    "200\nContent-Type: application/json\n\n{\"flows\":[]}",
    "200\nContent-Type: application/json\n\n{\"flows\":[{\"type\":\"m.login.sso\"},{\"type\":\"m.login.token\"},{\"type\":\"m.login.sso\",\"identity_providers\":[],\"org.matrix.msc3824.delegated_oidc_compatibility\":true}]}",
    "429\nContent-Type: application/json\n\n{\"errcode\":\"M_LIMIT_EXCEEDED\",\"error\":\"x\",\"retry_after_ms\":1}",
];
const HTTP_R_LOGIN: &[&str] = &[
    "200\nContent-Type: application/json\n\n{\"user_id\":\"@cheeky_monkey:matrix.org\",\"access_token\":\"abc123\",\"device_id\":\"GHTYAJCE\",\"home_server\":\"matrix.org\",\"well_known\":{\"m.homeserver\":{\"base_url\":\"https://example.org\"},\"m.identity_server\":{\"base_url\":\"https://id.example.org\"}},\"refresh_token\":\"def456\",\"expires_in_ms\":60000}",
    "200\nContent-Type: application/json\n\n{\"user_id\":\"@a:b\",\"access_token\":\"\",\"device_id\":\"D\"}",
    "200\nContent-Type: application/json\n\n{\"user_id\":\"@alice:[::1]:8448\",\"access_token\":\"t\",\"device_id\":\"d\u{e9}vice id\",\"well_known\":{\"m.homeserver\":{\"base_url\":\"https://hs\"}},\"expires_in_ms\":0}",
    "403\nContent-Type: application/json\n\n{\"errcode\":\"M_FORBIDDEN\",\"error\":\"Invalid username or password\"}",
    "403\nContent-Type: application/json\n\n{\"errcode\":\"M_USER_DEACTIVATED\",\"error\":\"This account has been deactivated\"}",
    "429\nContent-Type: application/json\n\n{\"errcode\":\"M_LIMIT_EXCEEDED\",\"error\":\"Too many requests\",\"retry_after_ms\":2000}",
];
const HTTP_R_MAKE_JOIN: &[&str] = &[
    "200\nContent-Type: application/json\n\n{\"room_version\":\"10\",\"event\":{\"room_id\":\"!room:example.org\",\"sender\":\"@bob:other.org\",\"origin\":\"example.org\",\"origin_server_ts\":1549041175876,\"type\":\"m.room.member\",\"state_key\":\"@bob:other.org\",\"content\":{\"membership\":\"join\",\"join_authorised_via_users_server\":\"@alice:example.org\"},\"prev_events\":[\"$Rqnc-F-dvnEYJTyHq_iKxU2bZ1CI92-kuZq3a5lr5Zg\"],\"auth_events\":[\"$c\",\"$j\"],\"depth\":12}}",
    "200\nContent-Type: application/json\n\n{\"event\":{}}",
    "200\nContent-Type: application/json\n\n{\"room_version\":\"org.custom.version\",\"event\":{\"type\":\"m.room.member\",\"content\":{\"membership\":\"join\"}}}",
    "400\nContent-Type: application/json\n\n{\"errcode\":\"M_INCOMPATIBLE_ROOM_VERSION\",\"error\":\"Your homeserver does not support the features required to join this room\",\"room_version\":\"11\"}",
    "404\nContent-Type: application/json\n\n{\"errcode\":\"M_NOT_FOUND\",\"error\":\"Unknown room\"}",
];
const HTTP_R_STATE_IDS: &[&str] = &[
    "200\nContent-Type: application/json\n\n{\"auth_chain_ids\":[\"$a:example.org\",\"$Rqnc-F-dvnEYJTyHq_iKxU2bZ1CI92-kuZq3a5lr5Zg\"],\"pdu_ids\":[\"$b\",\"$acR1l0raoZnm60CBwAVgqbZqoO/mYU81xysh1u7XcJk\",\"$c:example.org:8448\"]}",
    "200\nContent-Type: application/json\n\n{\"auth_chain_ids\":[],\"pdu_ids\":[]}",
    "403\nContent-Type: application/json\n\n{\"errcode\":\"M_FORBIDDEN\",\"error\":\"Host not in room.\"}",
];
const HTTP_R_BACKFILL: &[&str] = &[
    "200\nContent-Type: application/json\n\n{\"origin\":\"matrix.org\",\"origin_server_ts\":1234567890,\"pdus\":[{\"room_id\":\"!room:example.org\",\"sender\":\"@alice:example.org\",\"origin_server_ts\":1000,\"type\":\"m.room.message\",\"content\":{\"msgtype\":\"m.text\",\"body\":\"hi\"},\"prev_events\":[\"$Rqnc-F-dvnEYJTyHq_iKxU2bZ1CI92-kuZq3a5lr5Zg\"],\"depth\":12,\"auth_events\":[],\"hashes\":{\"sha256\":\"x\"},\"signatures\":{\"example.org\":{\"ed25519:1\":\"sig\"}}},{\"room_id\":\"!room:example.org\",\"sender\":\"@bob:other.org\",\"origin_server_ts\":1000,\"type\":\"m.room.member\",\"state_key\":\"@bob:other.org\",\"content\":{\"membership\":\"join\"},\"prev_events\":[\"$Rqnc-F-dvnEYJTyHq_iKxU2bZ1CI92-kuZq3a5lr5Zg\"],\"depth\":3,\"auth_events\":[\"$create\",\"$jr\"],\"hashes\":{\"sha256\":\"x\"},\"signatures\":{\"other.org\":{\"ed25519:1\":\"sig\"}}}]}",
    "200\nContent-Type: application/json\n\n{\"origin\":\"1.2.3.4:80\",\"origin_server_ts\":0,\"pdus\":[]}",
    "200\nContent-Type: application/json\n\n{\"origin\":\"a-b.c-d.example\",\"origin_server_ts\":9007199254740991,\"pdus\":[{},{\"type\":\"x\",\"content\":null}]}",
];
const HTTP_R_KEYS_QUERY: &[&str] = &[
    "200\nContent-Type: application/json\n\n{\"failures\":{\"unreachable.example.org\":{\"status\":503,\"errcode\":\"M_UNKNOWN\",\"message\":\"unreachable\"},\"other.org\":{}},\"device_keys\":{\"@alice:example.com\":{\"JLAFKJWSCS\":{\"user_id\":\"@alice:example.com\",\"device_id\":\"JLAFKJWSCS\",\"algorithms\":[\"m.olm.v1.curve25519-aes-sha2\",\"m.megolm.v1.aes-sha2\"],\"keys\":{\"curve25519:JLAFKJWSCS\":\"3C5BFWi2Y8MaVvjM8M22DBmh24PmgR0nPvJOIArzgyI\",\"ed25519:JLAFKJWSCS\":\"lEuiRJBit0IG6nUf5pUzWTUEsRVVe/HJkoKuEww9ULI\"},\"signatures\":{\"@alice:example.com\":{\"ed25519:JLAFKJWSCS\":\"dSO80A01XiigH3uBiDVx/EjzaoycHcjq9lfQX0uWsqxl2giMIiSPR8a4d291W1ihKJL/a+myXS367WT6NAIcBA\"}},\"unsigned\":{\"device_display_name\":\"Alice's mobile phone\"}}},\"@bob:example.org\":{}},\"master_keys\":{\"@alice:example.com\":{\"user_id\":\"@alice:example.com\",\"usage\":[\"master\"],\"keys\":{\"ed25519:base64+master+public+key\":\"base64+master+public+key\"}}},\"self_signing_keys\":{\"@alice:example.com\":{\"user_id\":\"@alice:example.com\",\"usage\":[\"self_signing\"],\"keys\":{\"ed25519:base64+self+signing+public+key\":\"base64+self+signing+master+public+key\"},\"signatures\":{\"@alice:example.com\":{\"ed25519:base64+master+public+key\":\"signature+of+self+signing+key\"}}}},\"user_signing_keys\":{\"@alice:example.com\":{\"user_id\":\"@alice:example.com\",\"usage\":[\"user_signing\"],\"keys\":{\"ed25519:base64+user+signing+public+key\":\"base64+user+signing+master+public+key\"},\"signatures\":{\"@alice:example.com\":{\"ed25519:base64+master+public+key\":\"signature+of+user+signing+key\"}}}}}",
    "200\nContent-Type: application/json\n\n{}",
    "200\nContent-Type: application/json\n\n{\"failures\":{\"x\":null,\"y\":[1,\"2\"]},\"device_keys\":{\"@a:b\":{\"d\u{e9}vice\":{}}}}",
];
const HTTP_R_GET_DEVICES: &[&str] = &[
    "200\nContent-Type: application/json\n\n{\"user_id\":\"@alice:example.org\",\"stream_id\":5,\"devices\":[{\"device_id\":\"JLAFKJWSCS\",\"device_display_name\":\"Alice's Mobile Phone\",\"keys\":{\"user_id\":\"@alice:example.com\",\"device_id\":\"JLAFKJWSCS\",\"algorithms\":[\"m.olm.v1.curve25519-aes-sha2\",\"m.megolm.v1.aes-sha2\"],\"keys\":{\"curve25519:JLAFKJWSCS\":\"3C5BFWi2Y8MaVvjM8M22DBmh24PmgR0nPvJOIArzgyI\",\"ed25519:JLAFKJWSCS\":\"lEuiRJBit0IG6nUf5pUzWTUEsRVVe/HJkoKuEww9ULI\"},\"signatures\":{\"@alice:example.com\":{\"ed25519:JLAFKJWSCS\":\"dSO80A01XiigH3uBiDVx/EjzaoycHcjq9lfQX0uWsqxl2giMIiSPR8a4d291W1ihKJL/a+myXS367WT6NAIcBA\"}}}},{\"device_id\":\"D2\",\"keys\":{}}],\"master_key\":{\"user_id\":\"@alice:example.com\",\"usage\":[\"master\"],\"keys\":{\"ed25519:base64+master+public+key\":\"base64+master+public+key\"}},\"self_signing_key\":{\"user_id\":\"@alice:example.com\",\"usage\":[\"self_signing\"],\"keys\":{\"ed25519:base64+self+signing+public+key\":\"base64+self+signing+master+public+key\"},\"signatures\":{\"@alice:example.com\":{\"ed25519:base64+master+public+key\":\"signature+of+self+signing+key\"}}}}",
    "200\nContent-Type: application/json\n\n{\"user_id\":\"@a:b\",\"stream_id\":0,\"devices\":[]}",
    "200\nContent-Type: application/json\n\n{\"user_id\":\"@alice:example.org:8448\",\"stream_id\":9007199254740991,\"devices\":[{\"device_id\":\"d\",\"keys\":null,\"device_display_name\":null}],\"master_key\":null}",
];
const HTTP_R_MESSAGES: &[&str] = &[
    "200\nContent-Type: application/json\n\n{\"start\":\"t47429-4392820_219380_26003_2265\",\"end\":\"t47409-4357353_219380_26003_2265\",\"chunk\":[{\"type\":\"m.room.message\",\"event_id\":\"$m1:example.org\",\"room_id\":\"!room:example.org\",\"sender\":\"@alice:example.org\",\"origin_server_ts\":2000,\"content\":{\"msgtype\":\"m.text\",\"body\":\"hi\"},\"unsigned\":{\"age\":1234}},{\"type\":\"m.room.name\",\"event_id\":\"$n:example.org\",\"room_id\":\"!room:example.org\",\"sender\":\"@alice:example.org\",\"origin_server_ts\":3,\"state_key\":\"\",\"content\":{\"name\":\"The room\"},\"unsigned\":{\"prev_content\":{\"name\":\"Old\"}}},{\"type\":\"m.room.message\",\"event_id\":\"$m2:example.org\",\"room_id\":\"!room:example.org\",\"sender\":\"@bob:example.org\",\"origin_server_ts\":2001,\"content\":{\"msgtype\":\"m.image\",\"body\":\"i.png\",\"url\":\"mxc://example.org/i\",\"info\":{\"w\":1,\"h\":2,\"mimetype\":\"image/png\",\"size\":3}}}],\"state\":[{\"type\":\"m.room.member\",\"event_id\":\"$j:example.org\",\"room_id\":\"!room:example.org\",\"sender\":\"@alice:example.org\",\"origin_server_ts\":1,\"state_key\":\"@alice:example.org\",\"content\":{\"membership\":\"join\",\"displayname\":\"Alice\",\"avatar_url\":\"mxc://example.org/a\"}}]}",
    "200\nContent-Type: application/json\n\n{\"start\":\"s\"}",
    "200\nContent-Type: application/json\n\n{\"start\":\"\",\"chunk\":[],\"state\":[],\"end\":null}",
    "403\nContent-Type: application/json\n\n{\"errcode\":\"M_FORBIDDEN\",\"error\":\"You aren't a member of the room.\"}",
];
const HTTP_R_CONTEXT: &[&str] = &[
    "200\nContent-Type: application/json\n\n{\"start\":\"t27-54_2_0_2\",\"end\":\"t29-57_2_0_2\",\"events_before\":[{\"type\":\"m.room.message\",\"event_id\":\"$m1:example.org\",\"room_id\":\"!room:example.org\",\"sender\":\"@alice:example.org\",\"origin_server_ts\":2000,\"content\":{\"msgtype\":\"m.text\",\"body\":\"hi\"},\"unsigned\":{\"age\":1234}}],\"event\":{\"type\":\"m.room.message\",\"event_id\":\"$m2:example.org\",\"room_id\":\"!room:example.org\",\"sender\":\"@bob:example.org\",\"origin_server_ts\":2001,\"content\":{\"msgtype\":\"m.image\",\"body\":\"i.png\",\"url\":\"mxc://example.org/i\",\"info\":{\"w\":1,\"h\":2,\"mimetype\":\"image/png\",\"size\":3}}},\"events_after\":[{\"type\":\"m.room.name\",\"event_id\":\"$n:example.org\",\"room_id\":\"!room:example.org\",\"sender\":\"@alice:example.org\",\"origin_server_ts\":3,\"state_key\":\"\",\"content\":{\"name\":\"The room\"},\"unsigned\":{\"prev_content\":{\"name\":\"Old\"}}}],\"state\":[{\"type\":\"m.room.member\",\"event_id\":\"$j:example.org\",\"room_id\":\"!room:example.org\",\"sender\":\"@alice:example.org\",\"origin_server_ts\":1,\"state_key\":\"@alice:example.org\",\"content\":{\"membership\":\"join\",\"displayname\":\"Alice\",\"avatar_url\":\"mxc://example.org/a\"}},{\"type\":\"m.room.name\",\"event_id\":\"$n:example.org\",\"room_id\":\"!room:example.org\",\"sender\":\"@alice:example.org\",\"origin_server_ts\":3,\"state_key\":\"\",\"content\":{\"name\":\"The room\"},\"unsigned\":{\"prev_content\":{\"name\":\"Old\"}}}]}",
    "200\nContent-Type: application/json\n\n{}",
    "200\nContent-Type: application/json\n\n{\"event\":{\"type\":\"org.custom\",\"content\":{}},\"events_before\":[],\"start\":null}",
];
const HTTP_R_JOINED_MEMBERS: &[&str] = &[
    "200\nContent-Type: application/json\n\n{\"joined\":{\"@bar:example.com\":{\"avatar_url\":\"mxc://riot.ovh/printErCATzZijQsSDWorRaK\",\"display_name\":\"Bar\"},\"@foo:example.org\":{}}}",
    "200\nContent-Type: application/json\n\n{\"joined\":{}}",
    "200\nContent-Type: application/json\n\n{\"joined\":{\"@a:[::1]:8448\":{\"avatar_url\":null,\"display_name\":null},\"@Alice Bob:example.org\":{\"display_name\":\"\"}}}",
];
const HTTP_R_PUBLIC_ROOMS: &[&str] = &[
    "200\nContent-Type: application/json\n\n{\"chunk\":[{\"room_id\":\"!ol19s:bleecker.street\",\"name\":\"CHEESE\",\"topic\":\"Tasty tasty cheese\",\"canonical_alias\":\"#murrays:cheese.bar\",\"avatar_url\":\"mxc://bleecker.street/CHEDDARandBRIE\",\"num_joined_members\":37,\"world_readable\":true,\"guest_can_join\":false,\"join_rule\":\"public\",\"room_type\":\"m.space\"},{\"room_id\":\"!r:e.org\",\"num_joined_members\":0,\"world_readable\":false,\"guest_can_join\":true,\"join_rule\":\"knock_restricted\"}],\"next_batch\":\"p190q\",\"prev_batch\":\"p1902\",\"total_room_count_estimate\":115}",
    "200\nContent-Type: application/json\n\n{\"chunk\":[]}",
    "200\nContent-Type: application/json\n\n{\"chunk\":[{\"room_id\":\"!31hneApxJ_1o-63DmFrpeqnkFfWppnzWso1JvH3ogLM\",\"num_joined_members\":1,\"world_readable\":false,\"guest_can_join\":false,\"join_rule\":\"org.custom.rule\",\"room_type\":\"org.custom.type\",\"canonical_alias\":null,\"avatar_url\":null,\"name\":null}],\"total_room_count_estimate\":0}",
];
const HTTP_R_TURN_SERVER: &[&str] = &[
    "200\nContent-Type: application/json\n\n{\"username\":\"1443779631:@user:example.com\",\"password\":\"JlKfBy1QwLrO20385QyAtEyIv0=\",\"uris\":[\"turn:turn.example.com:3478?transport=udp\",\"turn:10.20.30.40:3478?transport=tcp\",\"turns:10.20.30.40:443?transport=tcp\"],\"ttl\":86400}",
    "200\nContent-Type: application/json\n\n{\"username\":\"\",\"password\":\"\",\"uris\":[],\"ttl\":0}",
    "200\nContent-Type: application/json\n\n{\"username\":\"u\",\"password\":\"p\",\"uris\":[\"stun:[::1]\"],\"ttl\":9007199254740991}",
];
const HTTP_R_PROFILE: &[&str] = &[
    "200\nContent-Type: application/json\n\n{\"avatar_url\":\"mxc://matrix.org/SDGdghriugerRg\",\"displayname\":\"Alice Margatroid\",\"m.tz\":\"Europe/London\",\"org.example.custom\":{\"x\":[1,2,3]}}",
    "200\nContent-Type: application/json\n\n{}",
    "200\nContent-Type: application/json\n\n{\"displayname\":null,\"avatar_url\":null,\"xyz.amorgan.blurhash\":\"LKO2?U%2Tw=w]~RBVZRi};RPxuwH\"}",
    "404\nContent-Type: application/json\n\n{\"errcode\":\"M_NOT_FOUND\",\"error\":\"Profile not found\"}",
];
const HTTP_R_HIERARCHY: &[&str] = &[
    "200\nContent-Type: application/json\n\n{\"next_batch\":\"next_batch_token\",\"rooms\":[{\"room_id\":\"!space:example.org\",\"name\":\"The Space\",\"topic\":\"t\",\"canonical_alias\":\"#space:example.org\",\"avatar_url\":\"mxc://example.org/abc\",\"num_joined_members\":5,\"world_readable\":true,\"guest_can_join\":false,\"join_rule\":\"restricted\",\"room_type\":\"m.space\",\"children_state\":[{\"type\":\"m.space.child\",\"state_key\":\"!child:example.org\",\"sender\":\"@alice:example.org\",\"origin_server_ts\":1629413349153,\"content\":{\"via\":[\"example.org\",\"other.org:8448\"],\"order\":\"a\",\"suggested\":true}}],\"allowed_room_ids\":[\"!x:y\"]},{\"room_id\":\"!child:example.org\",\"num_joined_members\":0,\"world_readable\":false,\"guest_can_join\":true,\"children_state\":[]}]}",
    "200\nContent-Type: application/json\n\n{\"rooms\":[]}",
    "200\nContent-Type: application/json\n\n{\"rooms\":[{\"room_id\":\"!r:e.org\",\"num_joined_members\":1,\"world_readable\":false,\"guest_can_join\":false,\"join_rule\":\"org.custom.rule\",\"room_type\":\"org.custom\",\"children_state\":[{},{\"type\":\"m.space.child\",\"state_key\":\"!child:example.org\",\"sender\":\"@alice:example.org\",\"origin_server_ts\":1629413349153,\"content\":{}}]}],\"next_batch\":null}",
];

const STATERES: &[&str] = &[
    r###"[{"event_id":"$create","room_id":"!room:example.org","sender":"@alice:example.org","type":"m.room.create","content":{"creator":"@alice:example.org","room_version":"6"},"state_key":"","origin_server_ts":0,"prev_events":[],"auth_events":[]},{"event_id":"$alice-join","room_id":"!room:example.org","sender":"@alice:example.org","type":"m.room.member","content":{"membership":"join","displayname":"alice"},"state_key":"@alice:example.org","origin_server_ts":1,"prev_events":["$create"],"auth_events":["$create"]},{"event_id":"$pl","room_id":"!room:example.org","sender":"@alice:example.org","type":"m.room.power_levels","content":{"users":{"@alice:example.org":100},"invite":0,"kick":50,"ban":50,"redact":50,"state_default":50,"events_default":0,"users_default":0,"events":{"m.room.name":50},"notifications":{"room":50}},"state_key":"","origin_server_ts":2,"prev_events":["$alice-join"],"auth_events":["$create","$alice-join"]},{"event_id":"$jr","room_id":"!room:example.org","sender":"@alice:example.org","type":"m.room.join_rules","content":{"join_rule":"public"},"state_key":"","origin_server_ts":3,"prev_events":["$pl"],"auth_events":["$create","$alice-join","$pl"]},{"event_id":"$bob-join","room_id":"!room:example.org","sender":"@bob:example.org","type":"m.room.member","content":{"membership":"join"},"state_key":"@bob:example.org","origin_server_ts":4,"prev_events":["$jr"],"auth_events":["$create","$jr","$pl"]},{"event_id":"$pl2","room_id":"!room:example.org","sender":"@alice:example.org","type":"m.room.power_levels","content":{"users":{"@alice:example.org":100,"@bob:example.org":50}},"state_key":"","origin_server_ts":5,"prev_events":["$bob-join"],"auth_events":["$create","$alice-join","$pl"]},{"event_id":"$name-a","room_id":"!room:example.org","sender":"@alice:example.org","type":"m.room.name","content":{"name":"A"},"state_key":"","origin_server_ts":6,"prev_events":["$pl2"],"auth_events":["$create","$alice-join","$pl2"]},{"event_id":"$name-b","room_id":"!room:example.org","sender":"@bob:example.org","type":"m.room.name","content":{"name":"B"},"state_key":"","origin_server_ts":7,"prev_events":["$pl2"],"auth_events":["$create","$bob-join","$pl2"]},{"event_id":"$msg","room_id":"!room:example.org","sender":"@bob:example.org","type":"m.room.message","content":{"msgtype":"m.text","body":"hi"},"origin_server_ts":8,"prev_events":["$name-a","$name-b"],"auth_events":["$create","$bob-join","$pl2"]}]"###,
    r###"[{"event_id":"$create","room_id":"!room:example.org","sender":"@alice:example.org","type":"m.room.create","content":{"creator":"@alice:example.org","room_version":"10"},"state_key":"","origin_server_ts":0,"prev_events":[],"auth_events":[]},{"event_id":"$alice-join","room_id":"!room:example.org","sender":"@alice:example.org","type":"m.room.member","content":{"membership":"join"},"state_key":"@alice:example.org","origin_server_ts":1,"prev_events":["$create"],"auth_events":["$create"]},{"event_id":"$pl","room_id":"!room:example.org","sender":"@alice:example.org","type":"m.room.power_levels","content":{"users":{"@alice:example.org":100},"invite":50},"state_key":"","origin_server_ts":2,"prev_events":["$alice-join"],"auth_events":["$create","$alice-join"]},{"event_id":"$jr","room_id":"!room:example.org","sender":"@alice:example.org","type":"m.room.join_rules","content":{"join_rule":"restricted","allow":[{"type":"m.room_membership","room_id":"!space:example.org"}]},"state_key":"","origin_server_ts":3,"prev_events":["$pl"],"auth_events":["$create","$alice-join","$pl"]},{"event_id":"$carol-join","room_id":"!room:example.org","sender":"@carol:example.org","type":"m.room.member","content":{"membership":"join","join_authorised_via_users_server":"@alice:example.org"},"state_key":"@carol:example.org","origin_server_ts":4,"prev_events":["$jr"],"auth_events":["$create","$jr","$pl","$alice-join"]},{"event_id":"$tpi","room_id":"!room:example.org","sender":"@alice:example.org","type":"m.room.third_party_invite","content":{"display_name":"d","key_validity_url":"https://x","public_key":"fQpGIW1Snz+pwLZu6sTy2aHy/DYWWTspTJRPyNp0PKk","public_keys":[{"public_key":"fQpGIW1Snz+pwLZu6sTy2aHy/DYWWTspTJRPyNp0PKk"}]},"state_key":"tok","origin_server_ts":5,"prev_events":["$carol-join"],"auth_events":["$create","$alice-join","$pl"]},{"event_id":"$dave-invite","room_id":"!room:example.org","sender":"@alice:example.org","type":"m.room.member","content":{"membership":"invite","third_party_invite":{"display_name":"d","signed":{"mxid":"@dave:example.org","token":"tok","signatures":{"magic.forest":{"ed25519:3":"fQpGIW1Snz+pwLZu6sTy2aHy/DYWWTspTJRPyNp0PKkymfIsNffysMl6ObMMFdIJhk6g6pwlIqZ54rxo8SLmAg"}}}}},"state_key":"@dave:example.org","origin_server_ts":6,"prev_events":["$tpi"],"auth_events":["$create","$alice-join","$pl","$tpi","$jr"]},{"event_id":"$eve-knock","room_id":"!room:example.org","sender":"@eve:example.org","type":"m.room.member","content":{"membership":"knock"},"state_key":"@eve:example.org","origin_server_ts":7,"prev_events":["$dave-invite"],"auth_events":["$create","$jr","$pl"]},{"event_id":"$mallory-ban","room_id":"!room:example.org","sender":"@alice:example.org","type":"m.room.member","content":{"membership":"ban"},"state_key":"@mallory:example.org","origin_server_ts":8,"prev_events":["$eve-knock"],"auth_events":["$create","$alice-join","$pl"]},{"event_id":"$red","room_id":"!room:example.org","sender":"@alice:example.org","type":"m.room.redaction","content":{"redacts":"$eve-knock"},"redacts":"$eve-knock","origin_server_ts":9,"prev_events":["$mallory-ban"],"auth_events":["$create","$alice-join","$pl"]}]"###,
    r###"[{"event_id":"$c:example.org","room_id":"!room:example.org","sender":"@alice:example.org","type":"m.room.create","content":{"creator":"@alice:example.org"},"state_key":"","origin_server_ts":0,"prev_events":[],"auth_events":[]},{"event_id":"$j:example.org","room_id":"!room:example.org","sender":"@alice:example.org","type":"m.room.member","content":{"membership":"join"},"state_key":"@alice:example.org","origin_server_ts":1,"prev_events":["$c:example.org"],"auth_events":["$c:example.org"]},{"event_id":"$a:example.org","room_id":"!room:example.org","sender":"@alice:example.org","type":"m.room.aliases","content":{"aliases":["#r:example.org"]},"state_key":"example.org","origin_server_ts":2,"prev_events":["$j:example.org"],"auth_events":["$c:example.org","$j:example.org"]},{"event_id":"$h:example.org","room_id":"!room:example.org","sender":"@alice:example.org","type":"m.room.history_visibility","content":{"history_visibility":"shared"},"state_key":"","origin_server_ts":3,"prev_events":["$a:example.org"],"auth_events":["$c:example.org","$j:example.org"]},{"event_id":"$pl:example.org","room_id":"!room:example.org","sender":"@alice:example.org","type":"m.room.power_levels","content":{"users":{"@alice:example.org":"100"},"ban":"50"},"state_key":"","origin_server_ts":4,"prev_events":["$h:example.org"],"auth_events":["$c:example.org","$j:example.org"]}]"###,
];

fn strs(v: &[&str]) -> Vec<Vec<u8>> {
    v.iter().map(|s| s.as_bytes().to_vec()).collect()
}
fn cat(parts: &[&[&str]]) -> Vec<Vec<u8>> {
    parts.iter().flat_map(|p| strs(p)).collect()
}
fn hex(v: &[&str]) -> Vec<Vec<u8>> {
    v.iter()
        .map(|s| (0..s.len() / 2).map(|i| u8::from_str_radix(&s[2 * i..2 * i + 2], 16).unwrap_or(0)).collect())
        .collect()
}

/// Embedded seeds of an entry point; element 0 is the canary input.
pub fn embedded(name: &str) -> Vec<Vec<u8>> {
    match name {
        "id.user" => strs(ID_USER),
        "id.user_with_server" => strs(ID_USER_WITH_SERVER),
        "id.room" => strs(ID_ROOM),
        "id.room_alias" => strs(ID_ROOM_ALIAS),
        "id.room_or_alias" => strs(ID_ROOM_OR_ALIAS),
        "id.event" => strs(ID_EVENT),
        "id.server_name" => strs(ID_SERVER_NAME),
        "id.mxc" => strs(ID_MXC),
        "id.key_id" => cat(&[ID_DEVICE_KEY, ID_SIGNING_KEY_ANY, ID_SERVER_SIGNING_KEY, ID_CROSS_SIGNING_KEY, ID_CROSS_OR_DEVICE_KEY, ID_ONE_TIME_KEY]),
        "id.room_version" => strs(ID_ROOM_VERSION),
        "id.client_secret" => strs(ID_CLIENT_SECRET),
        "id.session" => strs(ID_SESSION),
        "id.opaque" => strs(ID_OPAQUE),
        "uri.matrix" => strs(URI_MATRIX),
        "uri.matrix_to" => strs(URI_MATRIX_TO),
        "hdr.x_matrix" | "hdr.x_matrix_str" => strs(HDR_X_MATRIX),
        "hdr.content_disposition" => strs(HDR_CONTENT_DISPOSITION),
        "b64.standard" => strs(B64_STANDARD),
        "b64.urlsafe" => strs(B64_URLSAFE),
        "ev.timeline" | "ev.app_use" | "ev.sync_timeline" => cat(&[MESSAGE_EVENTS, STATE_EVENTS]),
        "ev.state" | "ev.sync_state" | "ev.stripped_state" => strs(STATE_EVENTS),
        "ev.to_device" => strs(TO_DEVICE_EVENTS),
        "ev.global_account_data" => strs(GLOBAL_ACCOUNT_DATA),
        "ev.room_account_data" => strs(ROOM_ACCOUNT_DATA),
        "ev.ephemeral" => strs(EPHEMERAL_EVENTS),
        "ev.presence" => strs(PRESENCE_EVENTS),
        "ev.pdu" => strs(PDUS),
        "ev.message_content" => strs(MESSAGE_CONTENTS),
        "ev.state_content" => strs(STATE_CONTENTS),
        "push.ruleset" => strs(RULESETS),
        "push.event" => cat(&[PUSH_EVENTS, MESSAGE_EVENTS]),
        "push.glob" => strs(PUSH_GLOB),
        "push.edits" => strs(PUSH_EDITS),
        "sig.canonical" | "sig.sign_json" => cat(&[SIGNED_EVENTS, SIGNED_JSON, STATE_EVENTS, MESSAGE_EVENTS]),
        "sig.redact" | "sig.hash_and_sign" | "sig.resign_verify" => cat(&[SIGNED_EVENTS, STATE_EVENTS, MESSAGE_EVENTS]),
        "sig.verify_json" => strs(SIGNED_JSON),
        "sig.verify_event" => strs(SIGNED_EVENTS),
        "sig.from_der" => hex(SIG_DER_HEX),
        "html.sanitize" | "html.sanitize_shared" | "html.helpers" | "html.matrix" => strs(HTML),
        "http.c.send_message" => strs(HTTP_C_SEND_MESSAGE),
        "http.c.sync" => strs(HTTP_C_SYNC),
        "http.c.set_pushrule" => strs(HTTP_C_SET_PUSHRULE),
        "http.c.join_room" => strs(HTTP_C_JOIN_ROOM),
        "http.c.send_state" => strs(HTTP_C_SEND_STATE),
        "http.c.create_filter" => strs(HTTP_C_CREATE_FILTER),
        "http.c.create_content" => strs(HTTP_C_CREATE_CONTENT),
        "http.f.send_transaction" => strs(HTTP_F_SEND_TRANSACTION),
        "http.f.create_join" => strs(HTTP_F_CREATE_JOIN),
        "http.f.get_missing_events" => strs(HTTP_F_GET_MISSING_EVENTS),
        "http.a.push_events" => strs(HTTP_A_PUSH_EVENTS),
        "http.i.lookup_3pid" => strs(HTTP_I_LOOKUP_3PID),
        "http.i.store_invitation" => strs(HTTP_I_STORE_INVITATION),
        "http.p.send_event_notification" => strs(HTTP_P_SEND_EVENT_NOTIFICATION),
        "http.r.sync_response" => strs(HTTP_R_SYNC_RESPONSE),
        "http.r.server_keys_response" => strs(HTTP_R_SERVER_KEYS_RESPONSE),
        "http.r.get_content_response" => strs(HTTP_R_GET_CONTENT_RESPONSE),
        "http.r.fed_media_content" | "http.r.fed_media_thumbnail" => strs(HTTP_R_FED_MEDIA),
        "http.r.store_invitation" => strs(HTTP_R_STORE_INVITATION),
        "http.r.lookup_3pid" => strs(HTTP_R_LOOKUP_3PID),
        "http.r.get_missing_events" => strs(HTTP_R_GET_MISSING_EVENTS),
        "http.r.send_transaction" => strs(HTTP_R_SEND_TRANSACTION),
        "http.r.create_join" => strs(HTTP_R_CREATE_JOIN),
        "http.r.get_pushrules" => strs(HTTP_R_GET_PUSHRULES),
        "http.r.get_state" => strs(HTTP_R_GET_STATE),
        "http.c.get_message_events" => strs(HTTP_C_GET_MESSAGE_EVENTS),
        "http.c.get_context" => strs(HTTP_C_GET_CONTEXT),
        "http.c.login" => strs(HTTP_C_LOGIN),
        "http.c.register" => strs(HTTP_C_REGISTER),
        "http.c.create_room" => strs(HTTP_C_CREATE_ROOM),
        "http.c.upload_keys" => strs(HTTP_C_UPLOAD_KEYS),
        "http.c.send_to_device" => strs(HTTP_C_SEND_TO_DEVICE),
        "http.c.set_read_marker" => strs(HTTP_C_SET_READ_MARKER),
        "http.c.search_users" => strs(HTTP_C_SEARCH_USERS),
        "http.c.get_keys" => strs(HTTP_C_GET_KEYS),
        "http.c.set_presence" => strs(HTTP_C_SET_PRESENCE),
        "http.c.upload_signatures" => strs(HTTP_C_UPLOAD_SIGNATURES),
        "http.c.get_relations" => strs(HTTP_C_GET_RELATIONS),
        "http.c.knock_room" => strs(HTTP_C_KNOCK_ROOM),
        "http.c.report_content" => strs(HTTP_C_REPORT_CONTENT),
        "http.f.create_invite" => strs(HTTP_F_CREATE_INVITE),
        "http.f.get_event" => strs(HTTP_F_GET_EVENT),
        "http.f.backfill" => strs(HTTP_F_BACKFILL),
        "http.f.claim_keys" => strs(HTTP_F_CLAIM_KEYS),
        "http.f.get_devices" => strs(HTTP_F_GET_DEVICES),
        "http.f.send_knock" => strs(HTTP_F_SEND_KNOCK),
        "http.f.create_leave" => strs(HTTP_F_CREATE_LEAVE),
        "http.f.query_profile" => strs(HTTP_F_QUERY_PROFILE),
        "http.f.exchange_invite" => strs(HTTP_F_EXCHANGE_INVITE),
        "http.f.make_join" => strs(HTTP_F_MAKE_JOIN),
        "http.a.query_user_id" => strs(HTTP_A_QUERY_USER_ID),
        "http.a.ping" => strs(HTTP_A_PING),
        "http.i.bind_3pid" => strs(HTTP_I_BIND_3PID),
        "http.i.validate_email" => strs(HTTP_I_VALIDATE_EMAIL),
        "http.i.request_email_token" => strs(HTTP_I_REQUEST_EMAIL_TOKEN),
        "http.r.c_error" => strs(HTTP_R_C_ERROR),
        "http.r.uiaa" => strs(HTTP_R_UIAA),
        "http.r.f_error" => strs(HTTP_R_F_ERROR),
        "http.r.get_supported_versions" => strs(HTTP_R_GET_SUPPORTED_VERSIONS),
        "http.r.discover_homeserver" => strs(HTTP_R_DISCOVER_HOMESERVER),
        "http.r.discover_server" => strs(HTTP_R_DISCOVER_SERVER),
        "http.r.login_types" => strs(HTTP_R_LOGIN_TYPES),
        "http.r.login" => strs(HTTP_R_LOGIN),
        "http.r.make_join" => strs(HTTP_R_MAKE_JOIN),
        "http.r.state_ids" => strs(HTTP_R_STATE_IDS),
        "http.r.backfill" => strs(HTTP_R_BACKFILL),
        "http.r.keys_query" => strs(HTTP_R_KEYS_QUERY),
        "http.r.get_devices" => strs(HTTP_R_GET_DEVICES),
        "http.r.messages" => strs(HTTP_R_MESSAGES),
        "http.r.context" => strs(HTTP_R_CONTEXT),
        "http.r.joined_members" => strs(HTTP_R_JOINED_MEMBERS),
        "http.r.public_rooms" => strs(HTTP_R_PUBLIC_ROOMS),
        "http.r.turn_server" => strs(HTTP_R_TURN_SERVER),
        "http.r.profile" => strs(HTTP_R_PROFILE),
        "http.r.hierarchy" => strs(HTTP_R_HIERARCHY),
        "stateres.auth_types" | "stateres.auth_check" | "stateres.resolve" => strs(STATERES),
        _ => Vec::new(),
    }
}

/// Whether fixture files (whole file) / their array elements (single objects) are extra seeds.
pub fn wants_fixture_files(name: &str) -> bool {
    name.starts_with("stateres.")
}
pub fn wants_fixture_objects(name: &str) -> bool {
    matches!(
        name,
        "ev.timeline" | "ev.app_use" | "ev.sync_timeline" | "ev.state" | "ev.sync_state" | "ev.stripped_state" | "push.event" | "sig.canonical" | "sig.redact" | "sig.sign_json"
            | "sig.hash_and_sign" | "sig.resign_verify" | "sig.verify_json" | "sig.verify_event"
    )
}

fn walk(dir: &Path, out: &mut Vec<PathBuf>) {
    let Ok(rd) = std::fs::read_dir(dir) else { return };
    let mut entries: Vec<PathBuf> = rd.filter_map(|e| e.ok().map(|e| e.path())).collect();
    entries.sort();
    for p in entries {
        if p.is_dir() {
            walk(&p, out);
        } else if p.extension().and_then(|e| e.to_str()) == Some("json") {
            out.push(p);
        }
    }
}

/// (path, bytes) of every `*.json` under `<repo>/crates/*/tests/`, sorted by path.
pub fn load_fixtures() -> Vec<(String, Vec<u8>)> {
    let repo = std::env::var("VERIF_REPO").unwrap_or_else(|_| "/repo".to_string());
    let crates = Path::new(&repo).join("crates");
    let mut files = Vec::new();
    let Ok(rd) = std::fs::read_dir(&crates) else { return Vec::new() };
    let mut dirs: Vec<PathBuf> = rd.filter_map(|e| e.ok().map(|e| e.path())).collect();
    dirs.sort();
    for d in dirs {
        walk(&d.join("tests"), &mut files);
    }
    files.sort();
    let mut out = Vec::new();
    for f in files {
        if let Ok(b) = std::fs::read(&f) {
            if b.len() <= crate::mutate::MAX_INPUT {
                out.push((f.display().to_string(), b));
            }
        }
    }
    out
}
