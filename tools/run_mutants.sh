#!/bin/bash
# Sensitivity self-test (DESIGN §3.11): apply each patch to /repo, run the owning check's quick
# tier, expect a VIOLATION, revert. Never part of a registered command.
# usage: tools/run_mutants.sh [dir-with-patches] [tier]
set -u
DIR="${1:-/verif/mutants}"; TIER="${2:-quick}"
OUT="/verif/mutants/RESULTS.$(basename "$DIR").txt"; : > "$OUT"
cd /verif
if [ -n "$(git -C /repo status --porcelain --untracked-files=no)" ]; then echo "/repo is not clean"; exit 2; fi
for p in "$DIR"/*.patch "$DIR"/*/patch*.diff; do
  [ -f "$p" ] || continue
  base="$(basename "$p")"
  prop="$(echo "$p" | grep -o 'C[0-9][0-9]' | head -1)"
  if ! git -C /repo apply --check "$p" 2>/dev/null; then echo "$base: DOES-NOT-APPLY" | tee -a "$OUT"; continue; fi
  git -C /repo apply "$p"
  start=$(date +%s)
  log="$(./check "$prop" "$TIER" 2>&1)"; rc=$?
  end=$(date +%s)
  git -C /repo checkout -- . ; git -C /repo clean -fdq -- crates 2>/dev/null
  viol="$(echo "$log" | grep -c '^VIOLATION')"
  sigs="$(echo "$log" | grep '^VIOLATION' | sed 's/.*replay=.*[0-9]-//' | tr '\n' ' ')"
  echo "$p: prop=$prop exit=$rc violations=$viol time=$((end-start))s $sigs" | tee -a "$OUT"
  if [ "$rc" = 2 ]; then echo "$log" | tail -5 | sed 's/^/    /' | tee -a "$OUT"; fi
done
echo "--- unchanged tree must stay silent" | tee -a "$OUT"
