#!/usr/bin/env python3
"""Book-keeping for /verif/seeded/<id>/meta.json and the table of DESIGN.md §14.1.

  seeded_meta.py update <RESULTS file> [--first] [--history "<text>" name ...]
      record the outcome of a run of tools/run_mutants*.sh (lines "<path>/<name>/patch.diff: prop=.. exit=.. violations=.. time=..s sigs")
      in the meta.json of the seeded changes it names: as `first_result` with --first (only if none is
      recorded yet), as `detected_by` otherwise. --history sets the `history` text of the named changes.
  seeded_meta.py table
      print the markdown table.
Never run by a registered check."""
import json, os, re, sys

SEEDED = "/verif/seeded"
SOURCE = "written by an independent sub-agent that saw only the property text and its own scratch worktree of /repo (nothing from /verif)"


def load(name):
    p = os.path.join(SEEDED, name, "meta.json")
    return json.load(open(p)) if os.path.exists(p) else {}


def save(name, m):
    d = os.path.join(SEEDED, name)
    m.setdefault("property", name.split("-")[0])
    if "title" not in m:
        notes = os.path.join(d, "notes.md")
        title = ""
        if os.path.exists(notes):
            for line in open(notes):
                if line.strip():
                    title = line.strip().lstrip("# ").strip()
                    break
        m["title"] = title
    m.setdefault("source", SOURCE)
    m["files"] = sorted(os.listdir(d))
    m.setdefault("what_i_ran", [
        "tools/confirm_seeded.py: in a scratch worktree (/tmp/wt/confirm, removed afterwards): demo passes on HEAD, fails with patch.diff applied; existing suites of the touched crates (and dependants) pass with the patch",
        f"tools/run_mutants.sh or tools/run_mutants_isolated.sh: patch.diff applied to /repo (or to a scratch worktree with a scratch copy of the sim workspace); ./check {m['property']} quick; reverted",
    ])
    json.dump(m, open(os.path.join(d, "meta.json"), "w"), indent=1)


def parse_results(path):
    out = {}
    for line in open(path):
        m = re.match(r"\S*/([^/]+)/patch\.diff: prop=(C\d\d) exit=(\d+) violations=(\d+) time=(\d+)s ?(.*)", line)
        if not m:
            continue
        name, prop, rc, viol, secs, sigs = m.groups()
        out[name] = {"check": prop, "exit": int(rc), "violations": int(viol), "time_s": int(secs),
                     "signatures": [s[:-5] if s.endswith(".json") else s for s in sigs.split()], "run": os.path.basename(path)}
    return out


def main():
    if len(sys.argv) >= 2 and sys.argv[1] == "table":
        names = sorted(os.listdir(SEEDED), key=lambda n: (n.split("-")[0], int(n.split("-")[1])))
        print("| seeded | what it is | check | caught | first signature | note |")
        print("|---|---|---|---|---|---|")
        for n in names:
            m = load(n)
            if not m:
                continue
            title = re.sub(r"^(Seeded change|Seed|Change)\s*\d*\s*[—:-]*\s*", "", m.get("title", ""), flags=re.I).replace("|", "/")[:100]
            det = m.get("detected_by", {})
            caught = "yes" if det.get("exit") == 1 and det.get("violations", 0) > 0 else "**no**"
            sig = det.get("signatures", [""])[0].replace("_", "/", 1) if det.get("signatures") else ""
            extra = ""
            if det.get("check") and det["check"] != m.get("property"):
                extra = f" (by {det['check']})"
            fr = m.get("first_result")
            note = "missed at first" if fr and not (fr.get("exit") == 1 and fr.get("violations", 0) > 0) else ""
            print(f"| {n} | {title} | {det.get('check', m.get('property'))} | {caught} | `{sig}`{extra} | {note} |")
        return
    if len(sys.argv) >= 3 and sys.argv[1] == "update":
        res = parse_results(sys.argv[2])
        first = "--first" in sys.argv
        hist = None
        hist_names = []
        if "--history" in sys.argv:
            i = sys.argv.index("--history")
            hist = sys.argv[i + 1]
            hist_names = sys.argv[i + 2:]
        for name, r in res.items():
            if not os.path.isdir(os.path.join(SEEDED, name)):
                continue
            m = load(name)
            if first:
                m.setdefault("first_result", r)
                if r["exit"] == 1 and r["violations"] > 0:
                    m.setdefault("detected_by", r)
            else:
                m["detected_by"] = r
            save(name, m)
            print(name, "first" if first else "detected_by", r["exit"], r["violations"])
        for name in hist_names:
            m = load(name)
            m["history"] = hist
            save(name, m)
        return
    print(__doc__)
    sys.exit(2)


main()
