#!/usr/bin/env python3
"""Confirm every seeded change under /verif/seeded in a scratch worktree (outside /repo and /verif):
   demo passes on HEAD, fails with the patch, and the existing suites of the touched crates still
   pass with the patch. Writes the result into <dir>/meta.json (merged with existing keys).
   usage: confirm_seeded.py [name ...]"""
import json, os, re, subprocess, sys, shutil

WT = "/tmp/wt/confirm"
ENV = dict(os.environ, RUSTUP_TOOLCHAIN="1.88.0", CARGO_NET_OFFLINE="true", CARGO_TARGET_DIR="/tmp/wt/confirm-target")
SEEDED = "/verif/seeded"


def sh(cmd, cwd=WT, timeout=1800):
    p = subprocess.run(cmd, shell=True, cwd=cwd, env=ENV, capture_output=True, text=True, timeout=timeout)
    return p.returncode, (p.stdout + p.stderr)


def summary(out):
    lines = [l for l in out.splitlines() if l.startswith("test result") or "FAILED" in l or "panicked" in l or "error" in l.lower()[:10]]
    return lines[-6:]


def main():
    names = sys.argv[1:] or sorted(os.listdir(SEEDED))
    if not os.path.isdir(WT):
        rc, out = sh(f"git -C /repo worktree add --detach {WT} HEAD", cwd="/")
        if rc != 0:
            print(out)
            sys.exit(2)
    for name in names:
        d = os.path.join(SEEDED, name)
        if not os.path.isfile(os.path.join(d, "patch.diff")):
            continue
        meta_path = os.path.join(d, "meta.json")
        meta = json.load(open(meta_path)) if os.path.exists(meta_path) else {}
        notes = open(os.path.join(d, "notes.md")).read() if os.path.exists(os.path.join(d, "notes.md")) else ""
        patch = open(os.path.join(d, "patch.diff")).read()
        touched = sorted(set(re.findall(r"^\+\+\+ b/crates/([a-z-]+)/", patch, re.M)))
        demo_text = open(os.path.join(d, "demo.rs")).read() if os.path.exists(os.path.join(d, "demo.rs")) else ""
        m = re.search(r"crates/([a-z-]+)/tests/", demo_text) or re.search(r"crates/([a-z-]+)/tests/", notes)
        demo_crate = m.group(1) if m else (touched[0] if touched else "ruma-state-res")
        sh("git checkout -q -- . && git clean -fdq crates")
        res = {"demo_crate": demo_crate, "touched_crates": touched}
        demo = os.path.join(d, "demo.rs")
        if os.path.exists(demo):
            os.makedirs(f"{WT}/crates/{demo_crate}/tests", exist_ok=True)
            shutil.copy(demo, f"{WT}/crates/{demo_crate}/tests/seeded_demo.rs")
            feats = " --features client,server" if demo_crate.endswith("-api") else (" --features canonical-json" if demo_crate == "ruma-common" else "")
            rc, out = sh(f"cargo test --offline -p {demo_crate}{feats} --test seeded_demo 2>&1")
            res["demo_without_patch"] = {"exit": rc, "tail": summary(out)}
        rc, out = sh(f"git apply {d}/patch.diff")
        res["patch_applies"] = rc == 0
        if os.path.exists(demo) and rc == 0:
            rc2, out2 = sh(f"cargo test --offline -p {demo_crate}{feats} --test seeded_demo 2>&1")
            res["demo_with_patch"] = {"exit": rc2, "tail": summary(out2)}
            os.remove(f"{WT}/crates/{demo_crate}/tests/seeded_demo.rs")
        suites = {}
        crates = set(touched)
        if "ruma-identifiers-validation" in crates:
            crates |= {"ruma-common"}
        if "ruma-common" in crates:
            crates |= {"ruma-signatures", "ruma-state-res"}
        for c in sorted(crates):
            if c == "ruma-common":
                cmd = "cargo test --offline -p ruma-common --lib --features canonical-json 2>&1 && cargo test --offline -p ruma-common --test it -- --skip id_macros 2>&1"
            elif c.endswith("-api"):
                cmd = f"cargo test --offline -p {c} --features client,server 2>&1"
            else:
                cmd = f"cargo test --offline -p {c} 2>&1"
            rc3, out3 = sh(cmd)
            suites[c] = {"exit": rc3, "tail": summary(out3)}
        res["existing_suites_with_patch"] = suites
        ok = (res.get("demo_without_patch", {}).get("exit") == 0 and res.get("demo_with_patch", {}).get("exit", 0) != 0
              and res["patch_applies"] and all(v["exit"] == 0 for v in suites.values()))
        res["confirmed"] = ok
        meta["confirmation"] = res
        json.dump(meta, open(meta_path, "w"), indent=1)
        print(name, "CONFIRMED" if ok else "NOT-CONFIRMED", json.dumps({k: (v if not isinstance(v, dict) else v.get("exit", "")) for k, v in res.items() if k != "existing_suites_with_patch"}), {k: v["exit"] for k, v in suites.items()}, flush=True)
    sh("git checkout -q -- . && git clean -fdq crates")


main()
