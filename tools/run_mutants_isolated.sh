#!/bin/bash
# Sensitivity self-test without touching /repo or /verif's evidence: the patches are applied to a
# scratch worktree of /repo, and a scratch copy of the sim workspace (path dependencies rewritten to
# that worktree, own target dir) is built and run with a scratch VERIF_ROOT. Everything lives under
# /tmp/mutiso and is removed with `tools/run_mutants_isolated.sh --clean`.
# usage: tools/run_mutants_isolated.sh <dir-with-patches> [tier]
set -u
BASE="${MUTISO_BASE:-/tmp/mutiso}"
WT=$BASE/repo; SC=$BASE/sim; ROOT=$BASE/root
if [ "${1:-}" = "--clean" ]; then
  git -C /repo worktree remove --force "$WT" 2>/dev/null; git -C /repo worktree prune; rm -rf "$BASE"; exit 0
fi
DIR="${1:?dir with patches}"; TIER="${2:-quick}"
export RUSTUP_TOOLCHAIN=1.88.0 CARGO_NET_OFFLINE=true
mkdir -p "$BASE" "$ROOT/evidence" "$ROOT/replays"
if [ ! -d "$WT" ]; then git -C /repo worktree add --detach "$WT" HEAD >/dev/null 2>&1 || exit 2; fi
git -C "$WT" checkout -q --detach "$(git -C /repo rev-parse HEAD)" 2>/dev/null
git -C "$WT" checkout -q -- . ; git -C "$WT" clean -fdq -- crates
rsync -a --delete --exclude 'target' --exclude 'target-*' --exclude '.build.*' /verif/sim/ "$SC/"
sed -i "s#/repo/crates#$WT/crates#g" "$SC/Cargo.toml" "$SC"/*/Cargo.toml
cp /repo/Cargo.lock "$SC/Cargo.lock"
cp /verif/known_findings.json "$ROOT/known_findings.json"
export CARGO_TARGET_DIR="$SC/target"
engine_of() { case "$1" in C13) echo pushsim;; C17) echo crashsim;; *) echo simfed;; esac; }
OUT="/verif/mutants/RESULTS.$(basename "$DIR").txt"; : > "$OUT"
for p in "$DIR"/*.patch "$DIR"/*/patch*.diff; do
  [ -f "$p" ] || continue
  prop="$(echo "$p" | grep -o 'C[0-9][0-9]' | head -1)"
  git -C "$WT" checkout -q -- . ; git -C "$WT" clean -fdq -- crates
  if ! git -C "$WT" apply --check "$p" 2>/dev/null; then echo "$p: DOES-NOT-APPLY" | tee -a "$OUT"; continue; fi
  git -C "$WT" apply "$p"
  eng="$(engine_of "$prop")"
  start=$(date +%s)
  if ! (cd "$SC" && cargo build --release --offline -p "$eng" > "$BASE/build.log" 2>&1); then
    echo "$p: prop=$prop BUILD-FAILED" | tee -a "$OUT"; tail -5 "$BASE/build.log"; continue
  fi
  log="$(cd "$ROOT" && VERIF_ROOT="$ROOT" "$SC/target/release/$eng" check "$prop" "$TIER" 2>&1)"; rc=$?
  end=$(date +%s)
  viol="$(echo "$log" | grep -c '^VIOLATION')"
  sigs="$(echo "$log" | grep '^VIOLATION' | sed 's/.*replay=.*[0-9]-//' | tr '\n' ' ')"
  echo "$p: prop=$prop exit=$rc violations=$viol time=$((end-start))s $sigs" | tee -a "$OUT"
  if [ "$rc" = 2 ]; then echo "$log" | tail -5 | sed 's/^/    /' | tee -a "$OUT"; fi
done
git -C "$WT" checkout -q -- . ; git -C "$WT" clean -fdq -- crates
